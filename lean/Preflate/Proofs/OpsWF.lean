/-
Every operation `encStream` emits is well formed (`Op.WF`), for a bounded predictor (`PredBounded`,
Model/PredBounded.lean) on a valid stream whose Huffman blocks have fewer than 2^31 - 1 tokens.
This is the hypothesis `∀ o ∈ ops, o.WF` of the codec theorems (`decode_encode`, `bytes_roundtrip`).
-/
import Preflate.Model.PredBounded
import Preflate.Proofs.TotalEnc
namespace Preflate.Proofs
open Preflate Gen

variable {H : Type}

/-- all operations of a list are well formed -/
def AllWF (ops : List Op) : Prop := ∀ o ∈ ops, o.WF

theorem AllWF.nil : AllWF [] := fun _ h => by cases h

theorem AllWF.cons {o : Op} {ops : List Op} (h : o.WF) (hs : AllWF ops) : AllWF (o :: ops) := by
  intro x hx
  rcases List.mem_cons.mp hx with rfl | hx
  · exact h
  · exact hs x hx

theorem AllWF.append {a b : List Op} (ha : AllWF a) (hb : AllWF b) : AllWF (a ++ b) := by
  intro x hx
  rcases List.mem_append.mp hx with hx | hx
  · exact ha x hx
  · exact hb x hx

/-- any failure is acceptable: the theorem is about the operations of a successful run -/
def AnyFail (_ : Fail) : Prop := True

theorem Post.anyErr {α : Type} {Q : α → Prop} (e : Fail) : Post AnyFail Q (.error e : R α) :=
  .error _ trivial

-- ---------------------------------------------------------------------------------------------
-- arithmetic

theorem encDiff_lt (p a : Nat) (hp : p < 2 ^ 30) (ha : a < 2 ^ 30) : encDiff p a < 2 ^ 31 := by
  unfold encDiff
  split <;> omega

theorem getD_lt {B : Nat} (hB : 0 < B) (l : List Nat) (h : ∀ x ∈ l, x < B) (i : Nat) : l.getD i 0 < B := by
  rw [List.getD_eq_getElem?_getD]
  cases hi : l[i]? with
  | none => simpa using hB
  | some v => exact h v (List.mem_of_getElem? hi)

theorem resizeTo_lt {B : Nat} (hB : 0 < B) (l : List Nat) (h : ∀ x ∈ l, x < B) (n : Nat) :
    ∀ x ∈ resizeTo l n, x < B := by
  intro x hx
  unfold resizeTo at hx
  rcases List.mem_append.mp hx with hx | hx
  · exact h x (List.mem_of_mem_take hx)
  · rw [List.mem_replicate] at hx
    omega

-- ---------------------------------------------------------------------------------------------
-- tokens

/-- the `max_chain` counter of `calculate_hops` bounds the hop count, whatever the candidates are -/
theorem hopsWalk_le (plain : Array Nat) (pos maxDist len target : Nat) :
    ∀ (cands : List Nat) (hops maxChain : Nat), 1 ≤ maxChain →
      Post AnyFail (fun h => h ≤ hops + maxChain)
        (hopsWalk plain pos maxDist len target cands hops maxChain) := by
  intro cands
  induction cands with
  | nil => intro hops maxChain _; exact Post.anyErr _
  | cons d rest ih =>
    intro hops maxChain hm
    rw [hopsWalk]
    split
    · exact Post.anyErr _
    · simp only
      split
      · split
        · refine .ok _ ?_
          split <;> omega
        · exact Post.anyErr _
      · split
        · exact Post.anyErr _
        · refine Post.mono (ih _ (maxChain - 1) (by omega)) (fun _ h => h) ?_
          intro h hh
          split at hh <;> omega

theorem calcHops_le (P : Pred H) (plain : Array Nat) (s : PState H) (len dist : Nat) :
    Post AnyFail (fun h => h ≤ 65535) (calcHops P plain s len dist) := by
  unfold calcHops
  split
  · exact Post.anyErr _
  · refine Post.mono (hopsWalk_le _ _ _ _ _ _ 0 65535 (by omega)) (fun _ h => h) ?_
    intro h hh
    omega

/-- what `encTok` / `encToks` maintain: well-formed operations, a bounded pending reference -/
def TokPost (p : List Op × PState H) : Prop := AllWF p.1 ∧ PendBounded p.2.pending

theorem encRefTail_wf (P : Pred H) (plain : Array Nat) (ops0 : List Op) (plen pdist : Nat) (s2 : PState H)
    (len dist : Nat) (irr : Bool) (h0 : AllWF ops0) (hplen : plen < PRED_BOUND) (hlen : len ≤ 258)
    (hpend : PendBounded s2.pending) :
    Post AnyFail TokPost (encRefTail P plain ops0 plen pdist s2 len dist irr) := by
  have hlenop : (Op.corr C_LEN (encDiff plen len)).WF :=
    ⟨by decide, encDiff_lt _ _ hplen (by omega)⟩
  have h3 : AllWF (if len = 258 then [Op.mis M_IRREGULAR258 irr] else []) := by
    split
    · exact AllWF.cons (by simp [Op.WF, M_IRREGULAR258]) AllWF.nil
    · exact AllWF.nil
  have hfin : ∀ (ops2 : List Op), AllWF ops2 →
      TokPost (ops0 ++ [Op.corr C_LEN (encDiff plen len)] ++ ops2 ++
        (if len = 258 then [Op.mis M_IRREGULAR258 irr] else []),
        commit P plain s2 (Token.ref len dist irr)) := by
    intro ops2 h2
    exact ⟨AllWF.append (AllWF.append (AllWF.append h0 (AllWF.cons hlenop AllWF.nil)) h2) h3, hpend⟩
  unfold encRefTail
  simp only
  split
  · refine Post.bind (calcHops_le P plain s2 len dist) (fun _ h => h) ?_
    intro h hh
    exact .ok _ (hfin _ (AllWF.cons ⟨by decide, by omega⟩ AllWF.nil))
  · split
    · refine Post.bind (calcHops_le P plain s2 len dist) (fun _ h => h) ?_
      intro h hh
      exact .ok _ (hfin _ (AllWF.cons ⟨by decide, by omega⟩ AllWF.nil))
    · exact .ok _ (hfin _ (AllWF.cons ⟨by decide, by omega⟩ AllWF.nil))

/-- the only thing the proof needs from `ValidTok`: the actual length is at most 258 -/
def TokSmall : Token → Prop
  | .lit _ => True
  | .ref len _ _ => len ≤ 258

theorem encTok_wf (P : Pred H) (hb : PredTokBounded P) (plain : Array Nat) (s : PState H) (t : Token)
    (ht : TokSmall t) (hpend : PendBounded s.pending) :
    Post AnyFail TokPost (encTok P plain s t) := by
  unfold encTok
  have hpr := hb.predict plain s hpend
  rcases hp : P.predictTok plain s with ⟨pt, pend⟩
  rw [hp] at hpr
  obtain ⟨hpt, hpend1⟩ := hpr
  simp only at hpt hpend1 ⊢
  have hnone : PendBounded (none : Option (Nat × Nat)) := fun _ _ h => by cases h
  cases t with
  | lit b =>
    refine .ok _ ⟨?_, hpend1⟩
    cases pt with
    | lit => exact AllWF.cons (by simp [Op.WF, M_LITERAL_WRONG]) AllWF.nil
    | ref l d => exact AllWF.cons (by simp [Op.WF, M_REFERENCE_WRONG]) AllWF.nil
  | ref len dist irr =>
    simp only
    refine Post.bind
      (Q := fun (q : List Op × Nat × Nat × PState H) =>
        AllWF q.1 ∧ q.2.1 < PRED_BOUND ∧ PendBounded q.2.2.2.pending) ?_ (fun _ h => h) ?_
    · cases pt with
      | lit =>
        simp only
        cases hr : P.repredictTok plain { s with pending := pend } with
        | error e => exact Post.anyErr _
        | ok ld =>
          obtain ⟨l, d⟩ := ld
          have hl := hb.repredict plain { s with pending := pend } l d hpend1 hr
          exact .ok _ ⟨AllWF.cons (by simp [Op.WF, M_LITERAL_WRONG]) AllWF.nil, hl, hnone⟩
      | ref l d =>
        exact .ok _ ⟨AllWF.cons (by simp [Op.WF, M_REFERENCE_WRONG]) AllWF.nil, hpt, hpend1⟩
    · intro ⟨ops0, plen, pdist, s2⟩ ⟨h0, hpl, hp2⟩
      exact encRefTail_wf P plain ops0 plen pdist s2 len dist irr h0 hpl ht hp2

theorem encToks_wf (P : Pred H) (hb : PredTokBounded P) (plain : Array Nat) :
    ∀ (ts : List Token) (s : PState H), (∀ t ∈ ts, TokSmall t) → PendBounded s.pending →
      Post AnyFail TokPost (encToks P plain s ts) := by
  intro ts
  induction ts with
  | nil => intro s _ hp; exact .ok _ ⟨AllWF.nil, hp⟩
  | cons t ts ih =>
    intro s hts hp
    rw [encToks]
    refine Post.bind (encTok_wf P hb plain s t (hts t (List.mem_cons_self ..)) hp) (fun _ h => h) ?_
    intro ⟨a, s1⟩ ⟨ha, hp1⟩
    refine Post.bind (ih s1 (fun t' ht' => hts t' (List.mem_cons_of_mem _ ht')) hp1) (fun _ h => h) ?_
    intro ⟨b, s2⟩ ⟨hb2, hp2⟩
    exact .ok _ ⟨AllWF.append ha hb2, hp2⟩

theorem validToks_small (plain : Array Nat) : ∀ (ts : List Token) (pos : Nat),
    ValidToks plain pos ts → ∀ t ∈ ts, TokSmall t := by
  intro ts
  induction ts with
  | nil => intro _ _ t ht; cases ht
  | cons t0 ts ih =>
    intro pos hv t ht
    obtain ⟨hv0, hvs⟩ := hv
    rcases List.mem_cons.mp ht with rfl | ht
    · cases t with
      | lit b => trivial
      | ref len dist irr => exact hv0.2.1
    · exact ih _ hvs t ht

-- ---------------------------------------------------------------------------------------------
-- dynamic header

theorem takeWhile_length_le {α : Type} (p : α → Bool) (l : List α) : (l.takeWhile p).length ≤ l.length := by
  induction l with
  | nil => simp
  | cons a l ih =>
    rw [List.takeWhile_cons]
    split <;> simp <;> omega

theorem predictCodeType_le (syms : List Nat) (prev : Option Nat) : predictCodeType syms prev ≤ 18 := by
  unfold predictCodeType
  simp only
  split
  · split
    · omega
    · split <;> omega
  · split
    · split <;> omega
    · omega

theorem predictCodeData_lt (syms : List Nat) (kind : Nat) (hs : ∀ x ∈ syms, x < PRED_BOUND) :
    predictCodeData syms kind < PRED_BOUND := by
  have hB : (0 : Nat) < PRED_BOUND := by decide
  unfold predictCodeData
  simp only
  split
  · cases syms with
    | nil => simpa using hB
    | cons a l => simpa using hs a (List.mem_cons_self ..)
  · split
    · have := takeWhile_length_le (· == syms.headD 0) ((syms.take 6).drop 3)
      simp only [List.length_drop, List.length_take] at this
      unfold PRED_BOUND
      omega
    · split
      · have := takeWhile_length_le (· == 0) ((syms.take 10).drop 3)
        simp only [List.length_drop, List.length_take] at this
        unfold PRED_BOUND
        omega
      · have := takeWhile_length_le (· == 0) ((syms.take 138).drop 11)
        simp only [List.length_drop, List.length_take] at this
        unfold PRED_BOUND
        omega

theorem encLdTrees_wf : ∀ (items : List RleItem) (syms : List Nat) (prev : Option Nat),
    (∀ it ∈ items, Tree.ItemOk it) → (∀ x ∈ syms, x < PRED_BOUND) →
    Post AnyFail AllWF (encLdTrees syms prev items) := by
  intro items
  induction items with
  | nil => intro syms prev _ _; exact .ok _ AllWF.nil
  | cons it rest ih =>
    intro syms prev hit hs
    have hok : Tree.ItemOk it := hit it (List.mem_cons_self ..)
    rw [encLdTrees]
    split
    · exact Post.anyErr _
    · split
      · exact Post.anyErr _
      · simp only
        refine Post.bind (ih (syms.drop (itemSpan it)) _
          (fun it' h' => hit it' (List.mem_cons_of_mem _ h'))
          (fun x hx => hs x (List.mem_of_mem_drop hx))) (fun _ h => h) ?_
        intro r hr
        have hpt := predictCodeType_le syms prev
        have hpd := predictCodeData_lt syms it.kind hs
        have hkind : it.kind ≤ 18 ∧ it.data ≤ 138 := by
          unfold Tree.ItemOk at hok; omega
        have ha : (Op.corr C_LD_TYPE (encDiff (predictCodeType syms prev) it.kind)).WF :=
          ⟨by decide, encDiff_lt _ _ (by omega) (by omega)⟩
        have hdl : encDiff (predictCodeData syms it.kind) it.data < 2 ^ 31 :=
          encDiff_lt _ _ hpd (by omega)
        refine .ok _ (AllWF.cons ha (AllWF.cons ?_ hr))
        split
        · exact ⟨by decide, hdl⟩
        · exact ⟨by decide, hdl⟩

theorem encTcLengths_wf (tc cl : List Nat) (htc : ∀ x ∈ tc, x < PRED_BOUND) (hcl : ∀ x ∈ cl, x < 8) :
    ∀ (n i : Nat), AllWF (encTcLengths tc cl n i) := by
  intro n
  induction n with
  | zero => intro i; exact AllWF.nil
  | succ n ih =>
    intro i
    rw [encTcLengths]
    refine AllWF.cons ⟨by decide, encDiff_lt _ _ (getD_lt (by decide) tc htc _) ?_⟩ (ih (i + 1))
    have := getD_lt (B := 8) (by omega) cl hcl (TREE_CODE_ORDER_TABLE.getD i 0)
    omega

theorem encTree_wf (P : Pred H) (hb : PredLenBounded P) (h : Header) (hv : HeaderValid h)
    (freq : List Nat × List Nat) :
    Post AnyFail AllWF (encTree P h freq) := by
  have hB : (0 : Nat) < PRED_BOUND := by decide
  unfold encTree
  have hbl0 := hb.bitlen freq.1 15 (by omega)
  have hdl0 := hb.bitlen freq.2 15 (by omega)
  generalize P.calcBitLengths freq.1 15 = bl0 at hbl0
  generalize P.calcBitLengths freq.2 15 = dl0 at hdl0
  simp only
  generalize hbl1 : (if bl0.length ≠ h.numLiterals then resizeTo bl0 h.numLiterals else bl0) = bl1
  generalize hdl1 : (if dl0.length ≠ h.numDist then resizeTo dl0 h.numDist else dl0) = dl1
  have hbl1b : ∀ x ∈ bl1, x < PRED_BOUND := by
    subst hbl1; split
    · exact resizeTo_lt hB _ hbl0 _
    · exact hbl0
  have hdl1b : ∀ x ∈ dl1, x < PRED_BOUND := by
    subst hdl1; split
    · exact resizeTo_lt hB _ hdl0 _
    · exact hdl0
  have hsyms : ∀ x ∈ bl1 ++ dl1, x < PRED_BOUND := by
    intro x hx
    rcases List.mem_append.mp hx with hx | hx
    · exact hbl1b x hx
    · exact hdl1b x hx
  split
  · exact Post.anyErr _
  · refine Post.bind (encLdTrees_wf h.items (bl1 ++ dl1) none hv.items_kind hsyms) (fun _ h => h) ?_
    intro c hc
    have htc0 := hb.bitlen (codetreeFreq h.items (List.replicate CODETREE_CODE_COUNT 0)) 7 (by omega)
    generalize P.calcBitLengths (codetreeFreq h.items (List.replicate CODETREE_CODE_COUNT 0)) 7 = tc0
      at htc0
    have hlit := hv.lit_lo
    have hlit' := hv.lit_hi
    have hd := hv.dist_lo
    have hd' := hv.dist_hi
    have hcl := hv.cl_lo
    have hcl' := hv.cl_hi
    refine .ok _ (AllWF.append (AllWF.append (AllWF.append (AllWF.append ?_ ?_) hc) ?_)
      (encTcLengths_wf _ _ (resizeTo_lt hB _ htc0 _) hv.cl_small _ _))
    · refine AllWF.append (AllWF.cons (by simp [Op.WF, M_LITERAL_COUNT]) AllWF.nil) ?_
      split
      · refine AllWF.cons ?_ AllWF.nil
        simp only [Op.WF]
        omega
      · exact AllWF.nil
    · refine AllWF.append (AllWF.cons (by simp [Op.WF, M_DISTANCE_COUNT]) AllWF.nil) ?_
      split
      · refine AllWF.cons ?_ AllWF.nil
        simp only [Op.WF]
        omega
      · exact AllWF.nil
    · split
      · refine AllWF.cons (by simp [Op.WF, M_TREECODE_COUNT]) (AllWF.cons ?_ AllWF.nil)
        simp only [Op.WF]
        omega
      · exact AllWF.cons (by simp [Op.WF, M_TREECODE_COUNT]) AllWF.nil

-- ---------------------------------------------------------------------------------------------
-- blocks

theorem commitStored_pending (P : Pred H) (plain : Array Nat) : ∀ (n : Nat) (s : PState H),
    (commitStored P plain n s).pending = s.pending := by
  intro n
  induction n with
  | zero => intro s; rfl
  | succ n ih => intro s; rw [commitStored, ih]

theorem encTokBlock_wf (P : Pred H) (hb : PredTokBounded P) (plain : Array Nat) (s : PState H) (btn : Nat)
    (ts : List Token) (last : Bool) (tree : R (List Op)) (hbtn : btn ≤ 2)
    (hn : ts.length < 2 ^ 31 - 1) (hts : ∀ t ∈ ts, TokSmall t) (hp : PendBounded s.pending)
    (ht : Post AnyFail AllWF tree) :
    Post AnyFail TokPost (encTokBlock P plain s btn ts last tree) := by
  unfold encTokBlock
  simp only
  split
  · exact Post.anyErr _
  · refine Post.bind (encToks_wf P hb plain ts s hts hp) (fun _ h => h) ?_
    intro ⟨tokOps, s1⟩ ⟨htok, hp1⟩
    refine Post.bind ht (fun _ h => h) ?_
    intro treeOps htree
    refine .ok _ ⟨AllWF.cons ⟨by decide, encDiff_lt _ _ (by omega) (by omega)⟩
      (AllWF.cons ?_ (AllWF.append htok htree)), hp1⟩
    split
    · exact ⟨by decide, by omega⟩
    · exact ⟨by decide, by omega⟩

/-- only dynamic blocks consult the length calculator -/
def HasDynamic (blocks : List Block) : Prop := ∃ h ts, Block.dynamic h ts ∈ blocks

theorem encBlock_wf (P : Pred H) (hb : PredTokBounded P) (plain : Array Nat) (s : PState H) (b : Block)
    (hl : HasDynamic [b] → PredLenBounded P)
    (last : Bool) (hv : ValidBlock plain s.pos b) (hn : (blockTokens b).length < 2 ^ 31 - 1) :
    Post AnyFail TokPost (encBlock P plain s b last) := by
  have hnone : PendBounded (none : Option (Nat × Nat)) := fun _ _ h => by cases h
  cases b with
  | stored pad data =>
    obtain ⟨hpad, hlen, _, _⟩ := hv
    refine .ok _ ⟨AllWF.cons ⟨by decide, by simp [encDiff, blockTypeNum]⟩
      (AllWF.cons ?_ (AllWF.cons ?_ AllWF.nil)), ?_⟩
    · simp only [Op.WF]
      omega
    · exact ⟨by decide, by omega⟩
    · simp only [commitStored_pending]
      exact hnone
  | fixed ts =>
    rw [encBlock_fixed]
    exact encTokBlock_wf P hb plain _ _ ts last _ (by omega) hn
      (validToks_small plain ts _ hv.1) hnone (.ok _ AllWF.nil)
  | dynamic h ts =>
    rw [encBlock_dynamic]
    exact encTokBlock_wf P hb plain _ _ ts last _ (by omega) hn
      (validToks_small plain ts _ hv.1) hnone
      (encTree_wf P (hl ⟨h, ts, List.mem_cons_self ..⟩) h hv.2.2 _)

/-- the blocks; positions are tracked through `decBlock_encBlock` as in `encBlocks_post` -/
theorem encBlocks_wf (P : Pred H) (hb : PredTokBounded P) (plain : Array Nat) :
    ∀ (blocks : List Block) (s : PState H), (HasDynamic blocks → PredLenBounded P) →
      ValidBlocks plain s.pos blocks →
      blocksEnd s.pos blocks = plain.size → TokenCountsSmall blocks →
      Post AnyFail (fun p => AllWF p.1) (encBlocks P plain s blocks) := by
  intro blocks
  induction blocks with
  | nil => intro s _ _ _ _; exact .ok _ AllWF.nil
  | cons b rest ih =>
    intro s hl hv hend hsmall
    obtain ⟨hvb, hvr⟩ := hv
    have hlast : rest.isEmpty = true → blockEnd s.pos b = plain.size := by
      intro hb
      have : rest = [] := by simpa using hb
      subst this
      simpa [blocksEnd] using hend
    have hl1 : HasDynamic [b] → PredLenBounded P := by
      rintro ⟨h, ts, hm⟩
      have : Block.dynamic h ts = b := by simpa using hm
      exact hl ⟨h, ts, by rw [this]; exact List.mem_cons_self ..⟩
    have hl2 : HasDynamic rest → PredLenBounded P := by
      rintro ⟨h, ts, hm⟩
      exact hl ⟨h, ts, List.mem_cons_of_mem _ hm⟩
    rw [encBlocks]
    simp only
    refine Post.bind (Post.and_ok (encBlock_wf P hb plain s b hl1 rest.isEmpty hvb
      (hsmall b (List.mem_cons_self ..))) (Q' := fun p => p.2.pos = blockEnd s.pos b) ?_)
      (fun _ h => h) ?_
    · intro ⟨a, s1⟩ ha
      exact (decBlock_encBlock P plain s b rest.isEmpty hvb hlast a s1 ha []).2.1
    · intro ⟨a, s1⟩ ⟨⟨hwa, _⟩, hp1⟩
      simp only at hp1 hwa ⊢
      refine Post.bind (ih s1 hl2 (by rw [hp1]; exact hvr) (by rw [hp1]; simpa [blocksEnd] using hend)
        (fun b' h' => hsmall b' (List.mem_cons_of_mem _ h'))) (fun _ h => h) ?_
      intro ⟨r, s2⟩ hr
      refine .ok _ (AllWF.append (AllWF.append ?_ hwa) hr)
      split
      · exact AllWF.cons (by simp [Op.WF, M_EOF]) AllWF.nil
      · exact AllWF.nil

theorem encStream_post_wf (P : Pred H) (hb : PredTokBounded P) (plain : Array Nat) (blocks : List Block)
    (hl : HasDynamic blocks → PredLenBounded P)
    (pad : Nat) (hv : StreamValid plain blocks) (hpad : pad < 256) (hsmall : TokenCountsSmall blocks) :
    Post AnyFail AllWF (encStream P plain blocks pad) := by
  obtain ⟨_, hvb, hend⟩ := hv
  unfold encStream
  simp only
  refine Post.bind (encBlocks_wf P hb plain blocks ⟨P.init, none, 0, 0⟩ hl hvb hend hsmall) (fun _ h => h) ?_
  intro ⟨ops, s⟩ hops
  simp only at hops ⊢
  split
  · exact Post.anyErr _
  · exact .ok _ (AllWF.append hops (AllWF.cons (by simp [Op.WF, M_EOF])
      (AllWF.cons ⟨by decide, by omega⟩ AllWF.nil)))

/-- MAIN (finest form): the token part of `PredBounded` always, the bit-length part only if the stream
    has a dynamic block, and no Huffman block with 2^31 - 1 or more tokens. -/
theorem encStream_ops_wf'' (P : Pred H) (hb : PredTokBounded P) (plain : Array Nat) (blocks : List Block)
    (hl : HasDynamic blocks → PredLenBounded P)
    (pad : Nat) (hv : StreamValid plain blocks) (hpad : pad < 256) (hsmall : TokenCountsSmall blocks)
    (ops : List Op) (he : encStream P plain blocks pad = .ok ops) : ∀ o ∈ ops, o.WF := by
  have h := encStream_post_wf P hb plain blocks hl pad hv hpad hsmall
  rw [he] at h
  exact Post.ok_iff.mp h

/-- MAIN (block-level form): every operation emitted for a valid stream by a bounded predictor is well
    formed, provided no Huffman block has 2^31 - 1 or more tokens. -/
theorem encStream_ops_wf' (P : Pred H) (hb : PredBounded P) (plain : Array Nat) (blocks : List Block)
    (pad : Nat) (hv : StreamValid plain blocks) (hpad : pad < 256) (hsmall : TokenCountsSmall blocks)
    (ops : List Op) (he : encStream P plain blocks pad = .ok ops) : ∀ o ∈ ops, o.WF :=
  encStream_ops_wf'' P hb.toPredTokBounded plain blocks (fun _ => hb.toPredLenBounded) pad hv hpad hsmall
    ops he

-- ---------------------------------------------------------------------------------------------
-- the token-count bound from the size of the plaintext

theorem toksEnd_ge : ∀ (ts : List Token) (pos : Nat), ValidToks plain pos ts →
    pos + ts.length ≤ toksEnd pos ts := by
  intro ts
  induction ts with
  | nil => intro pos _; simp [toksEnd]
  | cons t ts ih =>
    intro pos hv
    obtain ⟨hvt, hvs⟩ := hv
    have := ih _ hvs
    have hl : 1 ≤ tokenLen t := by
      cases t with
      | lit b => simp [tokenLen]
      | ref len dist irr => have := hvt.1; simp only [tokenLen]; omega
    simp only [toksEnd, List.length_cons]
    omega

theorem blockEnd_ge (plain : Array Nat) (pos : Nat) (b : Block) (hv : ValidBlock plain pos b) :
    pos + (blockTokens b).length ≤ blockEnd pos b := by
  cases b with
  | stored pad data => simp [blockTokens, blockEnd]
  | fixed ts => exact toksEnd_ge ts pos hv.1
  | dynamic h ts => exact toksEnd_ge ts pos hv.1

theorem blocksEnd_ge (plain : Array Nat) : ∀ (blocks : List Block) (pos : Nat),
    ValidBlocks plain pos blocks →
    pos ≤ blocksEnd pos blocks ∧ ∀ b ∈ blocks, (blockTokens b).length ≤ blocksEnd pos blocks := by
  intro blocks
  induction blocks with
  | nil => intro pos _; exact ⟨by simp [blocksEnd], fun _ h => by cases h⟩
  | cons b rest ih =>
    intro pos hv
    obtain ⟨hvb, hvr⟩ := hv
    obtain ⟨h1, h2⟩ := ih _ hvr
    have hb := blockEnd_ge plain pos b hvb
    simp only [blocksEnd]
    refine ⟨by omega, ?_⟩
    intro b' hb'
    rcases List.mem_cons.mp hb' with rfl | hb'
    · omega
    · exact h2 b' hb'

/-- on a valid stream every token produces at least one byte -/
theorem tokenCountsSmall_of_size (plain : Array Nat) (blocks : List Block) (hv : StreamValid plain blocks)
    (hsize : plain.size < 2 ^ 31 - 1) : TokenCountsSmall blocks := by
  obtain ⟨_, hvb, hend⟩ := hv
  intro b hb
  have := (blocksEnd_ge plain blocks 0 hvb).2 b hb
  omega

/-- MAIN: every operation `encStream` emits is well formed.

    Hypotheses beyond the brief's: `hsize`. `StreamValid` only bounds a block's token count by
    2^32 - 1 (the `u32::try_from` of `predict_block`), and `Op.corr C_TOKEN_COUNT (n + 1)` is emitted
    whenever `n` differs from the predictor's block size, so a block of 2^31 - 1 or more tokens gives a
    correction ≥ 2^31: `write_exp_encoded` would compute `1 << 32` on a u32 there (`writeExp` panic).
    Such a block needs at least 2^31 - 1 bytes of plaintext; see `token_count_counterexample`. -/
theorem encStream_ops_wf (P : Pred H) (hb : PredBounded P) (plain : Array Nat) (blocks : List Block)
    (pad : Nat) (hv : StreamValid plain blocks) (hpad : pad < 256) (hsize : plain.size < 2 ^ 31 - 1)
    (ops : List Op) (he : encStream P plain blocks pad = .ok ops) : ∀ o ∈ ops, o.WF :=
  encStream_ops_wf' P hb plain blocks pad hv hpad (tokenCountsSmall_of_size plain blocks hv hsize) ops he

-- ---------------------------------------------------------------------------------------------
-- why the hypotheses are needed (1): the two halves of `PredBounded`.
-- Each toy predictor satisfies the OTHER half, the stream is valid and small, `encStream` succeeds
-- and emits a correction equal to 2^31 (checked by kernel evaluation, `decide`).

namespace Counter

/-- bounded bit lengths, but always predicts a reference of length 2^30 + 3 (tight: 2^30 + 2 would
    still fit against an actual length of 3) -/
def cxTok : Pred Unit where
  init := ()
  maxTokenCount := 100
  windowBytes := 32768
  predictTok _ _ := (.ref (2 ^ 30 + 3) 1, none)
  repredictTok _ _ := .error .err
  candidates _ _ := [1]
  update _ _ _ _ := ()
  calcBitLengths f _ := f.map fun _ => 0

/-- bounded tokens (only ever predicts literals), but every code length is 2^30 -/
def cxLen : Pred Unit where
  init := ()
  maxTokenCount := 100
  windowBytes := 32768
  predictTok _ _ := (.lit, none)
  repredictTok _ _ := .error .err
  candidates _ _ := []
  update _ _ _ _ := ()
  calcBitLengths f _ := f.map fun _ => 2 ^ 30

/-- a valid header whose first code length is 0 -/
def cxHeader : Header := ⟨257, 1, 19, List.replicate 19 1, [⟨0, 0⟩, ⟨18, 138⟩, ⟨18, 117⟩, ⟨0, 1⟩, ⟨0, 1⟩]⟩

/-- `some b`: the run succeeded and `b` says whether all its operations are well formed -/
def allWF (r : R (List Op)) : Option Bool :=
  match r with
  | .ok ops => some (ops.all fun o => decide o.WF)
  | .error _ => none

theorem cxTok_valid : StreamValid #[0, 0, 0, 0] [.fixed [.lit 0, .ref 3 1 false]] := by
  refine ⟨by simp, ⟨⟨⟨?_, ?_, trivial⟩, by decide⟩, trivial⟩, rfl⟩
  · simp only [ValidTok]
    decide
  · simp only [ValidTok, tokenLen]
    decide

theorem cxTok_len : PredLenBounded cxTok := by
  refine ⟨fun freq m _ x hx => ?_⟩
  simp only [cxTok, List.mem_map] at hx
  obtain ⟨_, _, rfl⟩ := hx
  decide

theorem cxHeader_valid : HeaderValid cxHeader := by
  refine ⟨by decide, by decide, by decide, by decide, by decide, by decide, by decide, by decide, ?_,
    by decide, by decide⟩
  intro i h1 h2
  simp only [cxHeader] at h1
  omega

theorem cxLen_valid : StreamValid #[] [.dynamic cxHeader []] :=
  ⟨by simp, ⟨⟨trivial, by decide, cxHeader_valid⟩, trivial⟩, rfl⟩

theorem cxLen_tok : PredTokBounded cxLen :=
  ⟨fun _ _ _ => ⟨trivial, fun _ _ h => by cases h⟩, fun _ _ _ _ _ h => by cases h⟩

/-- emits `Op.corr C_LEN 2147483648` -/
theorem cxTok_not_wf : allWF (encStream cxTok #[0,0,0,0] [.fixed [.lit 0, .ref 3 1 false]] 0) = some false := by decide
set_option maxRecDepth 8192 in
/-- emits `Op.corr C_LD_BITLEN 2147483648` -/
theorem cxLen_not_wf : allWF (encStream cxLen #[] [.dynamic cxHeader []] 0) = some false := by decide

-- ---------------------------------------------------------------------------------------------
-- why the hypotheses are needed (2): the size bound `hsize` / `TokenCountsSmall`

/-- no failure at all -/
def NoFail (_ : Fail) : Prop := False

theorem encToks_lits (P : Pred H) (plain : Array Nat) : ∀ (k : Nat) (s : PState H),
    Post NoFail (fun _ => True) (encToks P plain s (List.replicate k (Token.lit 0))) := by
  intro k
  induction k with
  | zero => intro s; exact .ok _ trivial
  | succ k ih =>
    intro s
    rw [List.replicate_succ, encToks]
    refine Post.bind (Q := fun _ => True) ?_ (fun _ h => h) ?_
    · unfold encTok
      rcases P.predictTok plain s with ⟨pt, pend⟩
      exact .ok _ trivial
    · intro ⟨a, s1⟩ _
      refine Post.bind (ih s1) (fun _ h => h) ?_
      intro ⟨b, s2⟩ _
      exact .ok _ trivial

theorem toksEnd_lits : ∀ (k pos : Nat), toksEnd pos (List.replicate k (Token.lit 0)) = pos + k := by
  intro k
  induction k with
  | zero => intro pos; rfl
  | succ k ih => intro pos; rw [List.replicate_succ, toksEnd, ih]; simp only [tokenLen]; omega

theorem validToks_lits (N : Nat) : ∀ (k pos : Nat), pos + k ≤ N →
    ValidToks (Array.replicate N 0) pos (List.replicate k (Token.lit 0)) := by
  intro k
  induction k with
  | zero => intro pos _; trivial
  | succ k ih =>
    intro pos h
    rw [List.replicate_succ]
    refine ⟨⟨by simp only [Array.size_replicate]; omega, ?_⟩, ih _ (by simp only [tokenLen]; omega)⟩
    rw [Array.getD_eq_getD_getElem?, Array.getElem?_replicate]
    split <;> rfl

/-- the stream of `N` zero bytes coded as one fixed block of `N` literals -/
theorem lits_valid (N : Nat) (hN : N < 2 ^ 32 - 1) :
    StreamValid (Array.replicate N 0) [.fixed (List.replicate N (Token.lit 0))] := by
  refine ⟨by simp, ⟨⟨validToks_lits N N 0 (by omega), by simpa using hN⟩, trivial⟩, ?_⟩
  simp only [blocksEnd, blockEnd, toksEnd_lits, Array.size_replicate]
  omega

theorem encStream_lits (P : Pred H) (N : Nat) (hN : N < 2 ^ 32 - 1) (hm : P.maxTokenCount < N) (pad : Nat) :
    Post NoFail (fun ops => Op.corr C_TOKEN_COUNT (N + 1) ∈ ops)
      (encStream P (Array.replicate N 0) [.fixed (List.replicate N (Token.lit 0))] pad) := by
  unfold encStream
  simp only
  refine Post.bind
    (Q := fun p => Op.corr C_TOKEN_COUNT (N + 1) ∈ p.1 ∧ p.2.pos = N) ?_ (fun _ h => h) ?_
  · rw [encBlocks]
    simp only
    refine Post.bind
      (Q := fun p => Op.corr C_TOKEN_COUNT (N + 1) ∈ p.1 ∧ p.2.pos = N) ?_ (fun _ h => h) ?_
    · rw [encBlock_fixed]
      unfold encTokBlock
      simp only [List.length_replicate]
      split
      · omega
      · refine Post.bind (Post.and_ok (encToks_lits P _ N _)
          (Q' := fun p => p.2.pos = N) ?_) (fun _ h => h) ?_
        · intro ⟨a, s1⟩ ha
          have := (encToks_state P _ _ _ a s1 ha).1
          simpa [toksEnd_lits] using this
        · intro ⟨a, s1⟩ ⟨_, hp⟩
          refine .ok _ ⟨?_, hp⟩
          have hc : ((!([] : List Block).isEmpty && decide (N ≠ P.maxTokenCount)) ||
              decide (N > P.maxTokenCount)) = true := by
            simp only [Bool.or_eq_true, decide_eq_true_eq]; exact Or.inr hm
          rw [if_pos hc]
          simp
    · intro ⟨a, s1⟩ ⟨hmem, hp⟩
      rw [encBlocks]
      refine .ok _ ⟨?_, hp⟩
      simp only [List.append_nil]
      exact List.mem_append_right _ hmem
  · intro ⟨ops, s⟩ ⟨hmem, hp⟩
    simp only at hmem hp ⊢
    have he : ¬ ((!s.eof (Array.replicate N 0)) = true) := by simp [PState.eof, hp]
    rw [if_neg he]
    exact .ok _ (List.mem_append_left _ hmem)

/-- the size bound of `encStream_ops_wf` is tight: 2^31 - 1 zero bytes coded as one fixed block of
    literals form a valid stream on which EVERY predictor whose block size is below 2^31 - 1 (the
    real ones: below 2^16) succeeds and emits `Op.corr C_TOKEN_COUNT 2^31`, which is not well formed
    (`write_exp_encoded` computes `1u32 << 32` on it). -/
theorem token_count_counterexample :
    ∃ (plain : Array Nat) (blocks : List Block), StreamValid plain blocks ∧ plain.size = 2 ^ 31 - 1 ∧
      ∀ (H : Type) (P : Pred H), P.maxTokenCount < 2 ^ 31 - 1 →
        ∃ ops, encStream P plain blocks 0 = .ok ops ∧ ¬ ∀ o ∈ ops, o.WF := by
  refine ⟨Array.replicate (2 ^ 31 - 1) 0, [.fixed (List.replicate (2 ^ 31 - 1) (Token.lit 0))],
    lits_valid _ (by omega), Array.size_replicate, ?_⟩
  intro H P hm
  have h := encStream_lits P (2 ^ 31 - 1) (by omega) hm 0
  cases hr : encStream P (Array.replicate (2 ^ 31 - 1) 0)
      [.fixed (List.replicate (2 ^ 31 - 1) (Token.lit 0))] 0 with
  | error e => rw [hr] at h; cases h with | error _ hf => exact hf.elim
  | ok ops =>
    rw [hr] at h
    refine ⟨ops, rfl, fun hall => ?_⟩
    have hmem : Op.corr C_TOKEN_COUNT (2 ^ 31 - 1 + 1) ∈ ops := by
      cases h with | ok _ hq => exact hq
    have hw := hall _ hmem
    simp only [Op.WF] at hw
    omega

end Counter

end Preflate.Proofs
