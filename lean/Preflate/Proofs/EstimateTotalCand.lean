/- Panic-freedom of the full parameter estimator, part 4 of 4 (candidates and the token walk):
   every candidate's tables stay consistent (`CInv`) along `check_dump`, so `check_match` and
   `update_candidate_hashes` never panic on a valid stream. -/
import Preflate.Proofs.EstimateTotalDepth
namespace Preflate.Proofs.EstTotal
open Preflate Preflate.Est

/-! ### the two table updates -/

theorem internalUpdate_spec (hp : Params) (plain : Array Nat) (I : Nat → Prop) (d : Depth) (p l : Nat)
    (hsz : plain.size ≤ I32_MAX) (hl : p + l ≤ plain.size) (hb : DBasic d p) :
    ∃ d', d.internalUpdate hp plain p l = .ok d' ∧ DBasic d' (p + l) ∧
      (p + l + Chains.numHashBytes hp ≤ plain.size →
        DCons (hashAtA hp plain) I d p → DCons (hashAtA hp plain) I d' (p + l)) := by
  unfold Depth.internalUpdate
  simp only []
  rw [if_neg (show ¬ l > plain.size - p by omega)]
  have hn := numHashBytes_cases hp
  by_cases hroom : l + Chains.numHashBytes hp - 1 ≥ plain.size - p
  · rw [if_pos hroom]
    exact ⟨d, rfl, hb.mono (by omega), fun h => by omega⟩
  · rw [if_neg hroom]
    obtain ⟨head, cd, vf⟩ := d
    simp only []
    obtain ⟨d', e1, e2, e3⟩ := insertLoop_spec (hashAtA hp plain) I (hashAtA_lt hp plain) p l (by omega)
      l 0 head cd vf rfl (Nat.zero_le _) hb
    exact ⟨d', e1, e2, fun _ => e3⟩

theorem insertLoop3_bound (plain : Array Nat) (pos length B : Nat) (hB : pos + length ≤ B) :
    ∀ (n i : Nat) (head3 : Array Nat), length - i = n → (∀ x : Nat, head3[x]! ≤ B) →
      ∀ x : Nat, (insertLoop3 plain pos length i head3)[x]! ≤ B := by
  intro n
  induction n with
  | zero =>
    intro i head3 hn h x
    rw [insertLoop3, if_neg (by omega)]
    exact h x
  | succ n ih =>
    intro i head3 hn h x
    rw [insertLoop3, if_pos (by omega)]
    refine ih (i + 1) _ (by omega) ?_ x
    intro y
    rw [get_set!]
    split
    · omega
    · exact h y

theorem internalUpdate3_spec (plain : Array Nat) (head3 : Array Nat) (p l : Nat) (hl : p + l ≤ plain.size)
    (h : ∀ x : Nat, head3[x]! ≤ p) :
    ∃ h', internalUpdate3 plain head3 p l = .ok h' ∧ ∀ x : Nat, h'[x]! ≤ p + l := by
  unfold internalUpdate3
  simp only []
  rw [if_neg (show ¬ l > plain.size - p by omega)]
  split
  · exact ⟨head3, rfl, fun x => Nat.le_trans (h x) (by omega)⟩
  · exact ⟨_, rfl, insertLoop3_bound plain p l (p + l) (Nat.le_refl _) l 0 head3 rfl
      (fun x => Nat.le_trans (h x) (by omega))⟩

/-! ### one candidate -/

structure CInv (plain : Array Nat) (I : Nat → Prop) (c : Candidate) (cur : Nat) : Prop where
  basic : DBasic c.d cur
  h3 : ∀ x : Nat, c.head3[x]! ≤ cur
  cons : cur + Chains.numHashBytes c.hp ≤ plain.size → DCons (hashAtA c.hp plain) I c.d cur

/-- the update function of a Libdeflate4 candidate -/
def upd3 (plain : Array Nat) : Candidate → Nat → Nat → R Candidate := fun c p l =>
  match c with
  | ⟨hp, d, head3, l0, l1, mc⟩ => do
      let d ← d.internalUpdate hp plain p l
      let head3 ← internalUpdate3 plain head3 p l
      .ok ⟨hp, d, head3, l0, l1, mc⟩

/-- the update function of the other candidates -/
def upd1 (plain : Array Nat) : Candidate → Nat → Nat → R Candidate := fun c p l =>
  match c with
  | ⟨hp, d, head3, l0, l1, mc⟩ => do
      let d ← d.internalUpdate hp plain p l
      .ok ⟨hp, d, head3, l0, l1, mc⟩

theorem updateHash_eq (plain : Array Nat) (pol lim : Nat) (c : Candidate) (pos length : Nat) :
    c.updateHash plain pol lim pos length =
      if c.hp.hashAlg = 3 then policyUpdateR pol lim (plain.size - pos) (upd3 plain) c pos length
      else policyUpdateR pol lim (plain.size - pos) (upd1 plain) c pos length := rfl

theorem upd3_spec (plain : Array Nat) (I : Nat → Prop) (hsz : plain.size ≤ I32_MAX) (hp0 : Params)
    (c : Candidate) (p l : Nat) (hInv : CInv plain I c p ∧ c.hp = hp0) (hl : p + l ≤ plain.size) :
    ∃ c', upd3 plain c p l = .ok c' ∧ (CInv plain I c' (p + l) ∧ c'.hp = hp0) := by
  obtain ⟨hp, d, head3, l0, l1, mc⟩ := c
  obtain ⟨⟨hb, h3, hc⟩, hhp⟩ := hInv
  simp only at hb h3 hc hhp
  obtain ⟨d', e1, e2, e3⟩ := internalUpdate_spec hp plain I d p l hsz hl hb
  obtain ⟨h', f1, f2⟩ := internalUpdate3_spec plain head3 p l hl h3
  refine ⟨⟨hp, d', h', l0, l1, mc⟩, ?_, ⟨e2, f2, ?_⟩, hhp⟩
  · simp only [upd3, e1, f1, ok_bind]
  · intro hr
    simp only at hr ⊢
    exact e3 (by omega) (hc (by omega))

theorem upd1_spec (plain : Array Nat) (I : Nat → Prop) (hsz : plain.size ≤ I32_MAX) (hp0 : Params)
    (c : Candidate) (p l : Nat) (hInv : CInv plain I c p ∧ c.hp = hp0) (hl : p + l ≤ plain.size) :
    ∃ c', upd1 plain c p l = .ok c' ∧ (CInv plain I c' (p + l) ∧ c'.hp = hp0) := by
  obtain ⟨hp, d, head3, l0, l1, mc⟩ := c
  obtain ⟨⟨hb, h3, hc⟩, hhp⟩ := hInv
  simp only at hb h3 hc hhp
  obtain ⟨d', e1, e2, e3⟩ := internalUpdate_spec hp plain I d p l hsz hl hb
  refine ⟨⟨hp, d', head3, l0, l1, mc⟩, ?_, ⟨e2, fun x => Nat.le_trans (h3 x) (by omega), ?_⟩, hhp⟩
  · simp only [upd1, e1, ok_bind]
  · intro hr
    simp only at hr ⊢
    exact e3 (by omega) (hc (by omega))

theorem cinv_advance (plain : Array Nat) (I : Nat → Prop) (hp0 : Params) (c : Candidate) (p p' : Nat)
    (hInv : CInv plain I c p ∧ c.hp = hp0) (hpp : p ≤ p') (hno : ∀ q, p ≤ q → q < p' → ¬ I q) :
    CInv plain I c p' ∧ c.hp = hp0 := by
  obtain ⟨⟨hb, h3, hc⟩, hhp⟩ := hInv
  exact ⟨⟨hb.mono hpp, fun x => Nat.le_trans (h3 x) hpp, fun hr => (hc (by omega)).skip hpp hno⟩, hhp⟩

/-- `update_hash` of one candidate for the token at `p`: no panic, tables stay consistent -/
theorem updateHash_spec (plain : Array Nat) (I : Nat → Prop) (pol lim : Nat) (M : Nat → Nat)
    (hI : ∀ q, I q → PolIns pol lim (M q)) (hsz : plain.size ≤ I32_MAX)
    (c : Candidate) (p : Nat) (t : Token) (hInv : CInv plain I c p) (hfit : p + tokenLen t ≤ plain.size)
    (hM : ∀ i, i < tokenLen t → M (p + i) = tokMark p t i)
    (ht : ∀ len dist irr, t = .ref len dist irr → 3 ≤ len ∧ len ≤ 258 ∧ (pol = 3 → (p &&& 4095) < 4093)) :
    ∃ c', c.updateHash plain pol lim p (tokenLen t) = .ok c' ∧ CInv plain I c' (p + tokenLen t) ∧ c'.hp = c.hp := by
  rw [updateHash_eq]
  split
  · exact policyUpdateR_spec (fun c' q => CInv plain I c' q ∧ c'.hp = c.hp) I plain.size (upd3 plain)
      (fun s p l h _ hl => upd3_spec plain I hsz c.hp s p l h hl)
      (fun s p p' h hpp hno => cinv_advance plain I c.hp s p p' h hpp hno)
      pol lim M hI c p t ⟨hInv, rfl⟩ hfit hM ht
  · exact policyUpdateR_spec (fun c' q => CInv plain I c' q ∧ c'.hp = c.hp) I plain.size (upd1 plain)
      (fun s p l h _ hl => upd1_spec plain I hsz c.hp s p l h hl)
      (fun s p p' h hpp hno => cinv_advance plain I c.hp s p p' h hpp hno)
      pol lim M hI c p t ⟨hInv, rfl⟩ hfit hM ht

/-! ### `match_depth` of a candidate -/

theorem matchAt_bytes (plain : Array Nat) (pos len dist k : Nat) (h : matchAt plain pos len dist = true)
    (hk : k < len) : Chains.byteAt plain (pos - dist + k) = Chains.byteAt plain (pos + k) := by
  unfold matchAt at h
  rw [List.all_eq_true] at h
  have := h k (List.mem_range.mpr hk)
  simpa [Chains.byteAt] using this

theorem hash_of_match (hp : Params) (plain : Array Nat) (pos len dist : Nat)
    (h : matchAt plain pos len dist = true) (hl : Chains.numHashBytes hp ≤ len) :
    hashAtA hp plain (pos - dist) = hashAtA hp plain pos :=
  hashAtA_congr hp plain _ _ (fun k hk => matchAt_bytes plain pos len dist k h (by omega))

theorem numHashBytes_alg3 (hp : Params) (h : hp.hashAlg = 3) : Chains.numHashBytes hp = 4 := by
  unfold Chains.numHashBytes; rw [h]; rfl

theorem estimatorMatchDepth_ok (plain : Array Nat) (I : Nat → Prop) (c : Candidate) (pos len dist : Nat)
    (hInv : CInv plain I c pos) (hI : I (pos - dist))
    (hd1 : 1 ≤ dist) (hd2 : dist ≤ pos) (hd3 : dist ≤ 32768) (hl3 : 3 ≤ len) (hfit : pos + len ≤ plain.size)
    (hm : matchAt plain pos len dist = true)
    (halg : c.hp.hashAlg = 3 ∨ Chains.numHashBytes c.hp ≤ len) :
    ∃ m, c.estimatorMatchDepth plain pos len dist = .ok m := by
  unfold Candidate.estimatorMatchDepth
  by_cases h3 : c.hp.hashAlg = 3
  · rw [if_pos h3]
    simp only [getHash3, bind, Except.bind]
    rw [if_neg (show ¬ plain.size < pos + 3 by omega)]
    simp only []
    have := hInv.h3 (hash3AtA plain pos)
    rw [if_neg (show ¬ c.head3[hash3AtA plain pos]! > pos by omega)]
    split
    · exact ⟨_, rfl⟩
    · split
      · exact ⟨_, rfl⟩
      · have hn := numHashBytes_alg3 c.hp h3
        obtain ⟨m, hm'⟩ := matchDepth_ok c.hp plain I c.d pos dist (hInv.cons (by omega)) hI hd1 hd2 hd3
          (by omega) (hash_of_match c.hp plain pos len dist hm (by omega))
        rw [hm']
        exact ⟨_, rfl⟩
  · rw [if_neg h3]
    have hn : Chains.numHashBytes c.hp ≤ len := by
      rcases halg with h | h
      · exact absurd h h3
      · exact h
    exact matchDepth_ok c.hp plain I c.d pos dist (hInv.cons (by omega)) hI hd1 hd2 hd3
      (by omega) (hash_of_match c.hp plain pos len dist hm hn)

theorem cand_matchDepth_ok (plain : Array Nat) (I : Nat → Prop) (c : Candidate) (pos len dist : Nat)
    (hInv : CInv plain I c pos) (hI : I (pos - dist))
    (hd1 : 1 ≤ dist) (hd2 : dist ≤ pos) (hd3 : dist ≤ 32768) (hl3 : 3 ≤ len) (hfit : pos + len ≤ plain.size)
    (hm : matchAt plain pos len dist = true)
    (halg : c.hp.hashAlg = 3 ∨ Chains.numHashBytes c.hp ≤ len) :
    ∃ r, c.matchDepth plain pos len dist = .ok r ∧ ∀ c', r = some c' → CInv plain I c' pos ∧ c'.hp = c.hp := by
  obtain ⟨m, e⟩ := estimatorMatchDepth_ok plain I c pos len dist hInv hI hd1 hd2 hd3 hl3 hfit hm halg
  unfold Candidate.matchDepth
  simp only [e, ok_bind]
  split
  · split
    · refine ⟨_, rfl, fun c' hc' => ?_⟩
      injection hc' with hc'
      subst hc'
      exact ⟨⟨hInv.basic, hInv.h3, hInv.cons⟩, rfl⟩
    · refine ⟨_, rfl, fun c' hc' => ?_⟩
      injection hc' with hc'
      subst hc'
      exact ⟨⟨hInv.basic, hInv.h3, hInv.cons⟩, rfl⟩
  · exact ⟨none, rfl, fun c' hc' => by cases hc'⟩

/-! ### the candidate list -/

theorem updateCands_spec (f : Candidate → R Candidate) (P P' : Candidate → Prop)
    (hf : ∀ c, P c → ∃ c', f c = .ok c' ∧ P' c') :
    ∀ cs : List Candidate, (∀ c ∈ cs, P c) → ∃ cs', updateCands f cs = .ok cs' ∧ ∀ c' ∈ cs', P' c' := by
  intro cs
  induction cs with
  | nil => intro _; exact ⟨[], rfl, fun _ h => by cases h⟩
  | cons c cs ih =>
    intro h
    obtain ⟨c', e1, p1⟩ := hf c (h c (List.mem_cons_self ..))
    obtain ⟨cs', e2, p2⟩ := ih (fun x hx => h x (List.mem_cons_of_mem _ hx))
    refine ⟨c' :: cs', by simp only [updateCands, e1, e2, ok_bind], ?_⟩
    intro x hx
    rcases List.mem_cons.mp hx with rfl | hx
    · exact p1
    · exact p2 x hx

theorem retainCands_spec (f : Candidate → R (Option Candidate)) (P P' : Candidate → Prop)
    (hf : ∀ c, P c → ∃ r, f c = .ok r ∧ ∀ c', r = some c' → P' c') :
    ∀ cs : List Candidate, (∀ c ∈ cs, P c) → ∃ cs', retainCands f cs = .ok cs' ∧ ∀ c' ∈ cs', P' c' := by
  intro cs
  induction cs with
  | nil => intro _; exact ⟨[], rfl, fun _ h => by cases h⟩
  | cons c cs ih =>
    intro h
    obtain ⟨r, e1, p1⟩ := hf c (h c (List.mem_cons_self ..))
    obtain ⟨cs', e2, p2⟩ := ih (fun x hx => h x (List.mem_cons_of_mem _ hx))
    cases r with
    | none => exact ⟨cs', by simp only [retainCands, e1, e2, ok_bind], p2⟩
    | some c' =>
      refine ⟨c' :: cs', by simp only [retainCands, e1, e2, ok_bind], ?_⟩
      intro x hx
      rcases List.mem_cons.mp hx with rfl | hx
      · exact p1 _ rfl
      · exact p2 x hx

end Preflate.Proofs.EstTotal
