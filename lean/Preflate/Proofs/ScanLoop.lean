/- Helper lemmas for C06 (2): the scanner loop — totality and arrival at a signature. -/
import Preflate.Proofs.ScanBase
namespace Preflate.Proofs
open Preflate

theorem scanAt_ok {o : Oracle} (hnp : NoPanic o) (crc : Bytes → Nat) (src : Bytes) (i prev : Nat) (sg : Sig) :
    ∃ x, scanAt o crc src i prev sg = .ok x := by
  have hv : ∀ d, SNP (o.verified d) := fun d m => hnp d m
  cases sg with
  | zlib =>
    obtain ⟨y, hy⟩ := probe_ok (hv (src.drop (i + 2)))
    simp only [scanAt, hy, bind, Except.bind]
    split
    · split <;> exact ⟨_, rfl⟩
    · exact ⟨_, rfl⟩
  | gzip =>
    obtain ⟨y, hy⟩ := probe_ok (skipGzipHeader_NP (src.drop i))
    simp only [scanAt, hy, bind, Except.bind]
    split
    · rename_i h
      obtain ⟨z, hz⟩ := probe_ok (hv (src.drop (i + h)))
      simp only [hz]
      split
      · split <;> exact ⟨_, rfl⟩
      · exact ⟨_, rfl⟩
    · exact ⟨_, rfl⟩
  | zip =>
    obtain ⟨y, hy⟩ := probe_ok (parseZipStream_NP hnp (src.drop i))
    simp only [scanAt, hy, bind, Except.bind]
    split
    · split <;> exact ⟨_, rfl⟩
    · exact ⟨_, rfl⟩
  | idat =>
    simp only [scanAt]
    split
    · obtain ⟨y, hy⟩ := probe_ok (parseIdat_NP crc (src.drop (i - 4)))
      simp only [hy, bind, Except.bind]
      split
      · rename_i c payload
        obtain ⟨z, hz⟩ := probe_ok (hv payload)
        simp only [hz]
        split
        · split <;> exact ⟨_, rfl⟩
        · exact ⟨_, rfl⟩
      · exact ⟨_, rfl⟩
    · exact ⟨_, rfl⟩

theorem scanAt_next_gt {o : Oracle} {crc : Bytes → Nat} {src : Bytes} {i prev : Nat} {sg : Sig}
    {cs : List Chunk} {next : Nat} (h : scanAt o crc src i prev sg = .ok (some (cs, next))) : i < next := by
  cases sg with
  | zlib =>
    simp only [scanAt, bind, Except.bind] at h
    split at h
    · cases h
    · split at h
      · split at h
        · cases h; omega
        · cases h
      · cases h
  | gzip =>
    simp only [scanAt, bind, Except.bind] at h
    split at h
    · cases h
    · rename_i v hv
      split at h
      · rename_i hh
        have := skipGzipHeader_ge _ _ (probe_some hv)
        split at h
        · cases h
        · split at h
          · split at h
            · cases h; omega
            · cases h
          · cases h
      · cases h
  | zip =>
    simp only [scanAt, bind, Except.bind] at h
    split at h
    · cases h
    · rename_i v hv
      split at h
      · rename_i hh r
        have := parseZipStream_ge _ _ _ (probe_some hv)
        split at h
        · cases h; omega
        · cases h
      · cases h
  | idat =>
    simp only [scanAt, bind, Except.bind] at h
    split at h
    · split at h
      · cases h
      · split at h
        · split at h
          · cases h
          · split at h
            · split at h
              · rename_i hc
                have := hc.1
                simp only [Gen.MIN_BLOCKSIZE] at this
                cases h; omega
              · cases h
            · cases h
        · cases h
    · cases h

theorem nextSignature_some {src : Bytes} : ∀ {fuel i j sg}, nextSignature src fuel i = some (j, sg) →
    i ≤ j ∧ j + 1 < src.length ∧ sigOf (src.getD j 0) (src.getD (j+1) 0) = some sg ∧
    ∀ k, i ≤ k → k < j → sigOf (src.getD k 0) (src.getD (k+1) 0) = none := by
  intro fuel
  induction fuel with
  | zero => intro i j sg h; simp [nextSignature] at h
  | succ fuel ih =>
    intro i j sg h
    unfold nextSignature at h
    split at h
    · rename_i hlt
      split at h
      · rename_i s hs
        simp only [Option.some.injEq, Prod.mk.injEq] at h
        obtain ⟨rfl, rfl⟩ := h
        exact ⟨Nat.le_refl _, hlt, hs, fun k h1 h2 => by omega⟩
      · rename_i hs
        obtain ⟨h1, h2, h3, h4⟩ := ih h
        refine ⟨by omega, h2, h3, fun k hk1 hk2 => ?_⟩
        by_cases hk : k = i
        · subst hk; exact hs
        · exact h4 k (by omega) hk2
    · simp at h

theorem nextSignature_none {src : Bytes} : ∀ {fuel i}, nextSignature src fuel i = none →
    src.length ≤ fuel + i →
    ∀ k, i ≤ k → k + 1 < src.length → sigOf (src.getD k 0) (src.getD (k+1) 0) = none := by
  intro fuel
  induction fuel with
  | zero => intro i h hl k hk1 hk2; omega
  | succ fuel ih =>
    intro i h hl k hk1 hk2
    unfold nextSignature at h
    split at h
    · split at h
      · simp at h
      · rename_i hs
        by_cases hk : k = i
        · subst hk; exact hs
        · exact ih h (by omega) k (by omega) hk2
    · omega

/-- one loop iteration at a found signature -/
def stepAt (o : Oracle) (crc : Bytes → Nat) (src : Bytes) (fuel q prev : Nat) (sg : Sig) : R (List Chunk) := do
  match ← scanAt o crc src q prev sg with
  | some (chunks, next) => do
      let r ← scanLoop o crc src fuel next next
      .ok (chunks ++ r)
  | none => scanLoop o crc src fuel (q + 1) prev

theorem scanLoop_succ (o : Oracle) (crc : Bytes → Nat) (src : Bytes) (fuel index prev : Nat) :
    scanLoop o crc src (fuel + 1) index prev =
      match nextSignature src (src.length + 1) index with
      | none => .ok (if prev < src.length then [.literal (src.length - prev)] else [])
      | some (i, s) => stepAt o crc src fuel i prev s := by
  rfl

theorem stepAt_some {o crc src fuel q prev sg cs next} (h : scanAt o crc src q prev sg = .ok (some (cs, next))) :
    stepAt o crc src fuel q prev sg = (scanLoop o crc src fuel next next).map (cs ++ ·) := by
  simp only [stepAt, h, bind, Except.bind]
  cases scanLoop o crc src fuel next next <;> rfl

theorem stepAt_none {o crc src fuel q prev sg} (h : scanAt o crc src q prev sg = .ok none) :
    stepAt o crc src fuel q prev sg = scanLoop o crc src fuel (q+1) prev := by
  simp only [stepAt, h, bind, Except.bind]

theorem scanLoop_total {o : Oracle} (hnp : NoPanic o) (crc : Bytes → Nat) (src : Bytes) :
    ∀ fuel index prev, 0 < fuel → src.length + 1 ≤ fuel + index →
      ∃ cs, scanLoop o crc src fuel index prev = .ok cs := by
  intro fuel
  induction fuel with
  | zero => intro _ _ h; omega
  | succ fuel ih =>
    intro index prev _ hf
    rw [scanLoop_succ]
    split
    · exact ⟨_, rfl⟩
    · rename_i i s hs
      obtain ⟨h1, h2, _, _⟩ := nextSignature_some hs
      obtain ⟨x, hx⟩ := scanAt_ok hnp crc src i prev s
      cases x with
      | none =>
        rw [stepAt_none hx]
        exact ih _ _ (by omega) (by omega)
      | some p =>
        obtain ⟨cs, next⟩ := p
        have := scanAt_next_gt hx
        rw [stepAt_some hx]
        obtain ⟨r, hr⟩ := ih next next (by omega) (by omega)
        rw [hr]; exact ⟨_, rfl⟩

theorem arrive {o : Oracle} (hnp : NoPanic o) {crc : Bytes → Nat} {src : Bytes} {q bound : Nat} {sg : Sig}
    (hq : Quiet o crc src q bound) (hb : bound ≤ q) (hq1 : q + 1 < src.length)
    (hsig : sigOf (src.getD q 0) (src.getD (q + 1) 0) = some sg) :
    ∀ n index prev fuel, q - index = n → index ≤ q → prev ≤ bound → src.length + 1 ≤ fuel + index →
      ∃ before prev' fuel', prev' ≤ bound ∧ src.length + 1 ≤ fuel' + (q + 1) ∧
        ∀ res, stepAt o crc src fuel' q prev' sg = .ok res →
          scanLoop o crc src fuel index prev = .ok (before ++ res) := by
  intro n
  induction n using Nat.strongRecOn with
  | _ n ih =>
    intro index prev fuel hn hi hp hf
    obtain ⟨fuel, rfl⟩ : ∃ f, fuel = f + 1 := ⟨fuel - 1, by omega⟩
    rw [scanLoop_succ]
    cases hs : nextSignature src (src.length + 1) index with
    | none =>
      have := nextSignature_none hs (by omega) q hi hq1
      rw [this] at hsig; cases hsig
    | some p =>
      obtain ⟨i, s⟩ := p
      obtain ⟨h1, h2, h3, h4⟩ := nextSignature_some hs
      dsimp only
      by_cases hiq : i < q
      · obtain ⟨x, hx⟩ := scanAt_ok hnp crc src i prev s
        cases x with
        | none =>
          rw [stepAt_none hx]
          exact ih (q - (i + 1)) (by omega) (i + 1) prev fuel rfl (by omega) hp (by omega)
        | some p =>
          obtain ⟨cs, next⟩ := p
          have hgt := scanAt_next_gt hx
          have hle := hq i prev s cs next hiq hx
          rw [stepAt_some hx]
          obtain ⟨before, prev', fuel', hp', hf', hres⟩ :=
            ih (q - next) (by omega) next next fuel rfl (by omega) hle (by omega)
          refine ⟨cs ++ before, prev', fuel', hp', hf', fun res hr => ?_⟩
          rw [hres res hr]
          simp [Except.map]
      · have hiq' : i = q := by
          rcases Nat.lt_or_ge q i with hlt | hge
          · have := h4 q hi hlt
            rw [this] at hsig; cases hsig
          · omega
        subst hiq'
        rw [h3] at hsig; cases hsig
        exact ⟨[], prev, fuel, hp, by omega, fun res hr => by rw [hr]; rfl⟩

/-- the shape shared by the four theorems: quiet up to the signature at `q`, and a stream is
    accepted at `q` from every admissible `prev` -/
theorem found_at {o : Oracle} (hnp : NoPanic o) {crc : Bytes → Nat} {src : Bytes} {q bound : Nat} {sg : Sig}
    (hq : Quiet o crc src q bound) (hb : bound ≤ q) (hq1 : q + 1 < src.length)
    (hsig : sigOf (src.getD q 0) (src.getD (q + 1) 0) = some sg) (mk : Nat → List Chunk)
    (hacc : ∀ prev, prev ≤ bound → ∃ next, scanAt o crc src q prev sg = .ok (some (mk prev, next))) :
    ∃ before prev after, prev ≤ bound ∧ scan o crc src = .ok (before ++ mk prev ++ after) := by
  obtain ⟨before, prev, fuel, hp, hf, hres⟩ :=
    arrive hnp hq hb hq1 hsig q 0 0 (src.length + 1) rfl (Nat.zero_le _) (Nat.zero_le _) (by omega)
  obtain ⟨next, hn⟩ := hacc prev hp
  have hgt := scanAt_next_gt hn
  obtain ⟨after, ha⟩ := scanLoop_total hnp crc src fuel next next (by omega) (by omega)
  refine ⟨before, prev, after, hp, ?_⟩
  unfold scan
  rw [hres (mk prev ++ after) (by rw [stepAt_some hn, ha]; rfl)]
  simp

end Preflate.Proofs
