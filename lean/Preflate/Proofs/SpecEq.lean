/- C03: the model parser over the generated tables equals the RFC-table transcription. -/
import Preflate.Model.Spec
import Preflate.Proofs.Tables
namespace Preflate.Proofs
open Preflate

theorem spec_order_eq : Spec.codeLengthOrder = Gen.TREE_CODE_ORDER_TABLE := by decide

theorem spec_fixedLit_eq : Spec.fixedLitLengths = fixedLitLengths := by decide +kernel
theorem spec_fixedDist_eq : Spec.fixedDistLengths = fixedDistLengths := rfl

theorem spec_length_eq (c : Nat) (hc : c < 29) :
    lengthBase c = Spec.lengthBase c ∧ lengthExtra c = Spec.lengthExtra c := by
  have := all_range (n := 29)
    (p := fun c => lengthBase c == Spec.lengthBase c && lengthExtra c == Spec.lengthExtra c)
    (by decide +kernel) c hc
  simpa using this

theorem spec_dist_eq (c : Nat) (hc : c < 30) :
    distBase c = Spec.distBase c ∧ distExtra c = Spec.distExtra c := by
  have := all_range (n := 30)
    (p := fun c => distBase c == Spec.distBase c && distExtra c == Spec.distExtra c)
    (by decide +kernel) c hc
  simpa using this

/-- the implementation limit transcribed into the RFC side is the model's -/
theorem spec_plainLimit_eq : Spec.implPlainLimit = PLAIN_LIMIT := rfl

theorem spec_readCodeLengths_eq : ∀ (n i : Nat) (acc : List Nat) (bs : Bits),
    Spec.readCodeLengths n i acc bs = readCodeLengths n i acc bs := by
  intro n
  induction n with
  | zero => intros; rfl
  | succ n ih =>
    intro i acc bs
    simp only [Spec.readCodeLengths, readCodeLengths, spec_order_eq, ih]

theorem spec_readHeader_eq (bs : Bits) : Spec.readHeader bs = readHeader bs := by
  simp only [Spec.readHeader, readHeader, spec_readCodeLengths_eq]

theorem spec_decodeTokens_eq (lt dt : List (Bits × Nat)) : ∀ (fuel : Nat) (plain : Array Nat) (bs : Bits),
    Spec.decodeTokens lt dt fuel plain bs = decodeTokens lt dt fuel plain bs := by
  intro fuel
  induction fuel with
  | zero => intros; rfl
  | succ fuel ih =>
    intro plain bs
    rw [Spec.decodeTokens, decodeTokens, spec_plainLimit_eq]
    split
    · rfl
    cases h1 : decodeSym lt bs with
    | error e => simp only [bind, Except.bind]
    | ok p1 =>
      obtain ⟨sym, bs1⟩ := p1
      simp only [bind, Except.bind]
      split
      · rw [ih]
      · split
        · rfl
        · have e1 : Gen.NONLEN_CODE_COUNT = 257 := rfl
          have e2 : Gen.LEN_CODE_COUNT = 29 := rfl
          have e3 : Gen.MIN_MATCH = 3 := rfl
          have e4 : Gen.DIST_CODE_COUNT = 30 := rfl
          simp only [e1, e2, e3, e4]
          by_cases hl : sym - 257 ≥ 29
          · simp only [hl, if_true]; rfl
          · simp only [hl, if_false]
            obtain ⟨hb, he⟩ := spec_length_eq (sym - 257) (by omega)
            rw [hb, he]
            cases h2 : readBits (Spec.lengthExtra (sym - 257)) bs1 with
            | error e => simp only []
            | ok p2 =>
              obtain ⟨ex, bs2⟩ := p2
              simp only []
              cases h3 : decodeSym dt bs2 with
              | error e => simp only []
              | ok p3 =>
                obtain ⟨dcode, bs3⟩ := p3
                simp only []
                by_cases hd : dcode ≥ 30
                · simp only [hd, if_true]; rfl
                · simp only [hd, if_false]
                  obtain ⟨hb', he'⟩ := spec_dist_eq dcode (by omega)
                  rw [hb', he']
                  simp only [ih]

theorem spec_readBlock_eq (plain : Array Nat) (bs : Bits) : Spec.readBlock plain bs = readBlock plain bs := by
  simp only [Spec.readBlock, readBlock, spec_readHeader_eq, spec_decodeTokens_eq, spec_fixedLit_eq,
    spec_fixedDist_eq, spec_plainLimit_eq]
  rfl

theorem spec_readBlocks_eq : ∀ (fuel : Nat) (plain : Array Nat) (bs : Bits),
    Spec.readBlocks fuel plain bs = readBlocks fuel plain bs := by
  intro fuel
  induction fuel with
  | zero => intros; rfl
  | succ fuel ih =>
    intro plain bs
    simp only [Spec.readBlocks, readBlocks, spec_readBlock_eq, ih]

theorem parseBits_eq_spec' (bs : Bits) : parseBits bs = Spec.parseBits bs := by
  simp only [Spec.parseBits, parseBits, spec_readBlocks_eq]

end Preflate.Proofs
