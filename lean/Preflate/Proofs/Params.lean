/- Helper lemmas for C08: parameter header round trip. -/
import Preflate.Model.Params
namespace Preflate.Proofs
open Preflate

@[simp] theorem popValue_value (b v : Nat) (r : List Op) :
    popValue b (Op.value b v :: r) = .ok (v, r) := by
  simp [popValue]

theorem tryU16_ok {x : Nat} (s : String) (h : x < 65536) : tryU16 x s = .ok x := by
  simp [tryU16, h]

@[simp] theorem b2n_ne_zero (b : Bool) : decide (b2n b ≠ 0) = b := by
  cases b <;> simp [b2n]

@[simp] theorem b2n_eq_zero (b : Bool) : (b2n b = 0) ↔ b = false := by
  cases b <;> simp [b2n]

theorem b2n_lt_two (b : Bool) : b2n b < 2 := by
  cases b <;> simp [b2n]

/-- the explicit op list `writeParams` produces on well-formed parameters -/
def hdrOps (p : Params) : List Op :=
  [Op.value 8 Gen.FILE_VERSION, Op.value 4 p.strategy, Op.value 4 p.huffStrategy,
   Op.value 1 (b2n p.zlibCompatible), Op.value 8 p.windowBits] ++
  (if p.hashAlg = 1 then [Op.value 4 1, Op.value 8 p.hashShift, Op.value 16 p.hashMask]
   else [Op.value 4 p.hashAlg]) ++
  [Op.value 16 p.maxTokenCount, Op.value 16 p.maxDist3, Op.value 1 (b2n p.veryFar),
   Op.value 1 (b2n p.matchesToStart), Op.value 16 (if p.isLazy then p.goodLength else 0),
   Op.value 16 (if p.isLazy then p.maxLazy else 0), Op.value 16 p.niceLength,
   Op.value 16 p.maxChain, Op.value 16 p.minLen] ++
  (if p.addPolicy = 1 ∨ p.addPolicy = 2 then [Op.value 3 p.addPolicy, Op.value 8 p.addLimit]
   else [Op.value 3 p.addPolicy])

theorem writeParams_eq (p : Params) (h : p.WF) : writeParams p = .ok (hdrOps p) := by
  obtain ⟨h1, h2, h3, h4, h5, h6, h7, h8, h9, h10, h11, h12, h13, h14, h15⟩ := h
  unfold writeParams hdrOps
  rw [tryU16_ok _ (Nat.lt_trans h3 (by decide)), tryU16_ok _ h11, tryU16_ok _ h12, tryU16_ok _ h13]
  by_cases ha : p.hashAlg = 1
  · simp only [ha, if_true] at h5 ⊢
    rw [tryU16_ok _ (Nat.lt_trans h5 (by decide))]
    cases p.isLazy <;> rfl
  · simp only [ha, if_false]
    cases p.isLazy <;> rfl

theorem readParams_hdrOps (p : Params) (h : p.WF) (rest : List Op) :
    readParams (hdrOps p ++ rest) = .ok (p, rest) := by
  obtain ⟨strategy, huff, zc, wb, alg, shift, mask, mtc, md3, vf, mts, isLazy, good, mlazy, nice,
    chain, minLen, pol, limit⟩ := p
  obtain ⟨h1, h2, h3, h4, h5, h6, h7, h8, h9, h10, h11, h12, h13, h14, h15⟩ := h
  simp only at h1 h2 h3 h4 h5 h6 h7 h8 h9 h10 h11 h12 h13 h14 h15
  by_cases ha : alg = 1
  · simp only [ha, if_true] at h5 h6
    subst ha
    cases isLazy
    · obtain ⟨rfl, rfl⟩ := h10 rfl
      by_cases hp : pol = 1 ∨ pol = 2
      · simp [readParams, hdrOps, bind, Except.bind, pure, Except.pure, Nat.not_lt.mpr h1, Nat.not_lt.mpr h2, *]
      · simp only [hp, if_false] at h15
        subst h15
        have hp' : pol = 0 ∨ pol = 3 ∨ pol = 4 := by omega
        simp [readParams, hdrOps, bind, Except.bind, pure, Except.pure, Nat.not_lt.mpr h1, Nat.not_lt.mpr h2, *]
    · obtain ⟨hl1, hl2, hl3⟩ := h9 rfl
      by_cases hp : pol = 1 ∨ pol = 2
      · simp [readParams, hdrOps, bind, Except.bind, pure, Except.pure, Nat.not_lt.mpr h1, Nat.not_lt.mpr h2, *]
      · simp only [hp, if_false] at h15
        subst h15
        have hp' : pol = 0 ∨ pol = 3 ∨ pol = 4 := by omega
        simp [readParams, hdrOps, bind, Except.bind, pure, Except.pure, Nat.not_lt.mpr h1, Nat.not_lt.mpr h2, *]
  · simp only [ha, if_false] at h5 h6
    subst h5 h6
    cases isLazy
    · obtain ⟨rfl, rfl⟩ := h10 rfl
      by_cases hp : pol = 1 ∨ pol = 2
      · simp [readParams, hdrOps, bind, Except.bind, pure, Except.pure, Nat.not_lt.mpr h1, Nat.not_lt.mpr h2, *]
      · simp only [hp, if_false] at h15
        subst h15
        have hp' : pol = 0 ∨ pol = 3 ∨ pol = 4 := by omega
        simp [readParams, hdrOps, bind, Except.bind, pure, Except.pure, Nat.not_lt.mpr h1, Nat.not_lt.mpr h2, *]
    · obtain ⟨hl1, hl2, hl3⟩ := h9 rfl
      by_cases hp : pol = 1 ∨ pol = 2
      · simp [readParams, hdrOps, bind, Except.bind, pure, Except.pure, Nat.not_lt.mpr h1, Nat.not_lt.mpr h2, *]
      · simp only [hp, if_false] at h15
        subst h15
        have hp' : pol = 0 ∨ pol = 3 ∨ pol = 4 := by omega
        simp [readParams, hdrOps, bind, Except.bind, pure, Except.pure, Nat.not_lt.mpr h1, Nat.not_lt.mpr h2, *]

theorem hdrOps_wf (p : Params) (h : p.WF) : ∀ o ∈ hdrOps p, o.WF := by
  obtain ⟨h1, h2, h3, h4, h5, h6, h7, h8, h9, h10, h11, h12, h13, h14, h15⟩ := h
  have hz := b2n_lt_two p.zlibCompatible
  have hvf := b2n_lt_two p.veryFar
  have hmts := b2n_lt_two p.matchesToStart
  have hver : Gen.FILE_VERSION < 256 := by decide
  have hg : (if p.isLazy then p.goodLength else 0) < 65536 := by
    split
    · rename_i hl; exact (h9 hl).2.2
    · decide
  have hm : (if p.isLazy then p.maxLazy else 0) < 65536 := by
    split
    · rename_i hl; exact (h9 hl).2.1
    · decide
  unfold hdrOps
  split at h5 <;> split at h15 <;> rename_i ha hp <;>
    simp only [ha, hp, if_true, if_false] at h6 ⊢ <;>
    simp [Op.WF] <;> omega

theorem readParams_writeParams (p : Params) (h : p.WF) (rest : List Op) :
    ∃ ops, writeParams p = .ok ops ∧ readParams (ops ++ rest) = .ok (p, rest) ∧ ∀ o ∈ ops, o.WF :=
  ⟨hdrOps p, writeParams_eq p h, readParams_hdrOps p h rest, hdrOps_wf p h⟩

theorem estimatorRange_wf (p : Params) (h : EstimatorRange p) : p.WF := by
  obtain ⟨strategy, huff, zc, wb, alg, shift, mask, mtc, md3, vf, mts, isLazy, good, mlazy, nice,
    chain, minLen, pol, limit⟩ := p
  rcases h with ⟨heq, hs, hh⟩ | ⟨h1, h2, h3, h4, h5, h6, h7, h8, h9, h10, h11, h12, h13, h14, h15,
    h16, h17⟩
  · simp only [Params.mk.injEq, true_and] at heq
    obtain ⟨rfl, rfl, rfl, rfl, rfl, rfl, rfl, rfl, rfl, rfl, rfl, rfl, rfl, rfl, rfl, rfl, rfl⟩ := heq
    simp only at hs hh
    constructor <;> simp <;> omega
  · simp only at h1 h2 h3 h4 h5 h6 h7 h8 h9 h10 h11 h12 h13 h14 h15 h16 h17
    by_cases ha : alg = 1 <;> by_cases hp : (pol = 1 ∨ pol = 2) <;>
      simp only [ha, hp, if_true, if_false] at h7 h17 <;>
      cases isLazy <;> simp only [if_true, if_false, Bool.false_eq_true] at h10 <;>
      constructor <;> simp only [ha, hp, if_true, if_false] <;>
      first
        | omega
        | (intro _; omega)
        | (intro hc; cases hc)

end Preflate.Proofs
