/- Helper lemmas for C08: parameter header round trip. -/
import Preflate.Model.Params
namespace Preflate.Proofs
open Preflate

theorem readParams_writeParams (p : Params) (h : p.WF) (rest : List Op) :
    ∃ ops, writeParams p = .ok ops ∧ readParams (ops ++ rest) = .ok (p, rest) ∧ ∀ o ∈ ops, o.WF := by
  sorry

theorem estimatorRange_wf (p : Params) (h : EstimatorRange p) : p.WF := by
  sorry

end Preflate.Proofs
