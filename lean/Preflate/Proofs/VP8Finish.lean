/-
VP8 bool coder: `Writer.finish`. The 32 padding decisions shift the exact low end by at least 31 bits
and leave nothing pending in `low`, so the flushed bytes ARE the exact low end (`finish_final`).
-/
import Preflate.Proofs.VP8Writer
namespace Preflate.Proofs
open Preflate Preflate.VP8
set_option linter.unusedVariables false

theorem prob_0x101 : probability 0x101 = 128 := by decide

/-- one padding step of `finish` -/
def padStep (w : Writer) : Writer := (w.put false 0x101).1

theorem padStep_eq (w : Writer) :
    padStep w = w.putSplit false (1 + (((w.range - 1) * 128) >>> 8)) := by
  simp only [padStep, Writer.put, prob_0x101]

def iter {α : Type} (f : α → α) : Nat → α → α
  | 0, a => a
  | n + 1, a => iter f n (f a)

theorem foldl_const {α β : Type} (f : α → α) (l : List β) (a : α) :
    l.foldl (fun w _ => f w) a = iter f l.length a := by
  induction l generalizing a with
  | nil => rfl
  | cons x l ih => simp only [List.foldl_cons, List.length_cons, iter]; exact ih _

/-- invariant of the padding loop, relative to the writer `w0` it started from: `D` bits shifted,
    the exact low end only shifted, `low` divisible by `2^D`, and no pending carry once a byte has
    been emitted -/
structure FInv (w0 w : Writer) (D : Nat) : Prop where
  inv : WInv w
  hV : WV w = WV w0 * 2 ^ D
  hT : WT w = WT w0 + D
  hdvd : 2 ^ D ∣ w.low
  hlow : w.low < 2 ^ (Wk w + 8) ∨ Wk w = Wk w0 + D

theorem padStep_spec (w0 w : Writer) (D : Nat) (h : FInv w0 w D) :
    ∃ sh, FInv w0 (padStep w) (D + sh) ∧ (padStep w).range ≤ 254 ∧ (w.range ≤ 254 → 1 ≤ sh) := by
  have hw := h.inv
  have hlo := hw.r_lo
  have hhi := hw.r_hi
  have hsb := split_bounds w.range 128 (by omega) (by norm_num)
  obtain ⟨i1, i2, i3, i4, i5⟩ := putSplit_spec w false _ hw hsb.1 hsb.2
  rw [← padStep_eq] at i1 i2 i3 i4 i5
  simp only [Bool.false_eq_true, if_false] at i2 i3 i4 i5
  have hs64 : 64 ≤ 1 + (((w.range - 1) * 128) >>> 8) ∧ 1 + (((w.range - 1) * 128) >>> 8) ≤ 128 := by
    rw [Nat.shiftRight_eq_div_pow]; omega
  have hs127 : w.range ≤ 254 → 1 + (((w.range - 1) * 128) >>> 8) ≤ 127 := by
    intro h; rw [Nat.shiftRight_eq_div_pow]; omega
  generalize 1 + (((w.range - 1) * 128) >>> 8) = s at *
  obtain ⟨l1, l2, l3⟩ := lz8_spec s (by omega) (by omega)
  generalize lz8 s = sh at *
  have hWT : WT w = 8 * w.buffer.size + Wk w := rfl
  have hWV : WV w = aval w.buffer * 2 ^ (Wk w + 8) + w.low := rfl
  refine ⟨sh, ⟨i1, ?_, ?_, ?_, ?_⟩, ?_, ?_⟩
  · rw [i4, ← hWV, h.hV, pow_add, Nat.mul_assoc]
  · rw [i3, ← hWT, h.hT]; omega
  · rcases i5 with ⟨_, e, _⟩ | ⟨_, _, e, e2, e3⟩
    · rw [e, pow_add]; exact Nat.mul_dvd_mul h.hdvd (dvd_refl _)
    · rw [e]
      have hk := hw.k_lt
      have hsh : sh = (24 - Wk w) + (Wk w + sh - 24) := by omega
      rw [show D + sh = (D + (24 - Wk w)) + (Wk w + sh - 24) by omega, pow_add]
      refine Nat.mul_dvd_mul ?_ (dvd_refl _)
      have hM : 2 ^ (D + (24 - Wk w)) ∣ w.low * 2 ^ (24 - Wk w) := by
        rw [pow_add]; exact Nat.mul_dvd_mul h.hdvd (dvd_refl _)
      by_cases hD : D + (24 - Wk w) ≤ 24
      · have : (2:Nat) ^ (D + (24 - Wk w)) ∣ 2 ^ 24 := Nat.pow_dvd_pow 2 hD
        exact (Nat.dvd_mod_iff this).2 hM
      · have : (2:Nat) ^ 24 ∣ w.low * 2 ^ (24 - Wk w) :=
          Nat.dvd_trans (Nat.pow_dvd_pow 2 (by omega)) hM
        rw [Nat.mod_eq_zero_of_dvd this]; exact dvd_zero _
  · rcases i5 with ⟨_, e, e2⟩ | ⟨_, e1, _, _, _⟩
    · rcases h.hlow with hl | hl
      · left; rw [e, e2, show Wk w + sh + 8 = (Wk w + 8) + sh by omega, pow_add]
        exact Nat.mul_lt_mul_of_pos_right hl (Nat.pow_pos (by norm_num))
      · right; rw [e2, hl]; omega
    · left; exact e1
  · rw [i2]
    rcases Nat.eq_zero_or_pos sh with h0 | h0
    · subst h0; simp at l2 ⊢; omega
    · have : (2:Nat) ^ sh = 2 * 2 ^ (sh - 1) := by rw [← pow_succ']; congr 1; omega
      rw [this, show s * (2 * 2 ^ (sh - 1)) = 2 * (s * 2 ^ (sh - 1)) by ring] at l3 ⊢; omega
  · intro hr
    have := hs127 hr
    rcases Nat.eq_zero_or_pos sh with h0 | h0
    · subst h0; simp at l2; omega
    · exact h0

theorem iter_padStep (w0 : Writer) (n : Nat) : ∀ (w : Writer) (D j : Nat), FInv w0 w D → j ≤ D + 1 →
    (1 ≤ j → w.range ≤ 254) → ∃ D', FInv w0 (iter padStep n w) D' ∧ j + n ≤ D' + 1 := by
  induction n with
  | zero => intro w D j h hj _; exact ⟨D, h, by omega⟩
  | succ n ih =>
    intro w D j h hj hr
    obtain ⟨sh, h1, h2, h3⟩ := padStep_spec w0 w D h
    have : j + 1 ≤ D + sh + 1 := by
      rcases Nat.eq_zero_or_pos j with h0 | h0
      · omega
      · have := h3 (hr h0); omega
    obtain ⟨D', g1, g2⟩ := ih (padStep w) (D + sh) (j + 1) h1 this (fun _ => h2)
    exact ⟨D', g1, by omega⟩

theorem FInv.refl (w : Writer) (hw : WInv w) : FInv w w 0 :=
  ⟨hw, by simp, by simp, by simp, Or.inr (by simp)⟩

/-- the flushed bytes lie in the interval of the writer `finish` was called on -/
theorem finish_final (w : Writer) (hw : WInv w) : Final w w.finish := by
  obtain ⟨D, hF, hD⟩ := iter_padStep w 32 w 0 0 (FInv.refl w hw) (by omega) (by omega)
  have hfold : (List.range 32).foldl (fun w _ => (w.put false 0x101).1) w = iter padStep 32 w := by
    have := foldl_const padStep (List.range 32) w
    simpa [padStep] using this
  unfold Writer.finish
  simp only [hfold]
  generalize iter padStep 32 w = wf at *
  have hk := hF.inv.k_lt
  have hk0 := hw.k_lt
  have hlow0 : wf.low = 0 := by
    have hl : wf.low < 2 ^ (Wk wf + 8) := by
      rcases hF.hlow with h | h
      · exact h
      · omega
    have hd : 2 ^ (Wk wf + 8) ∣ wf.low := Nat.dvd_trans (Nat.pow_dvd_pow 2 (by omega)) hF.hdvd
    exact Nat.eq_zero_of_dvd_of_lt hd hl
  have hV := hF.hV
  have hT := hF.hT
  simp only [WV, hlow0, Nat.add_zero] at hV
  have hWT : WT wf = 8 * wf.buffer.size + Wk wf := rfl
  have hWV : WV w = aval w.buffer * 2 ^ (Wk w + 8) + w.low := rfl
  rw [← hWV] at hV
  have hrpos : 0 < w.range := by have := hw.r_lo; omega
  have hupper : WV w * 2 ^ D < (WV w + w.range) * 2 ^ D :=
    Nat.mul_lt_mul_of_pos_right (by omega) (Nat.pow_pos (by norm_num))
  split
  · refine ⟨D, Wk wf, by omega, ?_, ?_, ?_⟩
    · simp; omega
    · rw [aval_push, ← hV, pow_add]; simp; exact Nat.le_of_eq (by ring)
    · rw [aval_push]; simp
      rw [show aval wf.buffer * 256 * 2 ^ Wk wf = aval wf.buffer * 2 ^ (Wk wf + 8) by rw [pow_add]; ring, hV]
      exact hupper
  · refine ⟨D, Wk wf + 8, by omega, by omega, ?_, ?_⟩
    · rw [hV]
    · rw [hV]; exact hupper

end Preflate.Proofs
