/-
Reconstruction side: on the corrections that the analysis of a valid stream produced, `recreate_block`
reaches none of the panic sites of the match finder / hash chains (`Model/ChainsSafeDec.lean`).
The decoder replays the encoder's tokens through the same predictor states (`decTok_encTok'`,
`decToks_encToks`, `decBlock_encBlock`, `decTail_encBlocks`); the invariant `RunInv` of
`Proofs/ChainsSafe.lean` is carried along the replay.
-/
import Preflate.Model.ChainsSafeDec
import Preflate.Proofs.ChainsSafe
import Preflate.Proofs.Predict
namespace Preflate.Proofs
open Preflate Preflate.Chains

/-- the tail of one reference token: the corrections `encRefTail` wrote make `decRefTailChk` pass —
    `hop_match` is called with the ORIGINAL length (≥ 3) -/
theorem decRefTailChk_ok (p : Params) (plain : Array Nat) (ops0 : List Op) (plen pdist : Nat)
    (s2 : PState Chain) (len dist : Nat) (irr : Bool) (hm : matchAt plain s2.pos len dist = true)
    (ops : List Op) (s' : PState Chain)
    (he : encRefTail (pred p) plain ops0 plen pdist s2 len dist irr = .ok (ops, s')) (rest : List Op)
    (h3 : 3 ≤ len)
    (hhop : (∃ h, calcHops (pred p) plain s2 len dist = .ok h) → ∀ hops, hopMatchChk p plain s2 len hops = .ok ())
    (hcommit : commitChk p plain s2 len = .ok ()) :
    ∃ ops', ops = ops0 ++ ops' ∧ decRefTailChk p plain plen (ops' ++ rest) s2 = .ok () := by
  unfold encRefTail at he
  unfold decRefTailChk
  by_cases h1 : plen ≠ len
  · rw [if_pos h1] at he
    simp only [bind_eq_ok] at he
    obtain ⟨h, hh, ops2, hops2, he⟩ := he
    obtain ⟨hne, hhm⟩ := hops_inv' (pred p) plain s2 len dist h hm hh
    simp [pure, Except.pure] at hops2 he
    obtain ⟨rfl, rfl⟩ := he
    subst hops2
    have h1' : len ≠ plen := fun h => h1 h.symm
    refine ⟨[Op.corr C_LEN (encDiff plen len)] ++ [Op.corr C_DIST_AFTER_LEN h] ++
      (if len = 258 then [Op.mis M_IRREGULAR258 irr] else []), by simp, ?_⟩
    simp only [List.cons_append, List.nil_append, popCorr_cons, decDiff_encDiff]
    rw [if_pos h1', hhop ⟨h, hh⟩ h, hhm]
    simp only [R_ok_bind]
    rw [need_bind h3]
    exact hcommit
  · have h1' : plen = len := by simpa using h1
    subst h1'
    by_cases h2 : dist ≠ pdist
    · rw [if_neg h1, if_pos h2] at he
      simp only [bind_eq_ok] at he
      obtain ⟨h, hh, ops2, hops2, he⟩ := he
      obtain ⟨hne, hhm⟩ := hops_inv' (pred p) plain s2 plen dist h hm hh
      simp [pure, Except.pure] at hops2 he
      obtain ⟨rfl, rfl⟩ := he
      subst hops2
      refine ⟨[Op.corr C_LEN (encDiff plen plen)] ++ [Op.corr C_DIST_ONLY h] ++
        (if plen = 258 then [Op.mis M_IRREGULAR258 irr] else []), by simp, ?_⟩
      simp only [List.cons_append, List.nil_append, popCorr_cons, decDiff_encDiff]
      rw [if_neg (by simp), if_pos hne, hhop ⟨h, hh⟩ h, hhm]
      simp only [R_ok_bind]
      rw [need_bind h3]
      exact hcommit
    · have h2' : dist = pdist := by simpa using h2
      subst h2'
      rw [if_neg h1, if_neg h2] at he
      simp [pure, Except.pure, bind, Except.bind] at he
      obtain ⟨rfl, rfl⟩ := he
      refine ⟨[Op.corr C_LEN (encDiff plen plen)] ++ [Op.corr C_DIST_ONLY 0] ++
        (if plen = 258 then [Op.mis M_IRREGULAR258 irr] else []), by simp, ?_⟩
      simp only [List.cons_append, List.nil_append, popCorr_cons, decDiff_encDiff]
      rw [if_neg (by simp), if_neg (by simp)]
      exact hcommit

/-- one iteration of the token loop of `recreate_block` on the corrections `predict_block` wrote for
    a valid token at the same state -/
theorem decTokChk_ok (p : Params) (plain : Array Nat) (s : PState Chain) (t : Token)
    (hps : ParamsSafe p) (hlz : LazyDepthOK p) (hsz : plain.size < 2147483648)
    (hv : ValidTok plain s.pos t) (hinv : RunInv p plain s)
    (h4k : p.addPolicy = 3 → tokenLen t > 1 → (s.pos &&& 4095) < 4093)
    (ops : List Op) (s' : PState Chain) (he : encTok (pred p) plain s t = .ok (ops, s')) (rest : List Op) :
    decTokChk p plain s (ops ++ rest) = .ok () := by
  obtain ⟨hl1, hl2, hend⟩ := validTok_len plain s.pos t hv
  obtain ⟨hit, hcs, _⟩ := step_facts p s.h.totalShift s.pos (tokenLen t) hinv.chain ⟨hl1, hl2⟩ h4k
  obtain ⟨hpf1, hpf2⟩ := predictTok_facts p plain s hinv.pend
  have hcc : curCharChk plain s.pos = .ok () := need_ok (by omega)
  unfold encTok at he
  unfold decTokChk
  rw [predictTokChk_ok p plain s hps hlz hsz (by omega) hit hinv.tabs hinv.pend]
  simp only [R_ok_bind]
  rcases hp : predictTok p plain s with ⟨pt, pend⟩
  have hp' : (pred p).predictTok plain s = (pt, pend) := hp
  rw [hp'] at he
  rw [hp] at hpf1 hpf2
  simp only at hpf1 hpf2 he ⊢
  have hcommit : ∀ pd : Option (Nat × Nat),
      commitChk p plain { s with pending := pd } (tokenLen t) = .ok () := fun pd =>
    commitChk_ok p plain { s with pending := pd } (tokenLen t) hps.shift hsz ⟨hl1, hl2⟩ hend hcs
  cases t with
  | lit b =>
    simp only [tokenLen] at hcommit
    cases pt with
    | lit =>
      simp at he
      obtain ⟨rfl, rfl⟩ := he
      simp only [List.cons_append, List.nil_append, popMis_cons]
      exact hcommit pend
    | ref l d =>
      simp at he
      obtain ⟨rfl, rfl⟩ := he
      simp only [List.cons_append, List.nil_append, popMis_cons, if_true, hcc, R_ok_bind]
      exact hcommit pend
  | ref len dist irr =>
    obtain ⟨h3, h258, hd1, hdp, hd32, hsz', hm, hirr⟩ := hv
    simp only [tokenLen] at hcommit
    have hhops : ∀ pd : Option (Nat × Nat), p.hashAlg ≠ 0 → numHashBytes p ≤ plain.size - s.pos →
        ∀ hops, hopMatchChk p plain { s with pending := pd } len hops = .ok () := fun pd h0 hn hops =>
      hopMatchChk_ok p plain { s with pending := pd } len hops hps h0 hsz hn h3 (hit h0)
        hinv.tabs.1 hinv.tabs.2
    simp only [bind_eq_ok] at he
    obtain ⟨⟨ops0, plen, pdist, s2⟩, ha, hb⟩ := he
    cases pt with
    | lit =>
      simp only [bind_eq_ok] at ha
      obtain ⟨⟨l, d⟩, hr, ha⟩ := ha
      simp [pure, Except.pure] at ha
      obtain ⟨rfl, rfl, rfl, rfl⟩ := ha
      have hr' : repredictTok p plain { s with pending := pend } = .ok (l, d) := hr
      have hf := repredictTok_facts hr'
      obtain ⟨ops', rfl, hdec⟩ := decRefTailChk_ok p plain [Op.mis M_LITERAL_WRONG true] l d
        ⟨s.h, none, s.pos, s.count⟩ len dist irr hm ops s' hb rest h3
        (fun _ => hhops none hf.1 hf.2) (hcommit none)
      simp only [List.cons_append, List.nil_append, popMis_cons, Bool.not_true, Bool.false_eq_true, if_false]
      rw [repredictTokChk_ok p plain { s with pending := pend } hps hsz (by simp only []; omega) hit hinv.tabs]
      simp only [R_ok_bind, hr']
      exact hdec
    | ref l d =>
      simp [pure, Except.pure] at ha
      obtain ⟨rfl, rfl, rfl, rfl⟩ := ha
      have hf := hpf2 l d rfl
      obtain ⟨ops', rfl, hdec⟩ := decRefTailChk_ok p plain [Op.mis M_REFERENCE_WRONG false] l d
        ⟨s.h, pend, s.pos, s.count⟩ len dist irr hm ops s' hb rest h3
        (fun _ => hhops pend hf.1 hf.2.1) (hcommit pend)
      simp only [List.cons_append, List.nil_append, popMis_cons, Bool.false_eq_true, if_false]
      exact hdec

/-- the token loop of `recreate_block` replaying the corrections of `encToks` -/
theorem decToksChk_ok (p : Params) (plain : Array Nat)
    (hps : ParamsSafe p) (hlz : LazyDepthOK p) (hsz : plain.size < 2147483648) (bs : Nat) :
    ∀ (ts : List Token) (s : PState Chain) (ops : List Op) (s' : PState Chain) (fuel : Nat) (rest : List Op),
    ValidToks plain s.pos ts → s.pos ≤ plain.size → encToks (pred p) plain s ts = .ok (ops, s') →
    s.count + ts.length ≤ bs → ts.length < fuel →
    (!s'.eof plain && decide (s'.count < bs)) = false →
    RunInv p plain s → (p.addPolicy = 3 → NoRefAt4k s.pos (ts.map tokenLen)) →
    decToksChk p plain bs fuel s (ops ++ rest) = .ok () := by
  intro ts
  induction ts with
  | nil =>
    intro s ops s' fuel rest _ hpos he _ hf hstop _ _
    simp [encToks] at he
    obtain ⟨rfl, rfl⟩ := he
    obtain ⟨f, rfl⟩ : ∃ f, fuel = f + 1 := ⟨fuel - 1, by simp at hf; omega⟩
    unfold decToksChk remainingChk
    rw [need_bind hpos]
    simp only [hstop]
    simp
  | cons t ts ih =>
    intro s ops s' fuel rest hv hpos he hc hf hstop hinv h4k
    simp only [encToks, bind_eq_ok] at he
    obtain ⟨⟨a, s1⟩, h1, ⟨b, s2⟩, h2, he⟩ := he
    simp at he
    obtain ⟨rfl, rfl⟩ := he
    obtain ⟨f, rfl⟩ : ∃ f, fuel = f + 1 := ⟨fuel - 1, by simp at hf; omega⟩
    obtain ⟨hvt, hvts⟩ := hv
    have hpos' := validTok_pos plain s.pos t hvt
    have hlen := validTok_len plain s.pos t hvt
    have h4t : p.addPolicy = 3 → tokenLen t > 1 → (s.pos &&& 4095) < 4093 := fun h3 => (h4k h3).1
    obtain ⟨hinv1, p1⟩ := encTok_runInv p plain s t hvt hinv h4t a s1 h1
    obtain ⟨_, c1⟩ := encTok_state (pred p) plain s t a s1 h1
    have hcond : (!s.eof plain && decide (s.count < bs)) = true := by
      simp [PState.eof] at hc ⊢
      omega
    have hdt := decTok_encTok' (pred p) plain s t hvt a s1 h1 (b ++ rest)
    have hchk := decTokChk_ok p plain s t hps hlz hsz hvt hinv h4t a s1 h1 (b ++ rest)
    have hrec := ih s1 b s2 f rest (by rw [p1]; exact hvts) (by rw [p1]; omega) h2 (by simp at hc; omega)
      (by simp at hf; omega) hstop hinv1 (fun h3 => by rw [p1]; exact (h4k h3).2)
    unfold decToksChk remainingChk
    rw [need_bind (show s.pos ≤ plain.size by omega)]
    simp only [hcond, if_true, List.append_assoc, hchk, R_ok_bind, hdt]
    exact hrec

/-- mirror of `decToks_block`: the block size the decoder derives makes the loop stop after the
    block's tokens -/
theorem decToksChk_block (p : Params) (plain : Array Nat)
    (hps : ParamsSafe p) (hlz : LazyDepthOK p) (hsz : plain.size < 2147483648)
    (s0 : PState Chain) (ts : List Token) (last : Bool)
    (hc : s0.count = 0) (hv : ValidToks plain s0.pos ts) (hpos : s0.pos ≤ plain.size)
    (hlast : last = true → toksEnd s0.pos ts = plain.size)
    (tokOps : List Op) (s' : PState Chain) (he : encToks (pred p) plain s0 ts = .ok (tokOps, s')) (rest : List Op)
    (tcv bsz : Nat)
    (htc : tcv = if (!last && ts.length ≠ (pred p).maxTokenCount) || ts.length > (pred p).maxTokenCount
                 then ts.length + 1 else 0)
    (hbs : bsz = if tcv = 0 then (pred p).maxTokenCount else tcv - 1)
    (hinv : RunInv p plain s0) (h4k : p.addPolicy = 3 → NoRefAt4k s0.pos (ts.map tokenLen)) :
    decToksChk p plain bsz (bsz + 1) s0 (tokOps ++ rest) = .ok () := by
  obtain ⟨hp, hcnt⟩ := encToks_state (pred p) plain ts s0 tokOps s' he
  rw [hc] at hcnt
  by_cases hcond : ((!last && ts.length ≠ (pred p).maxTokenCount) || ts.length > (pred p).maxTokenCount) = true
  · rw [if_pos hcond] at htc
    have hb : bsz = ts.length := by rw [hbs, htc]; simp
    subst hb
    apply decToksChk_ok p plain hps hlz hsz _ ts s0 tokOps s' _ rest hv hpos he
    · omega
    · omega
    · simp [hcnt]
    · exact hinv
    · exact h4k
  · rw [if_neg hcond] at htc
    have hb : bsz = (pred p).maxTokenCount := by rw [hbs, htc]; simp
    subst hb
    simp at hcond
    obtain ⟨h1, h2⟩ := hcond
    apply decToksChk_ok p plain hps hlz hsz _ ts s0 tokOps s' _ rest hv hpos he
    · omega
    · omega
    · cases last with
      | true =>
        have := hlast rfl
        simp [PState.eof, hp, this]
      | false =>
        have := h1 rfl
        simp [hcnt, this]
    · exact hinv
    · exact h4k

/-- stored blocks of `recreate_block` -/
theorem decStoredChk_ok (p : Params) (plain : Array Nat)
    (hps : ParamsSafe p) (hsz : plain.size < 2147483648) :
    ∀ (n : Nat) (s : PState Chain), s.pos + n ≤ plain.size → s.pending = none → RunInv p plain s →
      decStoredChk p plain n s = .ok () := by
  intro n
  induction n with
  | zero => intro s _ _ _; rfl
  | succ n ih =>
    intro s hend hpn hinv
    have hl : 1 ≤ 1 ∧ 1 ≤ 258 := by omega
    have h4 : p.addPolicy = 3 → 1 > 1 → (s.pos &&& 4095) < 4093 := fun _ h => by omega
    obtain ⟨_, hcs, _⟩ := step_facts p s.h.totalShift s.pos 1 hinv.chain hl h4
    have hnext : RunInv p plain { s with h := policyUpdate p plain s.h s.pos 1, pos := s.pos + 1 } := by
      have := runInv_commit p plain s (.lit 0) none hinv hl h4 (pendInv_none _ _ _)
      refine ⟨this.chain, this.tabs, ?_⟩
      show PendInv p plain (s.pos + 1) s.pending
      rw [hpn]; exact pendInv_none _ _ _
    unfold decStoredChk curCharChk
    rw [need_bind (show s.pos < plain.size by omega),
      commitChk_ok p plain s 1 hps.shift hsz hl (by omega) hcs]
    simp only [R_ok_bind]
    exact ih _ (by simp only []; omega) hpn hnext

/-- the token part of a fixed / dynamic block -/
theorem decBlockChk_tokBlock (p : Params) (plain : Array Nat)
    (hps : ParamsSafe p) (hlz : LazyDepthOK p) (hsz : plain.size < 2147483648)
    (s : PState Chain) (btn : Nat) (hbt : btn = 2 ∨ btn = 0) (ts : List Token) (last : Bool)
    (tree : R (List Op)) (hv : ValidToks plain s.pos ts) (hpos : s.pos ≤ plain.size)
    (hlast : last = true → toksEnd s.pos ts = plain.size)
    (hinv : RunInv p plain s) (h4k : p.addPolicy = 3 → NoRefAt4k s.pos (ts.map tokenLen))
    (ops : List Op) (s' : PState Chain)
    (he : encTokBlock (pred p) plain { s with count := 0, pending := none } btn ts last tree = .ok (ops, s'))
    (rest : List Op) :
    decBlockChk p plain s (ops ++ rest) = .ok () := by
  have hinv0 : RunInv p plain { s with count := 0, pending := none } :=
    ⟨hinv.chain, hinv.tabs, pendInv_none _ _ _⟩
  unfold encTokBlock at he
  by_cases hn : ts.length ≥ 2 ^ 32
  · simp [hn, bind, Except.bind, throw, throwThe, MonadExceptOf.throw] at he
  · simp only [hn, if_false, bind_eq_ok] at he
    obtain ⟨⟨tokOps, s1⟩, htok, treeOps, htree, he⟩ := he
    simp only [Except.ok.injEq, Prod.mk.injEq] at he
    obtain ⟨rfl, rfl⟩ := he
    rw [tc_ite]
    have hdt := decToksChk_block p plain hps hlz hsz { s with count := 0, pending := none } ts last rfl hv hpos
      hlast tokOps s1 htok (treeOps ++ rest) _ _ rfl rfl hinv0 h4k
    unfold decBlockChk
    simp only [List.cons_append, List.append_assoc, popCorr_cons, decDiff_encDiff]
    rcases hbt with rfl | rfl
    · simp only [show ¬ (2 = 1) by omega, if_false, true_or, if_true]
      exact hdt
    · simp only [show ¬ (0 = 1) by omega, if_false, or_true, if_true]
      exact hdt

/-- `recreate_block` replaying the corrections of `predict_block` for a valid block -/
theorem decBlockChk_ok (p : Params) (plain : Array Nat)
    (hps : ParamsSafe p) (hlz : LazyDepthOK p) (hsz : plain.size < 2147483648)
    (s : PState Chain) (b : Block) (last : Bool)
    (hv : ValidBlock plain s.pos b) (hpos : s.pos ≤ plain.size)
    (hlast : last = true → blockEnd s.pos b = plain.size)
    (hinv : RunInv p plain s) (h4k : p.addPolicy = 3 → NoRefAt4k s.pos (blockLens b))
    (ops : List Op) (s' : PState Chain) (he : encBlock (pred p) plain s b last = .ok (ops, s'))
    (rest : List Op) :
    decBlockChk p plain s (ops ++ rest) = .ok () := by
  cases b with
  | stored pad data =>
    obtain ⟨hpad, hlen, hsz', hdata⟩ := hv
    simp [encBlock] at he
    obtain ⟨rfl, rfl⟩ := he
    have e1 : data.length % 65536 = data.length := Nat.mod_eq_of_lt hlen
    have hinv0 : RunInv p plain { s with count := 0, pending := none } :=
      ⟨hinv.chain, hinv.tabs, pendInv_none _ _ _⟩
    have := decStoredChk_ok p plain hps hsz data.length { s with count := 0, pending := none } hsz' rfl hinv0
    unfold decBlockChk
    simp only [List.cons_append, List.nil_append, blockTypeNum, popCorr_cons, decDiff_encDiff, if_true,
      popValue_cons, e1]
    exact this
  | fixed ts =>
    rw [encBlock_fixed] at he
    exact decBlockChk_tokBlock p plain hps hlz hsz s 2 (Or.inl rfl) ts last _ hv.1 hpos hlast hinv h4k ops s' he rest
  | dynamic h ts =>
    rw [encBlock_dynamic] at he
    exact decBlockChk_tokBlock p plain hps hlz hsz s 0 (Or.inr rfl) ts last _ hv.1 hpos hlast hinv h4k ops s' he rest

theorem le_toksEnd (ts : List Token) : ∀ pos, pos ≤ toksEnd pos ts := by
  induction ts with
  | nil => intro pos; simp [toksEnd]
  | cons t ts ih => intro pos; simp only [toksEnd]; have := ih (pos + tokenLen t); omega

theorem le_blockEnd (b : Block) (pos : Nat) : pos ≤ blockEnd pos b := by
  cases b with
  | stored pad data => simp [blockEnd]
  | fixed ts => exact le_toksEnd ts pos
  | dynamic h ts => exact le_toksEnd ts pos

theorem le_blocksEnd (bs : List Block) : ∀ pos, pos ≤ blocksEnd pos bs := by
  induction bs with
  | nil => intro pos; simp [blocksEnd]
  | cons b bs ih =>
    intro pos
    simp only [blocksEnd]
    have := ih (blockEnd pos b)
    have := le_blockEnd b pos
    omega

/-- `is_eof` check followed by the block loop (mirror of `decTail`) -/
def decTailChk (p : Params) (plain : Array Nat) (fuel : Nat) (s : PState Chain) (ops : List Op) : R Unit := do
  remainingChk plain s.pos
  match decIsEof plain s ops with
  | .error _ => .ok ()
  | .ok (isEof, ops) => if isEof then .ok () else decBlocksChk p plain fuel s ops

theorem decBlocksChk_succ (p : Params) (plain : Array Nat) (fuel : Nat) (s : PState Chain) (ops : List Op) :
    decBlocksChk p plain (fuel + 1) s ops = (do
      decBlockChk p plain s ops
      match decBlock (pred p) plain s ops with
      | .error _ => .ok ()
      | .ok (_, ops, s) => decTailChk p plain fuel s ops) := rfl

/-- `recreate_blocks` replaying the corrections of `predict_blocks` for a valid block list -/
theorem decTailChk_encBlocks (p : Params) (plain : Array Nat)
    (hps : ParamsSafe p) (hlz : LazyDepthOK p) (hsz : plain.size < 2147483648) :
    ∀ (blocks : List Block) (s : PState Chain) (ops : List Op) (s' : PState Chain) (fuel : Nat),
    ValidBlocks plain s.pos blocks → blocksEnd s.pos blocks = plain.size →
    encBlocks (pred p) plain s blocks = .ok (ops, s') → ops.length < fuel →
    RunInv p plain s → (p.addPolicy = 3 → NoRefAt4k s.pos (streamLens blocks)) →
    ∀ rest, decTailChk p plain fuel s (ops ++ Op.mis M_EOF false :: rest) = .ok () := by
  intro blocks
  induction blocks with
  | nil =>
    intro s ops s' fuel _ hend he _ _ _ rest
    simp [encBlocks] at he
    obtain ⟨rfl, rfl⟩ := he
    have heof : s.eof plain = true := by simp [PState.eof, blocksEnd] at hend ⊢; omega
    have hpos : s.pos ≤ plain.size := by simp [blocksEnd] at hend; omega
    unfold decTailChk remainingChk
    rw [need_bind hpos]
    simp [decIsEof, heof, bind, Except.bind]
  | cons b bs ih =>
    intro s ops s' fuel hv hend he hf hinv h4k rest
    obtain ⟨hvb, hvbs⟩ := hv
    have hpos : s.pos ≤ plain.size := by rw [← hend]; exact le_blocksEnd _ _
    simp only [encBlocks, bind_eq_ok] at he
    obtain ⟨⟨a, s1⟩, h1, ⟨r, s2⟩, h2, he⟩ := he
    simp only [Except.ok.injEq, Prod.mk.injEq] at he
    obtain ⟨rfl, rfl⟩ := he
    have hlast : bs.isEmpty = true → blockEnd s.pos b = plain.size := by
      intro hb
      have : bs = [] := by simpa using hb
      subst this
      simpa [blocksEnd] using hend
    have h4s : p.addPolicy = 3 → NoRefAt4k s.pos (blockLens b) ∧ NoRefAt4k (blockEnd s.pos b) (streamLens bs) := by
      intro h3
      have := noRefAt4k_split (blockLens b) (streamLens bs) s.pos (by simpa [streamLens] using h4k h3)
      rw [sum_blockLens] at this
      exact this
    obtain ⟨hdb, hp1, hlen⟩ :=
      decBlock_encBlock (pred p) plain s b bs.isEmpty hvb hlast a s1 h1 (r ++ Op.mis M_EOF false :: rest)
    have hchk := decBlockChk_ok p plain hps hlz hsz s b bs.isEmpty hvb hpos hlast hinv (fun h3 => (h4s h3).1)
      a s1 h1 (r ++ Op.mis M_EOF false :: rest)
    obtain ⟨hinv1, _⟩ := (encBlockChk_ok p plain hps hlz hsz s b bs.isEmpty hvb hinv (fun h3 => (h4s h3).1)).2 a s1 h1
    obtain ⟨f, rfl⟩ : ∃ f, fuel = f + 1 := ⟨fuel - 1, by omega⟩
    have hrec := ih s1 r s2 f (by rw [hp1]; exact hvbs) (by rw [hp1]; simpa [blocksEnd] using hend) h2
      (by simp at hf; omega) hinv1 (fun h3 => by rw [hp1]; exact (h4s h3).2) rest
    unfold decTailChk remainingChk
    rw [need_bind hpos]
    simp only [List.append_assoc, decIsEof_enc, Bool.false_eq_true, if_false]
    rw [decBlocksChk_succ, hchk]
    simp only [R_ok_bind, hdb]
    exact hrec

theorem decStreamChk_ok' (p : Params) (plain : Array Nat) (blocks : List Block) (pad : Nat)
    (hr : EstimatorRange p) (hlz : LazyDepthOK p) (hsz : plain.size < 2147483648)
    (hv : StreamValid plain blocks)
    (h4k : p.addPolicy = 3 → NoRefAt4k 0 (streamLens blocks))
    (ops : List Op) (he : encStream (pred p) plain blocks pad = .ok ops) (rest : List Op) :
    decStreamChk p plain (ops ++ rest) = .ok () := by
  have hps := paramsSafe_of_estimatorRange p hr
  obtain ⟨hne, hvb, hend⟩ := hv
  unfold encStream at he
  simp only [bind_eq_ok] at he
  obtain ⟨⟨ops1, s1⟩, hb, he⟩ := he
  by_cases heof : (!s1.eof plain) = true
  · simp [heof, bind, Except.bind, throw, throwThe, MonadExceptOf.throw] at he
  · simp only [heof, Bool.false_eq_true, if_false, Except.ok.injEq] at he
    subst he
    cases blocks with
    | nil => exact absurd rfl hne
    | cons b bs =>
      have hb' := hb
      simp only [encBlocks, bind_eq_ok] at hb'
      obtain ⟨⟨a, s2⟩, h1, ⟨r, s3⟩, h2, hb'⟩ := hb'
      simp only [Except.ok.injEq, Prod.mk.injEq] at hb'
      obtain ⟨rfl, rfl⟩ := hb'
      have htail := decTailChk_encBlocks p plain hps hlz hsz (b :: bs) ⟨(pred p).init, none, 0, 0⟩ _ s3
        ((a ++ r ++ Op.mis M_EOF false :: Op.corr C_NONZERO_PADDING pad :: rest).length + 1) hvb hend hb
        (by simp only [List.length_append, List.length_cons]; split <;> simp <;> omega)
        (runInv_init p plain) h4k (Op.corr C_NONZERO_PADDING pad :: rest)
      unfold decTailChk remainingChk at htail
      rw [need_bind (show (0 : Nat) ≤ plain.size by omega)] at htail
      simp only [List.append_assoc, decIsEof_enc, Bool.false_eq_true, if_false] at htail
      have hnew : holderNewChk p = .ok () := by
        unfold holderNewChk
        split
        · rfl
        · rename_i h0
          exact need_ok (by have := (hps.window h0).2; omega)
      unfold decStreamChk remainingChk
      rw [hnew]
      simp only [R_ok_bind]
      rw [need_bind (show (0 : Nat) ≤ plain.size by omega)]
      simp only [List.append_assoc, List.cons_append, List.nil_append]
      have e : (⟨Chain.init, none, 0, 0⟩ : PState Chain) = ⟨(pred p).init, none, 0, 0⟩ := rfl
      rw [e, decIsEof_enc]
      simp only [Bool.false_eq_true, if_false]
      simpa using htail

/-- MAIN THEOREM (reconstruction side). Replaying the corrections that the analysis of a valid
    stream produced (`encStream (pred p) plain blocks pad = .ok ops`), `recreate_block` — `predict_token`
    and `repredict_reference` at the same states, `hop_match` with the decoded length, `commit_token`,
    the stored-block loop — reaches none of the panic sites of the match finder / hash chains. Same
    hypotheses as `encStreamChk_ok`. -/
theorem decStreamChk_ok (p : Params) (plain : Array Nat) (blocks : List Block) (pad : Nat)
    (hr : EstimatorRange p) (hlz : LazyDepthOK p) (hsz : plain.size < 2147483648)
    (hv : StreamValid plain blocks) (_hpad : pad < 256)
    (h4k : p.addPolicy = 3 → NoRefAt4k 0 (streamLens blocks))
    (ops : List Op) (he : encStream (pred p) plain blocks pad = .ok ops) :
    decStreamChk p plain ops = .ok () := by
  have := decStreamChk_ok' p plain blocks pad hr hlz hsz hv h4k ops he []
  simpa using this

end Preflate.Proofs
