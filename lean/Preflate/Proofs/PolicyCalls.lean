/-
The add-policy dispatch (`DictionaryAddPolicy::update_hash`) as a list of hash-chain update calls:
`policyUpdate` performs exactly the calls `updateCalls` lists, in order. The `policy` correspondence
requests compare that list with what the code's `update_hash` passes on (hook
`add_policy_update_calls`), for every policy at every boundary position.
-/
import Preflate.Model.ChainBounds
namespace Preflate.Proofs
open Preflate Chains

theorem policyUpdate_eq_calls (p : Params) (plain : Array Nat) (c : Chain) (pos len : Nat) :
    policyUpdate p plain c pos len =
      (updateCalls p pos len).foldl (fun c (q : Nat × Nat) => c.update p plain q.1 q.2) c := by
  unfold policyUpdate updateCalls
  by_cases h0 : p.hashAlg = 0
  · simp [h0]
  by_cases h1 : len = 1
  · simp [h0, h1]
  simp only [h0, h1, if_false]
  generalize p.addPolicy = k
  match k with
  | 0 => rfl
  | 1 => by_cases h : len ≤ p.addLimit <;> simp [h]
  | 2 => by_cases h : len ≤ p.addLimit <;> simp [h]
  | 3 => by_cases h : (pos &&& 4095) < 4093 <;> simp [h]
  | n + 4 => by_cases h : is32kBoundary len pos = true <;> simp [h]

end Preflate.Proofs
