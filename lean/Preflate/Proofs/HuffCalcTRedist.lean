/-
Length-limiting tail of `calc_zlib::calc_bit_lengths` (`countLens`, `redistribute`, `reassign`):
on a complete tree (Kraft sum 1) with at most `2^maxBits` used symbols it never panics, and the
reassigned lengths are in `[1, maxBits]`.
-/
import Mathlib.Tactic.Ring
import Mathlib.Tactic.Linarith
import Preflate.Proofs.HuffCalcTBase
namespace Preflate.HuffCalcT

/-- Kraft sum in units of 2^-255; zero entries are "no symbol" -/
def kraft (L : List Nat) : Nat := (L.map (fun l => if l = 0 then 0 else 2 ^ (255 - l))).sum

/-! ### range sums -/

/-- `Σ_{i<n} g i` -/
def rsum (g : Nat → Nat) : Nat → Nat
  | 0 => 0
  | n + 1 => rsum g n + g n

theorem rsum_congr {g g' : Nat → Nat} {n : Nat} (h : ∀ i, i < n → g' i = g i) :
    rsum g' n = rsum g n := by
  induction n with
  | zero => rfl
  | succ n ih =>
    simp only [rsum]
    rw [ih (fun i hi => h i (by omega)), h n (by omega)]

theorem rsum_update {g g' : Nat → Nat} {n k : Nat} (hk : k < n)
    (h : ∀ i, i < n → i ≠ k → g' i = g i) :
    rsum g' n + g k = rsum g n + g' k := by
  induction n with
  | zero => omega
  | succ n ih =>
    simp only [rsum]
    by_cases hkn : k = n
    · subst hkn
      rw [rsum_congr (g' := g') (g := g) (fun i hi => h i (by omega) (by omega))]
      omega
    · have h1 := ih (by omega) (fun i hi hik => h i (by omega) hik)
      have h2 := h n (by omega) (fun h' => hkn h'.symm)
      omega

theorem rsum_zero {g : Nat → Nat} {n : Nat} (h : ∀ i, i < n → g i = 0) : rsum g n = 0 := by
  induction n with
  | zero => rfl
  | succ n ih =>
    simp only [rsum]
    rw [ih (fun i hi => h i (by omega)), h n (by omega)]

theorem rsum_pos {g : Nat → Nat} {n : Nat} (h : 0 < rsum g n) : ∃ i, i < n ∧ g i ≠ 0 := by
  induction n with
  | zero => simp [rsum] at h
  | succ n ih =>
    simp only [rsum] at h
    by_cases hn : g n = 0
    · obtain ⟨i, hi, hg⟩ := ih (by omega)
      exact ⟨i, by omega, hg⟩
    · exact ⟨n, by omega, hn⟩

theorem rsum_trunc {g : Nat → Nat} {n : Nat} : ∀ (d : Nat), (∀ i, n ≤ i → i < n + d → g i = 0) →
    rsum g (n + d) = rsum g n
  | 0, _ => rfl
  | d + 1, h => by
    show rsum g (n + d) + g (n + d) = rsum g n
    rw [rsum_trunc d (fun i h1 h2 => h i h1 (by omega)), h (n + d) (by omega) (by omega)]
    rfl

/-! ### counters -/

/-- `bl[j]`, `0` outside -/
def cnt (bl : Array Nat) (j : Nat) : Nat := bl[j]?.getD 0

theorem cnt_set (bl : Array Nat) (i j v : Nat) (h : i < bl.size) :
    cnt (bl.setIfInBounds i v) j = if j = i then v else cnt bl j := by
  unfold cnt
  rw [Array.getElem?_setIfInBounds]
  by_cases hji : j = i
  · subst hji; simp [h]
  · have : ¬ i = j := fun h => hji h.symm
    simp [this, hji]

theorem aget_cnt (bl : Array Nat) (i : Nat) (s : String) (h : i < bl.size) :
    aget bl i s = .ok (cnt bl i) := by
  rw [aget_ok s h]; simp [cnt, h]

theorem cnt_replicate (n j : Nat) : cnt (Array.replicate n 0) j = 0 := by
  unfold cnt
  by_cases h : j < n
  · simp [h]
  · simp [h]

/-- potential: `Σ_{i ≤ m} bl[i] * (2^(m-i) - 1)` (the weight of `bl[m]` is `0`) -/
def phi (m : Nat) (bl : Array Nat) : Nat := rsum (fun i => cnt bl i * (2 ^ (m - i) - 1)) (m + 1)

/-- `Σ_{1 ≤ i ≤ n} bl[i]` -/
def s1 (bl : Array Nat) (n : Nat) : Nat := rsum (fun i => cnt bl (i + 1)) n

theorem phi_set (m : Nat) (bl : Array Nat) (i v : Nat) (hs : bl.size = m + 1) (hi : i ≤ m) :
    phi m (bl.setIfInBounds i v) + cnt bl i * (2 ^ (m - i) - 1)
      = phi m bl + v * (2 ^ (m - i) - 1) := by
  have hlt : i < bl.size := by omega
  have e : cnt (bl.setIfInBounds i v) i = v := by rw [cnt_set _ _ _ _ hlt, if_pos rfl]
  have h : phi m (bl.setIfInBounds i v) + cnt bl i * (2 ^ (m - i) - 1)
      = phi m bl + cnt (bl.setIfInBounds i v) i * (2 ^ (m - i) - 1) :=
    @rsum_update (fun j => cnt bl j * (2 ^ (m - j) - 1))
      (fun j => cnt (bl.setIfInBounds i v) j * (2 ^ (m - j) - 1)) (m + 1) i (by omega)
      (by intro j _ hji; simp only [cnt_set _ _ _ _ hlt, if_neg hji])
  rw [e] at h
  exact h

theorem s1_set (bl : Array Nat) (i v n : Nat) (hs : i < bl.size) (hi1 : 1 ≤ i) (hin : i ≤ n) :
    s1 (bl.setIfInBounds i v) n + cnt bl i = s1 bl n + v := by
  have e1 : i - 1 + 1 = i := by omega
  have e : cnt (bl.setIfInBounds i v) (i - 1 + 1) = v := by
    rw [e1, cnt_set _ _ _ _ hs, if_pos rfl]
  have h : s1 (bl.setIfInBounds i v) n + cnt bl (i - 1 + 1)
      = s1 bl n + cnt (bl.setIfInBounds i v) (i - 1 + 1) :=
    @rsum_update (fun j => cnt bl (j + 1))
      (fun j => cnt (bl.setIfInBounds i v) (j + 1)) n (i - 1) (by omega)
      (by intro j _ hji
          have : ¬ j + 1 = i := by omega
          simp only [cnt_set _ _ _ _ hs, if_neg this])
  rw [e, e1] at h
  exact h

theorem s1_set_out (bl : Array Nat) (i v n : Nat) (hs : i < bl.size) (hi : i = 0 ∨ n < i) :
    s1 (bl.setIfInBounds i v) n = s1 bl n := by
  unfold s1
  apply rsum_congr
  intro j hj
  have : ¬ j + 1 = i := by omega
  simp only [cnt_set _ _ _ _ hs, if_neg this]

/-! ### `countLens` -/

theorem countLens_step (m : Nat) (bl : Array Nat) (nl : Nat) (hs : bl.size = m + 1)
    (hnl : nl ≤ m) :
    (bl.setIfInBounds nl (cnt bl nl + 1)).size = m + 1 ∧
    phi m (bl.setIfInBounds nl (cnt bl nl + 1)) = phi m bl + (2 ^ (m - nl) - 1) ∧
    s1 (bl.setIfInBounds nl (cnt bl nl + 1)) m = s1 bl m + (if 0 < nl then 1 else 0) ∧
    cnt (bl.setIfInBounds nl (cnt bl nl + 1)) m = cnt bl m + (if nl = m then 1 else 0) := by
  have hlt : nl < bl.size := by omega
  refine ⟨by simp [hs], ?_, ?_, ?_⟩
  · have h := phi_set m bl nl (cnt bl nl + 1) hs hnl
    rw [Nat.add_mul, Nat.one_mul] at h
    omega
  · by_cases h0 : 0 < nl
    · have h := s1_set bl nl (cnt bl nl + 1) m hlt h0 hnl
      simp only [h0, if_true]
      omega
    · have h := s1_set_out bl nl (cnt bl nl + 1) m hlt (by omega)
      simp only [h0, if_false]
      omega
  · rw [cnt_set _ _ _ _ hlt]
    by_cases h : nl = m
    · subst h; simp
    · have : ¬ m = nl := fun h' => h h'.symm
      simp [h, this]

theorem countLens_spec (m : Nat) (hm1 : 1 ≤ m) :
    ∀ (L : List Nat) (bl : Array Nat) (ov : Nat), bl.size = m + 1 →
    ∃ bl' ov', countLens m L bl ov = .ok (bl', ov') ∧ bl'.size = m + 1 ∧
      phi m bl' = phi m bl + (L.map (fun l => 2 ^ (m - l) - 1)).sum ∧
      s1 bl' m = s1 bl m + (L.map (fun l => if 0 < l then 1 else 0)).sum ∧
      ov' + cnt bl m ≤ cnt bl' m + ov ∧
      ov' = ov + (L.map (fun l => if m < l then 1 else 0)).sum
  | [], bl, ov, hs => ⟨bl, ov, rfl, hs, by simp, by simp, by omega, by simp⟩
  | l :: rest, bl, ov, hs => by
    by_cases hl : m < l
    · obtain ⟨h1, h2, h3, h4⟩ := countLens_step m bl m hs (Nat.le_refl _)
      obtain ⟨bl', ov', e1, e2, e3, e4, e5, e6⟩ :=
        countLens_spec m hm1 rest (bl.setIfInBounds m (cnt bl m + 1)) (ov + 1) h1
      refine ⟨bl', ov', ?_, e2, ?_, ?_, ?_, ?_⟩
      · have hlt : m < bl.size := by omega
        have hg : l > m := hl
        simp only [countLens, hg, if_true, aget_cnt bl m _ hlt, ok_bind, aset_ok _ _ hlt, e1]
      · have : m - l = 0 := by omega
        simp only [List.map_cons, List.sum_cons, this, Nat.sub_self, Nat.pow_zero] at *
        omega
      · have h0 : 0 < l := by omega
        have h0m : 0 < m := by omega
        simp only [List.map_cons, List.sum_cons, h0, h0m, if_true] at *
        omega
      · simp only [if_true] at h4
        omega
      · simp only [List.map_cons, List.sum_cons, hl, if_true]
        omega
    · have hlm : l ≤ m := by omega
      obtain ⟨h1, h2, h3, h4⟩ := countLens_step m bl l hs hlm
      obtain ⟨bl', ov', e1, e2, e3, e4, e5, e6⟩ :=
        countLens_spec m hm1 rest (bl.setIfInBounds l (cnt bl l + 1)) ov h1
      refine ⟨bl', ov', ?_, e2, ?_, ?_, ?_, ?_⟩
      · have hlt : l < bl.size := by omega
        have hg : ¬ l > m := hl
        simp only [countLens, hg, if_false, aget_cnt bl l _ hlt, ok_bind, aset_ok _ _ hlt, e1]
      · simp only [List.map_cons, List.sum_cons]
        omega
      · simp only [List.map_cons, List.sum_cons]
        omega
      · have : cnt bl m ≤ cnt (bl.setIfInBounds l (cnt bl l + 1)) m := by omega
        omega
      · simp only [List.map_cons, List.sum_cons, hl, if_false]
        omega

theorem sum_ind_zero (m : Nat) : ∀ (L : List Nat),
    (L.map (fun l => if m < l then 1 else 0)).sum = 0 → ∀ l ∈ L, l ≤ m
  | [], _ => by simp
  | x :: rest, h => by
    simp only [List.map_cons, List.sum_cons] at h
    intro l hl
    rcases List.mem_cons.mp hl with rfl | hl
    · by_cases hx : m < l
      · simp [hx] at h
      · omega
    · exact sum_ind_zero m rest (by omega) l hl

theorem filter_pos_length : ∀ (L : List Nat),
    (L.filter (fun l => decide (0 < l))).length = (L.map (fun l => if 0 < l then 1 else 0)).sum
  | [] => rfl
  | x :: rest => by
    have ih := filter_pos_length rest
    by_cases hx : 0 < x
    · simp only [List.filter_cons, hx, decide_true, if_true, List.length_cons, List.map_cons,
        List.sum_cons, ih]
      omega
    · simp only [List.filter_cons, hx, decide_false, if_false, List.map_cons,
        List.sum_cons]
      simpa using ih

/-! ### the key inequality `overflow ≤ 2 * Φ` -/

theorem elem_ineq (m l : Nat) (hm2 : m ≤ 255) (hl : l ≤ 255) :
    2 * (if l = 0 then 0 else 2 ^ (255 - l)) + (if m < l then 1 else 0) * 2 ^ (255 - m)
      ≤ 2 * 2 ^ (255 - m) * (2 ^ (m - l) - 1) + 2 * 2 ^ (255 - m) * (if 0 < l then 1 else 0) := by
  by_cases h0 : l = 0
  · subst h0; simp
  · have hpos : 0 < l := by omega
    by_cases hml : m < l
    · have e : m - l = 0 := by omega
      have hp : 2 ^ (255 - l + 1) ≤ 2 ^ (255 - m) :=
        Nat.pow_le_pow_right (by omega) (by omega)
      rw [Nat.pow_succ] at hp
      simp only [h0, hml, hpos, if_true, if_false, e]
      generalize 2 ^ (255 - m) = c at *
      generalize 2 ^ (255 - l) = k at *
      omega
    · have hk : 2 ^ (255 - l) = 2 ^ (255 - m) * 2 ^ (m - l) := by
        rw [← Nat.pow_add]; congr 1; omega
      have hy : 1 ≤ 2 ^ (m - l) := Nat.one_le_two_pow
      obtain ⟨y, hy⟩ : ∃ y, 2 ^ (m - l) = y + 1 := ⟨2 ^ (m - l) - 1, by omega⟩
      simp only [h0, hml, hpos, if_true, if_false, hk, hy]
      generalize 2 ^ (255 - m) = c at *
      have : 2 * (c * (y + 1)) = 2 * c * y + 2 * c := by ring
      simp only [Nat.add_sub_cancel, Nat.zero_mul, Nat.add_zero, Nat.mul_one]
      omega

theorem sum_ineq (m : Nat) (hm2 : m ≤ 255) : ∀ (L : List Nat), (∀ l ∈ L, l ≤ 255) →
    2 * kraft L + (L.map (fun l => if m < l then 1 else 0)).sum * 2 ^ (255 - m)
      ≤ 2 * 2 ^ (255 - m) * (L.map (fun l => 2 ^ (m - l) - 1)).sum
        + 2 * 2 ^ (255 - m) * (L.map (fun l => if 0 < l then 1 else 0)).sum
  | [], _ => by simp [kraft]
  | x :: rest, h => by
    have ih := sum_ineq m hm2 rest (fun l hl => h l (List.mem_cons_of_mem _ hl))
    have e := elem_ineq m x hm2 (h x List.mem_cons_self)
    simp only [kraft, List.map_cons, List.sum_cons] at ih ⊢
    generalize 2 ^ (255 - m) = c at *
    simp only [Nat.mul_add, Nat.add_mul]
    omega

theorem key_ineq (m : Nat) (hm2 : m ≤ 255) (L : List Nat) (hle : ∀ l ∈ L, l ≤ 255)
    (hk : kraft L = 2 ^ 255)
    (hn : (L.map (fun l => if 0 < l then 1 else 0)).sum ≤ 2 ^ m) :
    (L.map (fun l => if m < l then 1 else 0)).sum
      ≤ 2 * (L.map (fun l => 2 ^ (m - l) - 1)).sum := by
  have h := sum_ineq m hm2 L hle
  have e : (2 : Nat) ^ 255 = 2 ^ m * 2 ^ (255 - m) := by
    rw [← Nat.pow_add]; congr 1; omega
  rw [hk, e] at h
  have hc : 0 < 2 ^ (255 - m) := Nat.two_pow_pos _
  generalize 2 ^ (255 - m) = c at *
  generalize (L.map (fun l => if m < l then 1 else 0)).sum = ov at *
  generalize (L.map (fun l => 2 ^ (m - l) - 1)).sum = A at *
  generalize (L.map (fun l => if 0 < l then 1 else 0)).sum = n at *
  generalize 2 ^ m = M at *
  have h2 : 2 * c * n ≤ 2 * c * M := Nat.mul_le_mul_left _ hn
  have h3 : ov * c ≤ (2 * A) * c := by
    have e1 : 2 * (M * c) = 2 * c * M := by ring
    have e2 : 2 * A * c = 2 * c * A := by ring
    omega
  exact Nat.le_of_mul_le_mul_right h3 hc

/-! ### `findBits` -/

theorem findBits_spec (bl : Array Nat) : ∀ (b : Nat), b < bl.size → (∃ i, i ≤ b ∧ cnt bl i ≠ 0) →
    ∃ b', findBits bl b = .ok b' ∧ b' ≤ b ∧ cnt bl b' ≠ 0 ∧ ∀ j, b' < j → j ≤ b → cnt bl j = 0
  | 0, hb, ⟨i, hi, hc⟩ => by
    have : i = 0 := by omega
    subst this
    refine ⟨0, ?_, Nat.le_refl _, hc, fun j h1 h2 => by omega⟩
    simp [findBits, aget_cnt bl 0 _ hb, hc]
  | b + 1, hb, ⟨i, hi, hc⟩ => by
    by_cases h0 : cnt bl (b + 1) = 0
    · have hi' : i ≤ b := by
        by_cases h : i = b + 1
        · subst h; exact absurd h0 hc
        · omega
      obtain ⟨b', h1, h2, h3, h4⟩ := findBits_spec bl b (by omega) ⟨i, hi', hc⟩
      refine ⟨b', ?_, by omega, h3, fun j hj1 hj2 => ?_⟩
      · simp [findBits, aget_cnt bl (b + 1) _ hb, h0, h1]
      · by_cases h : j = b + 1
        · subst h; exact h0
        · exact h4 j hj1 (by omega)
    · refine ⟨b + 1, ?_, Nat.le_refl _, h0, fun j h1 h2 => by omega⟩
      simp [findBits, aget_cnt bl (b + 1) _ hb, h0]

/-! ### `redistStep` / `redistribute` -/

theorem redistStep_spec (m : Nat) (hm1 : 1 ≤ m) (bl : Array Nat) (hs : bl.size = m + 1)
    (hphi : 1 ≤ phi m bl) (hm : 1 ≤ cnt bl m) :
    ∃ bl', redistStep m bl = .ok bl' ∧ bl'.size = m + 1 ∧ phi m bl' + 1 = phi m bl ∧
      s1 bl m ≤ s1 bl' m ∧ cnt bl m ≤ cnt bl' m + 1 := by
  obtain ⟨i, hi, hci⟩ := rsum_pos (g := fun i => cnt bl i * (2 ^ (m - i) - 1)) (n := m + 1) hphi
  have hci1 : cnt bl i ≠ 0 := fun h => hci (by simp [h])
  have him : i < m := by
    by_cases h : i = m
    · subst h; simp at hci
    · omega
  obtain ⟨b, hfb, hb1, hb2, _⟩ := findBits_spec bl (m - 1) (by omega) ⟨i, by omega, hci1⟩
  have hbm : b < m := by omega
  obtain ⟨y, hy⟩ : ∃ y, cnt bl b = y + 1 := ⟨cnt bl b - 1, by omega⟩
  -- the three writes
  have hb_lt : b < bl.size := by omega
  obtain ⟨bl1, hbl1⟩ : ∃ x, x = bl.setIfInBounds b (cnt bl b - 1) := ⟨_, rfl⟩
  have hs1 : bl1.size = m + 1 := by simp [hbl1, hs]
  have hb1_lt : b + 1 < bl1.size := by omega
  obtain ⟨bl2, hbl2⟩ : ∃ x, x = bl1.setIfInBounds (b + 1) (cnt bl1 (b + 1) + 2) := ⟨_, rfl⟩
  have hs2 : bl2.size = m + 1 := by simp [hbl2, hs1]
  have hm_lt : m < bl2.size := by omega
  obtain ⟨bl3, hbl3⟩ : ∃ x, x = bl2.setIfInBounds m (cnt bl2 m - 1) := ⟨_, rfl⟩
  have hs3 : bl3.size = m + 1 := by simp [hbl3, hs2]
  have hc1m : cnt bl1 m = cnt bl m := by
    have : ¬ m = b := by omega
    rw [hbl1, cnt_set _ _ _ _ hb_lt, if_neg this]
  have hc2m : cnt bl m ≤ cnt bl2 m := by
    rw [hbl2, cnt_set _ _ _ _ hb1_lt]
    split
    · rename_i h; rw [← h]; omega
    · omega
  have hc2m1 : cnt bl2 m ≠ 0 := by omega
  have hc3m : cnt bl3 m = cnt bl2 m - 1 := by
    rw [hbl3, cnt_set _ _ _ _ hm_lt, if_pos rfl]
  refine ⟨bl3, ?_, hs3, ?_, ?_, ?_⟩
  · have hm0 : (m == 0) = false := by simp; omega
    have hne : (cnt bl2 m == 0) = false := by simp [hc2m1]
    unfold redistStep
    simp only [hm0, Bool.false_eq_true, if_false, hfb, ok_bind,
      aget_cnt bl b _ hb_lt, aset_ok _ _ hb_lt, ← hbl1]
    simp only [aget_cnt bl1 (b + 1) _ hb1_lt, aset_ok _ _ hb1_lt, ok_bind, ← hbl2]
    simp only [aget_cnt bl2 m _ hm_lt, hne, Bool.false_eq_true, if_false, ok_bind,
      aset_ok _ _ hm_lt, ← hbl3]
  · -- potential
    have p1 := phi_set m bl b (cnt bl b - 1) hs (by omega)
    have p2 := phi_set m bl1 (b + 1) (cnt bl1 (b + 1) + 2) hs1 (by omega)
    have p3 := phi_set m bl2 m (cnt bl2 m - 1) hs2 (Nat.le_refl _)
    rw [← hbl1] at p1
    rw [← hbl2] at p2
    rw [← hbl3] at p3
    have hw : 2 ^ (m - b) - 1 = 2 * (2 ^ (m - (b + 1)) - 1) + 1 := by
      have e : m - b = (m - (b + 1)) + 1 := by omega
      have : 1 ≤ 2 ^ (m - (b + 1)) := Nat.one_le_two_pow
      rw [e, Nat.pow_succ]
      omega
    simp only [Nat.sub_self, Nat.pow_zero, Nat.mul_zero, Nat.add_zero] at p3
    rw [hy] at p1
    simp only [Nat.add_sub_cancel] at p1
    rw [Nat.add_mul, Nat.one_mul] at p1
    rw [Nat.add_mul] at p2
    rw [hw] at p1
    generalize 2 ^ (m - (b + 1)) - 1 = w' at *
    generalize cnt bl1 (b + 1) * w' = t at *
    generalize y * (2 * w' + 1) = u at *
    omega
  · -- S1
    have q2 := s1_set bl1 (b + 1) (cnt bl1 (b + 1) + 2) m hb1_lt (by omega) (by omega)
    have q3 := s1_set bl2 m (cnt bl2 m - 1) m hm_lt hm1 (Nat.le_refl _)
    rw [← hbl2] at q2
    rw [← hbl3] at q3
    by_cases hb0 : b = 0
    · have q1 := s1_set_out bl b (cnt bl b - 1) m hb_lt (Or.inl hb0)
      rw [← hbl1] at q1
      omega
    · have q1 := s1_set bl b (cnt bl b - 1) m hb_lt (by omega) (by omega)
      rw [← hbl1] at q1
      omega
  · omega

theorem redistribute_spec (m : Nat) (hm1 : 1 ≤ m) : ∀ (ov : Nat) (bl : Array Nat),
    bl.size = m + 1 → ov ≤ 2 * phi m bl → ov ≤ cnt bl m →
    ∃ bl', redistribute m ov bl = .ok bl' ∧ bl'.size = m + 1 ∧ s1 bl m ≤ s1 bl' m
  | 0, bl, hs, _, _ => ⟨bl, rfl, hs, Nat.le_refl _⟩
  | 1, bl, hs, h1, h2 => by
    obtain ⟨bl', e1, e2, _, e4, _⟩ := redistStep_spec m hm1 bl hs (by omega) (by omega)
    exact ⟨bl', by simp only [redistribute, e1], e2, e4⟩
  | ov + 2, bl, hs, h1, h2 => by
    obtain ⟨bl1, e1, e2, e3, e4, e5⟩ := redistStep_spec m hm1 bl hs (by omega) (by omega)
    obtain ⟨bl', f1, f2, f3⟩ := redistribute_spec m hm1 ov bl1 e2 (by omega) (by omega)
    exact ⟨bl', by simp only [redistribute, e1, ok_bind, f1], f2, by omega⟩

/-! ### `reassign` -/

theorem reassign_spec (m : Nat) (hm2 : m ≤ 15) :
    ∀ (nodes : List Node) (bits : Nat) (bl lens : Array Nat),
    bits ≤ m → bl.size = m + 1 → (∀ j, bits < j → j ≤ m → cnt bl j = 0) →
    (nodes.filterMap (·.leaf)).length ≤ s1 bl bits →
    (∀ s ∈ nodes.filterMap (·.leaf), s < lens.size) →
    ∃ lens', reassign nodes bits bl lens = .ok lens' ∧ lens'.size = lens.size ∧
      ∀ i, i < lens.size →
        (i ∈ nodes.filterMap (·.leaf) → 1 ≤ lens'[i]?.getD 0 ∧ lens'[i]?.getD 0 ≤ m) ∧
        (i ∉ nodes.filterMap (·.leaf) → lens'[i]? = lens[i]?)
  | [], _, _, lens, _, _, _, _, _ => ⟨lens, rfl, rfl, fun i _ => ⟨by simp, fun _ => rfl⟩⟩
  | x :: rest, bits, bl, lens, hb, hs, hz, hc, hl => by
    cases hx : x.leaf with
    | none =>
      have hfm : (x :: rest).filterMap (·.leaf) = rest.filterMap (·.leaf) := by
        simp [hx]
      have hr : reassign (x :: rest) bits bl lens = reassign rest bits bl lens := by
        simp only [reassign, hx]
      rw [hfm] at hc hl ⊢
      rw [hr]
      exact reassign_spec m hm2 rest bits bl lens hb hs hz hc hl
    | some sym =>
      have hfm : (x :: rest).filterMap (·.leaf) = sym :: rest.filterMap (·.leaf) := by
        simp [hx]
      rw [hfm] at hc hl ⊢
      simp only [List.length_cons] at hc
      obtain ⟨i, hi, hci⟩ := rsum_pos (g := fun i => cnt bl (i + 1)) (n := bits)
        (by unfold s1 at hc; omega)
      obtain ⟨b, hfb, hb1, hb2, hb3⟩ := findBits_spec bl bits (by omega) ⟨i + 1, by omega, hci⟩
      have hb_pos : 1 ≤ b := by
        by_contra hcon
        exact hci (hb3 (i + 1) (by omega) (by omega))
      have hmod : b % 256 = b := Nat.mod_eq_of_lt (by omega)
      have hsym : sym < lens.size := hl sym List.mem_cons_self
      have hb_lt : b < bl.size := by omega
      -- new state
      have hz' : ∀ j, b < j → j ≤ m → cnt (bl.setIfInBounds b (cnt bl b - 1)) j = 0 := by
        intro j hj1 hj2
        have : ¬ j = b := by omega
        rw [cnt_set _ _ _ _ hb_lt, if_neg this]
        by_cases hjb : j ≤ bits
        · exact hb3 j hj1 hjb
        · exact hz j (by omega) hj2
      have hc' : (rest.filterMap (·.leaf)).length
          ≤ s1 (bl.setIfInBounds b (cnt bl b - 1)) b := by
        have q := s1_set bl b (cnt bl b - 1) b hb_lt hb_pos (Nat.le_refl _)
        have t : s1 bl bits = s1 bl b := by
          obtain ⟨d, hd⟩ : ∃ d, bits = b + d := ⟨bits - b, by omega⟩
          subst hd
          exact rsum_trunc d (fun j h1 h2 => hb3 (j + 1) (by omega) (by omega))
        omega
      have hl' : ∀ s ∈ rest.filterMap (·.leaf), s < (lens.setIfInBounds sym b).size := by
        intro s hs'
        simp only [Array.size_setIfInBounds]
        exact hl s (List.mem_cons_of_mem _ hs')
      obtain ⟨lens', r1, r2, r3⟩ := reassign_spec m hm2 rest b
        (bl.setIfInBounds b (cnt bl b - 1)) (lens.setIfInBounds sym b)
        (by omega) (by simp [hs]) hz' hc' hl'
      refine ⟨lens', ?_, by simpa using r2, ?_⟩
      · simp only [reassign, hx, hfb, ok_bind, hmod, aset_ok _ _ hsym, aget_cnt bl b _ hb_lt,
          aset_ok _ _ hb_lt, r1]
      · intro j hj
        have r3j := r3 j (by simpa using hj)
        by_cases hjr : j ∈ rest.filterMap (·.leaf)
        · exact ⟨fun _ => r3j.1 hjr, fun h => absurd (List.mem_cons_of_mem _ hjr) h⟩
        · have e := r3j.2 hjr
          by_cases hjs : j = sym
          · subst hjs
            refine ⟨fun _ => ?_, fun h => absurd List.mem_cons_self h⟩
            rw [e]
            simp [hsym]
            omega
          · refine ⟨fun h => ?_, fun _ => ?_⟩
            · rcases List.mem_cons.mp h with h | h
              · exact absurd h hjs
              · exact absurd h hjr
            · rw [e, Array.getElem?_setIfInBounds]
              have : ¬ sym = j := fun h => hjs h.symm
              simp [this]

/-! ### main theorem -/

theorem tail_spec (m : Nat) (hm1 : 1 ≤ m) (hm2 : m ≤ 15) (lens : Array Nat) (nodes : List Node)
    (hk : kraft lens.toList = 2 ^ 255)
    (hle : ∀ l ∈ lens.toList, l ≤ 255)
    (hnz : (lens.toList.filter (fun l => decide (0 < l))).length ≤ 2 ^ m)
    (hlt : ∀ s ∈ nodes.filterMap (·.leaf), s < lens.size)
    (hcount : (nodes.filterMap (·.leaf)).length ≤ (lens.toList.filter (fun l => decide (0 < l))).length) :
    ∃ bl ov, countLens m lens.toList (Array.replicate (m + 1) 0) 0 = .ok (bl, ov) ∧
      (ov = 0 → ∀ l ∈ lens.toList, l ≤ m) ∧
      (0 < ov → ∃ bl' lens', redistribute m ov bl = .ok bl' ∧
          reassign nodes m bl' lens = .ok lens' ∧ lens'.size = lens.size ∧
          ∀ i, i < lens.size →
            (i ∈ nodes.filterMap (·.leaf) → 1 ≤ lens'[i]?.getD 0 ∧ lens'[i]?.getD 0 ≤ m) ∧
            (i ∉ nodes.filterMap (·.leaf) → lens'[i]? = lens[i]?)) := by
  obtain ⟨bl, ov, hcl, hsz, hphi, hs1, hmge, hov⟩ :=
    countLens_spec m hm1 lens.toList (Array.replicate (m + 1) 0) 0 (by simp)
  have hphi0 : phi m (Array.replicate (m + 1) 0) = 0 :=
    rsum_zero (fun i _ => by simp only [cnt_replicate, Nat.zero_mul])
  have hs10 : s1 (Array.replicate (m + 1) 0) m = 0 :=
    rsum_zero (fun i _ => by simp only [cnt_replicate])
  have hc0 : cnt (Array.replicate (m + 1) 0) m = 0 := cnt_replicate _ _
  rw [hphi0, Nat.zero_add] at hphi
  rw [hs10, Nat.zero_add, ← filter_pos_length] at hs1
  rw [Nat.zero_add] at hov
  refine ⟨bl, ov, hcl, ?_, ?_⟩
  · intro h0
    exact sum_ind_zero m lens.toList (by omega)
  · intro _
    have hkey : ov ≤ 2 * phi m bl := by
      rw [hov, hphi]
      exact key_ineq m (by omega) lens.toList hle hk (by rw [← filter_pos_length]; exact hnz)
    have hovm : ov ≤ cnt bl m := by omega
    obtain ⟨bl', hr, hsz', hs1'⟩ := redistribute_spec m hm1 ov bl hsz hkey hovm
    obtain ⟨lens', hre, hsize, hall⟩ := reassign_spec m hm2 nodes m bl' lens (Nat.le_refl _) hsz'
      (fun j h1 h2 => by omega) (by omega) hlt
    exact ⟨bl', lens', hr, hre, hsize, hall⟩

end Preflate.HuffCalcT
