/- C05 composed for the concrete model of the public function: `decompress_deflate_stream` with the
   modelled estimator and the executable predictor never ends in a panic outcome or in exhausted fuel,
   for EVERY byte string and either verify setting. -/
import Preflate.Proofs.EstimateTotal
import Preflate.Proofs.EstimateRange
import Preflate.Proofs.TotalEnc
import Preflate.Proofs.Total
import Preflate.Proofs.Spec
namespace Preflate.Proofs
open Preflate

theorem chains_repredict_only_err (p : Params) (plain : Array Nat) (s : PState Chains.Chain) (e : Fail)
    (h : (Chains.pred p).repredictTok plain s = .error e) : e = .err := by
  change Chains.repredictTok p plain s = .error e at h
  unfold Chains.repredictTok at h
  split at h
  · cases h; rfl
  · split at h
    · split at h <;> cases h
      rfl
    · cases h; rfl

/-- every outcome of the model of `decompress_deflate_stream` is Ok or Err -/
theorem public_outcomes (verify : Bool) (d : List UInt8) :
    (∃ r, decompressStream Est.estimate Chains.pred verify d = .ok r) ∨
      decompressStream Est.estimate Chains.pred verify d = .error .err := by
  unfold decompressStream
  cases hp : parse d with
  | error e =>
    right
    have := parseBits_error (bytesToBits d) e hp
    subst this
    rfl
  | ok p =>
    simp only [ok_bind]
    obtain ⟨hv, hpad⟩ := parse_valid_unbounded (bytesToBits d) p hp
    have hsz : p.plain.size ≤ 2 ^ 31 - 1 := parse_plain_lt d p hp
    cases he : Est.estimate p.plain p.blocks with
    | error e =>
      right
      rcases EstTotal.estimate_outcomes p.plain p.blocks with ⟨q, hq⟩ | hq | ⟨s, _, hq⟩
      · rw [he] at hq; cases hq
      · rw [he] at hq; cases hq; rfl
      · exact absurd hq (EstTotal.estimate_no_panic' p.plain p.blocks hv hsz s)
    | ok q =>
      simp only [ok_bind]
      have hr := estimate_in_range p.plain p.blocks q hv he
      rw [writeParams_eq q (estimatorRange_wf q hr)]
      simp only [ok_bind]
      cases hb : encStream (Chains.pred q) p.plain p.blocks p.eofPadding with
      | error e =>
        right
        have := encStream_only_err (Chains.pred q) p.plain p.blocks p.eofPadding hv
          (fun s e he => chains_repredict_only_err q p.plain s e he) e hb
        subst this
        rfl
      | ok body =>
        left
        simp only [ok_bind]
        cases verify
        · exact ⟨_, rfl⟩
        · simp only [if_true, verifyStream_ok Chains.pred d p hp q hr _ (writeParams_eq q (estimatorRange_wf q hr)) body hb,
            ok_bind]
          exact ⟨_, rfl⟩

/-- no panic, no exhausted loop bound: for every byte string and either verify setting -/
theorem public_no_panic (verify : Bool) (d : List UInt8) (m : String) :
    decompressStream Est.estimate Chains.pred verify d ≠ .error (.panic m) ∧
    decompressStream Est.estimate Chains.pred verify d ≠ .error .fuel := by
  rcases public_outcomes verify d with ⟨r, h⟩ | h <;> rw [h] <;> constructor <;> (intro h'; cases h')

end Preflate.Proofs
