/- The array-encoded Huffman tree of huffman_helper.rs vs canonical-code decoding (C05 / C03 growth). -/
import Preflate.Model.HuffTree
namespace Preflate.Proofs
open Preflate

/-- index safety: for every length vector the validity check accepts, building the tree stays inside
    the allocated array and walking it never indexes out of range, whatever the input bits -/
theorem tree_index_safe (l : List Nat) (h : validLengths l = true) :
    ∃ t, buildTree l = .ok t ∧ ∀ bs m, decodeSymTree t bs ≠ .error (.panic m) := by
  sorry

/-- the tree walk decodes exactly what canonical-code matching decodes -/
theorem decodeSymTree_eq (l : List Nat) (h : validLengths l = true) (bs : Bits) :
    ∃ t, buildTree l = .ok t ∧ decodeSymTree t bs = decodeSym (codeTable l) bs := by
  sorry

end Preflate.Proofs
