/- The array-encoded Huffman tree of huffman_helper.rs vs canonical-code decoding (C05 / C03 growth). -/
import Preflate.Model.HuffTree
import Preflate.Proofs.HuffTreeWalk
namespace Preflate.Proofs
open Preflate

/-- `decode_symbol` starts at the root pair, the block of level 1 -/
theorem root_eq {l : List Nat} {t : Array Int} (ht : TreeOK l t) :
    (t.size : Int) - 2 = link l 0 0 := by
  have h1 : startOf l 0 = startOf l (0 + 1) + width l 1 := startOf_eq l (by omega)
  have h2 : width l 1 = 2 := by simp [width, cntP]
  have := ht.size
  unfold link
  omega

theorem mem_codeTable {l : List Nat} {c : Bits} {s : Nat} (h : (c, s) ∈ codeTable l) :
    c = codeBits l s ∧ s < l.length ∧ l.getD s 0 ≠ 0 := by
  simp only [codeTable, List.mem_filterMap, List.mem_range] at h
  obtain ⟨a, ha, hm⟩ := h
  split at hm
  · simp at hm
  · rename_i hne
    simp only [Option.some.injEq, Prod.mk.injEq] at hm
    obtain ⟨rfl, rfl⟩ := hm
    exact ⟨rfl, ha, hne⟩

theorem codeTable_mem {l : List Nat} {s : Nat} (hs : s < l.length) (hl : l.getD s 0 ≠ 0) :
    (codeBits l s, s) ∈ codeTable l := by
  simp only [codeTable, List.mem_filterMap, List.mem_range]
  exact ⟨s, hs, by rw [if_neg hl]⟩

theorem codeBits_length (l : List Nat) (s : Nat) : (codeBits l s).length = l.getD s 0 := by
  have : ∀ n v, (bitsOfNat n v).length = n := by
    intro n
    induction n with
    | zero => intro v; rfl
    | succ n ih => intro v; simp [bitsOfNat, ih]
  simp [codeBits, this]

theorem isPrefix_append (a b : Bits) : isPrefix a (a ++ b) = true := by
  induction a with
  | nil => rfl
  | cons x a ih => simp [isPrefix, ih]

/-- a table entry whose code is a prefix of the input is what the tree walk decodes -/
theorem walk_of_prefix {l : List Nat} {t : Array Int} (hc : Complete l) (ht : TreeOK l t)
    {c : Bits} {s : Nat} {bs : Bits} (hm : (c, s) ∈ codeTable l) (hp : isPrefix c bs = true) :
    decodeSymTree t bs = .ok (s, bs.drop c.length) := by
  obtain ⟨rfl, hs, hl⟩ := mem_codeTable hm
  have hbs := isPrefix_eq hp
  generalize bs.drop (codeBits l s).length = rest at hbs
  subst hbs
  unfold decodeSymTree
  rw [root_eq ht, List.length_append, codeBits_length,
    show l.getD s 0 + rest.length + 1 = (rest.length + 1) + l.getD s 0 by omega]
  exact walk_code hc ht s hs hl rest _

theorem decodeSymTree_spec {l : List Nat} {t : Array Int} (hc : Complete l) (ht : TreeOK l t)
    (bs : Bits) : decodeSymTree t bs = decodeSym (codeTable l) bs := by
  have hfwd := walk_fwd hc ht bs 0 0 (bs.length + 1) (by omega) (by simp [cntP])
    (by simp [width]) (by omega)
  rw [← root_eq ht] at hfwd
  change decodeSymTree t bs = .error .err ∨ ∃ s rest, decodeSymTree t bs = .ok (s, rest) ∧ _ at hfwd
  unfold decodeSym
  split
  · rename_i c s hf
    have hp : isPrefix c bs = true :=
      List.find?_some (p := fun e : Bits × Nat => isPrefix e.1 bs) hf
    rw [walk_of_prefix hc ht (List.mem_of_find?_eq_some hf) hp]
  · rename_i hf
    rcases hfwd with h | ⟨s, rest, h, hbs, hs, hl⟩
    · exact h
    · exfalso
      rw [List.find?_eq_none] at hf
      have := hf _ (codeTable_mem hs hl)
      simp only [bitsOfNat, List.reverse_nil, List.nil_append] at hbs
      rw [hbs, isPrefix_append] at this
      exact this rfl

/-- index safety: for every length vector the validity check accepts, building the tree stays inside
    the allocated array and walking it never indexes out of range, whatever the input bits -/
theorem tree_index_safe (l : List Nat) (h : validLengths l = true) :
    ∃ t, buildTree l = .ok t ∧ ∀ bs m, decodeSymTree t bs ≠ .error (.panic m) := by
  have hc := complete_of_valid h
  have ht := treeOK_blocks hc
  refine ⟨_, buildTree_eq hc, fun bs m => ?_⟩
  have hfwd := walk_fwd hc ht bs 0 0 (bs.length + 1) (by omega) (by simp [cntP])
    (by simp [width]) (by omega)
  rw [← root_eq ht] at hfwd
  change decodeSymTree _ bs = .error .err ∨ ∃ s rest, decodeSymTree _ bs = .ok (s, rest) ∧ _ at hfwd
  rcases hfwd with h | ⟨s, rest, h, _⟩ <;> rw [h] <;> simp

/-- the tree walk decodes exactly what canonical-code matching decodes -/
theorem decodeSymTree_eq (l : List Nat) (h : validLengths l = true) (bs : Bits) :
    ∃ t, buildTree l = .ok t ∧ decodeSymTree t bs = decodeSym (codeTable l) bs := by
  have hc := complete_of_valid h
  exact ⟨_, buildTree_eq hc, decodeSymTree_spec hc (treeOK_blocks hc) bs⟩

end Preflate.Proofs
