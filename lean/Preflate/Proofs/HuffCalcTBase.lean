/-
Basic lemmas for the total `calc_zlib::calc_bit_lengths` model (`Preflate.HuffCalcT`):
the `R` monad, `aget` / `aset`.
-/
import Preflate.Model.HuffCalcT
namespace Preflate.HuffCalcT

@[simp] theorem ok_bind {α β : Type} (a : α) (f : α → R β) :
    ((Except.ok a : R α) >>= f) = f a := rfl

@[simp] theorem error_bind {α β : Type} (e : Fail) (f : α → R β) :
    ((Except.error e : R α) >>= f) = Except.error e := rfl

@[simp] theorem pure_eq_ok {α : Type} (a : α) : (pure a : R α) = Except.ok a := rfl

@[simp] theorem panic_eq {α : Type} (s : String) : (panic s : R α) = Except.error (.panic s) := rfl

theorem aget_ok {α : Type} {a : Array α} {i : Nat} (site : String) (h : i < a.size) :
    aget a i site = .ok a[i] := by
  simp [aget, h]

theorem aget_of_getElem? {α : Type} {a : Array α} {i : Nat} {v : α} (site : String)
    (h : a[i]? = some v) : aget a i site = .ok v := by
  simp [aget, h]

theorem aget_eq_ok {α : Type} {a : Array α} {i : Nat} {site : String} {v : α}
    (h : aget a i site = .ok v) : a[i]? = some v := by
  unfold aget at h
  split at h
  · rename_i w hw; cases h; exact hw
  · cases h

theorem aset_ok {α : Type} {a : Array α} {i : Nat} (v : α) (site : String) (h : i < a.size) :
    aset a i v site = .ok (a.setIfInBounds i v) := by
  simp [aset, h]

theorem aset_eq_ok {α : Type} {a b : Array α} {i : Nat} {v : α} {site : String}
    (h : aset a i v site = .ok b) : i < a.size ∧ b = a.setIfInBounds i v := by
  unfold aset at h
  split at h
  · rename_i hi; cases h; exact ⟨hi, rfl⟩
  · cases h

end Preflate.HuffCalcT
