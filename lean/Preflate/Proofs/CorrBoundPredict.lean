/-
SIZE OF THE CORRECTION DATA, layer 3: blocks → operations (Model/Predict.lean), measured in decisions
(`opsCost`, Proofs/CorrBoundCodec.lean) against input bits (`blocksBits`, Proofs/CorrBoundParse.lean).

For a TIGHT predictor (`PredTight`: predicted match lengths ≤ 258, code lengths < 256 — both hold for
the executable predictor `Chains.pred`, Proofs/CorrBoundChains.lean) and a valid stream:

    token            : literal ≤ 2 decisions (≥ 1 input bit); reference ≤ 58 (≥ 2 input bits):
                       flag 2, length difference ≤ 517 (21), hop count ≤ 65535 (33), irregular-258 flag 2
    run-length item  : ≤ 32 (type difference ≤ 37: 13; datum difference ≤ 511: 19), ≥ 1 input bit
    code-length code : ≤ 19 (difference ≤ 511), 3 input bits
    block            : EOF flag 1, type ≤ 7, token count ≤ 65, counts ≤ 19, against ≥ 4 input bits

so every block costs at most 32 decisions per input bit, and the end of the stream 19 more.
-/
import Preflate.Proofs.OpsWF
import Preflate.Proofs.CorrBoundCodec
import Preflate.Proofs.CorrBoundParse
namespace Preflate.Proofs
open Preflate Gen

variable {H : Type}

-- ---------------------------------------------------------------------------------------------
-- the tight predictor

/-- a `pending_reference` of at most MAX_MATCH -/
def PendTight (p : Option (Nat × Nat)) : Prop := ∀ l d, p = some (l, d) → l ≤ 258

def PTokTight : PTok → Prop
  | .lit => True
  | .ref l _ => l ≤ 258

/-- predicted lengths never exceed MAX_MATCH = 258; code lengths are bytes -/
structure PredTight (P : Pred H) : Prop where
  predict : ∀ (plain : Array Nat) (s : PState H), PendTight s.pending →
    PTokTight (P.predictTok plain s).1 ∧ PendTight (P.predictTok plain s).2
  repredict : ∀ (plain : Array Nat) (s : PState H) (l d : Nat), PendTight s.pending →
    P.repredictTok plain s = .ok (l, d) → l ≤ 258
  bitlen : ∀ (freq : List Nat) (maxBits : Nat), ∀ x ∈ P.calcBitLengths freq maxBits, x < 256

theorem pendTight_none : PendTight (none : Option (Nat × Nat)) := fun _ _ h => by cases h

-- ---------------------------------------------------------------------------------------------
-- arithmetic

theorem encDiff_le (p a B : Nat) (hp : p ≤ B) (ha : a ≤ B) : encDiff p a ≤ 2 * B + 1 := by
  unfold encDiff
  split <;> omega

/-- cost of a correction that is at most `m < 2^k` -/
theorem opCost_corr_le' (ctx v m k : Nat) (hk : 1 ≤ k) (hv : v ≤ m) (hm : m < 2 ^ k) :
    opCost (.corr ctx v) ≤ 1 + 2 * k :=
  opCost_corr_le ctx v k hk (Nat.lt_of_le_of_lt hv hm)

-- ---------------------------------------------------------------------------------------------
-- tokens

theorem encRefTail_cost (P : Pred H) (plain : Array Nat) (ops0 : List Op) (plen pdist : Nat) (s2 : PState H)
    (len dist : Nat) (irr : Bool) (hplen : plen ≤ 258) (hlen : len ≤ 258)
    (hpend : PendTight s2.pending) :
    Post AnyFail (fun p => opsCost p.1 ≤ opsCost ops0 + 56 ∧ PendTight p.2.pending)
      (encRefTail P plain ops0 plen pdist s2 len dist irr) := by
  have hlenop : opCost (Op.corr C_LEN (encDiff plen len)) ≤ 21 :=
    opCost_corr_le' _ _ 517 10 (by omega) (encDiff_le _ _ 258 hplen hlen) (by decide)
  have h3 : opsCost (if len = 258 then [Op.mis M_IRREGULAR258 irr] else []) ≤ 2 := by
    split
    · have := opCost_mis_le M_IRREGULAR258 irr
      simpa using this
    · simp
  have hfin : ∀ (ops2 : List Op), opsCost ops2 ≤ 33 →
      (fun (p : List Op × PState H) => opsCost p.1 ≤ opsCost ops0 + 56 ∧ PendTight p.2.pending)
        (ops0 ++ [Op.corr C_LEN (encDiff plen len)] ++ ops2 ++
          (if len = 258 then [Op.mis M_IRREGULAR258 irr] else []),
        commit P plain s2 (Token.ref len dist irr)) := by
    intro ops2 h2
    refine ⟨?_, hpend⟩
    simp only [opsCost_append, opsCost_cons, opsCost_nil]
    omega
  have hhop : ∀ (ctx h : Nat), h ≤ 65535 → opsCost [Op.corr ctx h] ≤ 33 := by
    intro ctx h hh
    have := opCost_corr_le' ctx h 65535 16 (by omega) hh (by decide)
    simpa using this
  unfold encRefTail
  simp only
  split
  · refine Post.bind (calcHops_le P plain s2 len dist) (fun _ h => h) ?_
    intro h hh
    exact .ok _ (hfin _ (hhop _ _ hh))
  · split
    · refine Post.bind (calcHops_le P plain s2 len dist) (fun _ h => h) ?_
      intro h hh
      exact .ok _ (hfin _ (hhop _ _ hh))
    · exact .ok _ (hfin _ (hhop _ _ (by omega)))

/-- one token: at most 29 decisions per input bit it occupied -/
theorem encTok_cost (P : Pred H) (hb : PredTight P) (plain : Array Nat) (s : PState H) (t : Token)
    (ht : TokSmall t) (hpend : PendTight s.pending) :
    Post AnyFail (fun p => opsCost p.1 ≤ 29 * tokBits t ∧ PendTight p.2.pending) (encTok P plain s t) := by
  unfold encTok
  have hpr := hb.predict plain s hpend
  rcases hp : P.predictTok plain s with ⟨pt, pend⟩
  rw [hp] at hpr
  obtain ⟨hpt, hpend1⟩ := hpr
  simp only at hpt hpend1 ⊢
  cases t with
  | lit b =>
    refine .ok _ ⟨?_, hpend1⟩
    cases pt with
    | lit =>
      have := opCost_mis_le M_LITERAL_WRONG false
      simp only [opsCost_cons, opsCost_nil, tokBits]; omega
    | ref l d =>
      have := opCost_mis_le M_REFERENCE_WRONG true
      simp only [opsCost_cons, opsCost_nil, tokBits]; omega
  | ref len dist irr =>
    simp only
    refine Post.bind
      (Q := fun (q : List Op × Nat × Nat × PState H) =>
        opsCost q.1 ≤ 2 ∧ q.2.1 ≤ 258 ∧ PendTight q.2.2.2.pending) ?_ (fun _ h => h) ?_
    · cases pt with
      | lit =>
        simp only
        cases hr : P.repredictTok plain { s with pending := pend } with
        | error e => exact Post.anyErr _
        | ok ld =>
          obtain ⟨l, d⟩ := ld
          have hl := hb.repredict plain { s with pending := pend } l d hpend1 hr
          have := opCost_mis_le M_LITERAL_WRONG true
          exact .ok _ ⟨by simp only [opsCost_cons, opsCost_nil]; omega, hl, pendTight_none⟩
      | ref l d =>
        have := opCost_mis_le M_REFERENCE_WRONG false
        exact .ok _ ⟨by simp only [opsCost_cons, opsCost_nil]; omega, hpt, hpend1⟩
    · intro ⟨ops0, plen, pdist, s2⟩ ⟨h0, hpl, hp2⟩
      refine Post.mono (encRefTail_cost P plain ops0 plen pdist s2 len dist irr hpl ht hp2)
        (fun _ h => h) ?_
      intro p ⟨h1, h2⟩
      simp only at h0
      exact ⟨by simp only [tokBits]; omega, h2⟩

theorem encToks_cost (P : Pred H) (hb : PredTight P) (plain : Array Nat) :
    ∀ (ts : List Token) (s : PState H), (∀ t ∈ ts, TokSmall t) → PendTight s.pending →
      Post AnyFail (fun p => opsCost p.1 ≤ 29 * toksBits ts ∧ PendTight p.2.pending)
        (encToks P plain s ts) := by
  intro ts
  induction ts with
  | nil => intro s _ hp; exact .ok _ ⟨by simp, hp⟩
  | cons t ts ih =>
    intro s hts hp
    rw [encToks]
    refine Post.bind (encTok_cost P hb plain s t (hts t (List.mem_cons_self ..)) hp) (fun _ h => h) ?_
    intro ⟨a, s1⟩ ⟨ha, hp1⟩
    refine Post.bind (ih s1 (fun t' ht' => hts t' (List.mem_cons_of_mem _ ht')) hp1) (fun _ h => h) ?_
    intro ⟨b, s2⟩ ⟨hb2, hp2⟩
    refine .ok _ ⟨?_, hp2⟩
    simp only [opsCost_append, toksBits_cons] at *
    omega

-- ---------------------------------------------------------------------------------------------
-- dynamic header

theorem predictCodeData_lt256 (syms : List Nat) (kind : Nat) (hs : ∀ x ∈ syms, x < 256) :
    predictCodeData syms kind < 256 := by
  unfold predictCodeData
  simp only
  split
  · cases syms with
    | nil => simp
    | cons a l => simpa using hs a (List.mem_cons_self ..)
  · split
    · have := takeWhile_length_le (· == syms.headD 0) ((syms.take 6).drop 3)
      simp only [List.length_drop, List.length_take] at this
      omega
    · split
      · have := takeWhile_length_le (· == 0) ((syms.take 10).drop 3)
        simp only [List.length_drop, List.length_take] at this
        omega
      · have := takeWhile_length_le (· == 0) ((syms.take 138).drop 11)
        simp only [List.length_drop, List.length_take] at this
        omega

/-- one run-length item: at most 32 decisions -/
theorem encLdTrees_cost : ∀ (items : List RleItem) (syms : List Nat) (prev : Option Nat),
    (∀ it ∈ items, Tree.ItemOk it) → (∀ x ∈ syms, x < 256) →
    Post AnyFail (fun ops => opsCost ops ≤ 32 * items.length) (encLdTrees syms prev items) := by
  intro items
  induction items with
  | nil => intro syms prev _ _; exact .ok _ (by simp)
  | cons it rest ih =>
    intro syms prev hit hs
    have hok : Tree.ItemOk it := hit it (List.mem_cons_self ..)
    rw [encLdTrees]
    split
    · exact Post.anyErr _
    · split
      · exact Post.anyErr _
      · simp only
        refine Post.bind (ih (syms.drop (itemSpan it)) _
          (fun it' h' => hit it' (List.mem_cons_of_mem _ h'))
          (fun x hx => hs x (List.mem_of_mem_drop hx))) (fun _ h => h) ?_
        intro r hr
        have hpt := predictCodeType_le syms prev
        have hpd := predictCodeData_lt256 syms it.kind hs
        have hkind : it.kind ≤ 18 ∧ it.data ≤ 138 := by
          unfold Tree.ItemOk at hok; omega
        have ha : opCost (Op.corr C_LD_TYPE (encDiff (predictCodeType syms prev) it.kind)) ≤ 13 :=
          opCost_corr_le' _ _ 37 6 (by omega) (encDiff_le _ _ 18 hpt hkind.1) (by decide)
        have hdl : ∀ ctx, opCost (Op.corr ctx (encDiff (predictCodeData syms it.kind) it.data)) ≤ 19 :=
          fun ctx => opCost_corr_le' _ _ 511 9 (by omega)
            (encDiff_le _ _ 255 (by omega) (by omega)) (by decide)
        refine .ok _ ?_
        simp only [opsCost_cons, List.length_cons]
        split
        · have := hdl C_REPEAT_COUNT; omega
        · have := hdl C_LD_BITLEN; omega

theorem encTcLengths_cost (tc cl : List Nat) (htc : ∀ x ∈ tc, x < 256) (hcl : ∀ x ∈ cl, x < 8) :
    ∀ (n i : Nat), opsCost (encTcLengths tc cl n i) ≤ 19 * n := by
  intro n
  induction n with
  | zero => intro i; simp [encTcLengths]
  | succ n ih =>
    intro i
    rw [encTcLengths]
    have h1 := getD_lt (B := 256) (by omega) tc htc (TREE_CODE_ORDER_TABLE.getD i 0)
    have h2 := getD_lt (B := 8) (by omega) cl hcl (TREE_CODE_ORDER_TABLE.getD i 0)
    have := opCost_corr_le' C_TREECODE_BITLEN
      (encDiff (tc.getD (TREE_CODE_ORDER_TABLE.getD i 0) 0) (cl.getD (TREE_CODE_ORDER_TABLE.getD i 0) 0))
      511 9 (by omega) (encDiff_le _ _ 255 (by omega) (by omega)) (by decide)
    have := ih (i + 1)
    simp only [opsCost_cons]
    omega

/-- the tree of a dynamic block -/
theorem encTree_cost (P : Pred H) (hb : PredTight P) (h : Header) (hv : HeaderValid h)
    (freq : List Nat × List Nat) :
    Post AnyFail (fun ops => opsCost ops ≤ 19 + 32 * h.items.length + 19 * h.numCodeLengths)
      (encTree P h freq) := by
  have hB : (0 : Nat) < 256 := by decide
  unfold encTree
  have hbl0 := hb.bitlen freq.1 15
  have hdl0 := hb.bitlen freq.2 15
  generalize P.calcBitLengths freq.1 15 = bl0 at hbl0
  generalize P.calcBitLengths freq.2 15 = dl0 at hdl0
  simp only
  generalize hbl1 : (if bl0.length ≠ h.numLiterals then resizeTo bl0 h.numLiterals else bl0) = bl1
  generalize hdl1 : (if dl0.length ≠ h.numDist then resizeTo dl0 h.numDist else dl0) = dl1
  have hbl1b : ∀ x ∈ bl1, x < 256 := by
    subst hbl1; split
    · exact resizeTo_lt hB _ hbl0 _
    · exact hbl0
  have hdl1b : ∀ x ∈ dl1, x < 256 := by
    subst hdl1; split
    · exact resizeTo_lt hB _ hdl0 _
    · exact hdl0
  have hsyms : ∀ x ∈ bl1 ++ dl1, x < 256 := by
    intro x hx
    rcases List.mem_append.mp hx with hx | hx
    · exact hbl1b x hx
    · exact hdl1b x hx
  split
  · exact Post.anyErr _
  · refine Post.bind (encLdTrees_cost h.items (bl1 ++ dl1) none hv.items_kind hsyms) (fun _ h => h) ?_
    intro c hc
    have htc0 := hb.bitlen (codetreeFreq h.items (List.replicate CODETREE_CODE_COUNT 0)) 7
    generalize P.calcBitLengths (codetreeFreq h.items (List.replicate CODETREE_CODE_COUNT 0)) 7 = tc0
      at htc0
    have htcl := encTcLengths_cost (resizeTo tc0 CODETREE_CODE_COUNT) h.codeLengths
      (resizeTo_lt hB _ htc0 _) hv.cl_small h.numCodeLengths 0
    refine .ok _ ?_
    have ha : opsCost ([Op.mis M_LITERAL_COUNT (decide (bl0.length ≠ h.numLiterals))] ++
        (if bl0.length ≠ h.numLiterals then [Op.value 5 ((h.numLiterals - 257) % 65536)] else [])) ≤ 7 := by
      by_cases hx : bl0.length = h.numLiterals <;> simp [hx, opCost]
    have hb' : opsCost ([Op.mis M_DISTANCE_COUNT (decide (dl0.length ≠ h.numDist))] ++
        (if dl0.length ≠ h.numDist then [Op.value 5 ((h.numDist - 1) % 65536)] else [])) ≤ 7 := by
      by_cases hx : dl0.length = h.numDist <;> simp [hx, opCost]
    have hd : opsCost (if tcLenNoTrailing tc0 tc0.length ≠ h.numCodeLengths then
        [Op.mis M_TREECODE_COUNT true, Op.value 4 ((h.numCodeLengths - 4) % 65536)]
      else [Op.mis M_TREECODE_COUNT false]) ≤ 5 := by
      split <;> simp [opCost]
    simp only [opsCost_append] at ha hb' ⊢
    omega

-- ---------------------------------------------------------------------------------------------
-- blocks

/-- the position-independent part of `ValidBlock` -/
def BlockSmall : Block → Prop
  | .stored pad _ => pad < 256
  | .fixed ts => (∀ t ∈ ts, TokSmall t) ∧ ts.length < 2 ^ 32 - 1
  | .dynamic h ts => (∀ t ∈ ts, TokSmall t) ∧ ts.length < 2 ^ 32 - 1 ∧ HeaderValid h

theorem blockSmall_of_valid (plain : Array Nat) (pos : Nat) (b : Block) (hv : ValidBlock plain pos b) :
    BlockSmall b := by
  cases b with
  | stored pad data => exact hv.1
  | fixed ts => exact ⟨validToks_small plain ts _ hv.1, hv.2⟩
  | dynamic h ts => exact ⟨validToks_small plain ts _ hv.1, hv.2.1, hv.2.2⟩

theorem blocksSmall_of_valid (plain : Array Nat) : ∀ (blocks : List Block) (pos : Nat),
    ValidBlocks plain pos blocks → ∀ b ∈ blocks, BlockSmall b := by
  intro blocks
  induction blocks with
  | nil => intro _ _ b hb; cases hb
  | cons b0 rest ih =>
    intro pos hv b hb
    obtain ⟨hv0, hvr⟩ := hv
    rcases List.mem_cons.mp hb with rfl | hb
    · exact blockSmall_of_valid plain pos _ hv0
    · exact ih _ hvr b hb

theorem encTokBlock_cost (P : Pred H) (hb : PredTight P) (plain : Array Nat) (s : PState H) (btn : Nat)
    (ts : List Token) (last : Bool) (tree : R (List Op)) (T : Nat) (hbtn : btn ≤ 2)
    (hn : ts.length < 2 ^ 32 - 1) (hts : ∀ t ∈ ts, TokSmall t) (hp : PendTight s.pending)
    (ht : Post AnyFail (fun ops => opsCost ops ≤ T) tree) :
    Post AnyFail (fun p => opsCost p.1 ≤ 72 + 29 * toksBits ts + T)
      (encTokBlock P plain s btn ts last tree) := by
  unfold encTokBlock
  simp only
  split
  · exact Post.anyErr _
  · refine Post.bind (encToks_cost P hb plain ts s hts hp) (fun _ h => h) ?_
    intro ⟨tokOps, s1⟩ ⟨htok, hp1⟩
    refine Post.bind ht (fun _ h => h) ?_
    intro treeOps htree
    refine .ok _ ?_
    have hbt : opCost (Op.corr C_BLOCK_TYPE (encDiff 0 btn)) ≤ 7 :=
      opCost_corr_le' _ _ 5 3 (by omega) (encDiff_le _ _ 2 (by omega) hbtn) (by decide)
    have htc : ∀ v, v ≤ ts.length + 1 → opCost (Op.corr C_TOKEN_COUNT v) ≤ 65 := fun v hv =>
      opCost_corr_le C_TOKEN_COUNT v 32 (by omega) (by omega)
    simp only [opsCost_cons, opsCost_append] at htok ⊢
    split
    · have := htc (ts.length + 1) (by omega); omega
    · have := htc 0 (by omega); omega

/-- one block: at most 32 decisions per input bit, with one to spare for the EOF flag -/
theorem encBlock_cost (P : Pred H) (hb : PredTight P) (plain : Array Nat) (s : PState H) (b : Block)
    (last : Bool) (hv : BlockSmall b) :
    Post AnyFail (fun p => opsCost p.1 + 1 ≤ 32 * blockBits b) (encBlock P plain s b last) := by
  cases b with
  | stored pad data =>
    refine .ok _ ?_
    have h1 : opCost (Op.corr C_BLOCK_TYPE (encDiff 0 (blockTypeNum (.stored pad data)))) ≤ 5 :=
      opCost_corr_le' _ _ 3 2 (by omega) (by simp [encDiff, blockTypeNum]) (by decide)
    have h2 : opCost (Op.corr C_NONZERO_PADDING pad) ≤ 17 :=
      opCost_corr_le _ _ 8 (by omega) (by simpa [BlockSmall] using hv)
    simp only [opsCost_cons, opsCost_nil, blockBits]
    simp only [opCost] at h1 h2 ⊢
    omega
  | fixed ts =>
    rw [encBlock_fixed]
    refine Post.mono (encTokBlock_cost P hb plain _ _ ts last _ 0 (by omega) hv.2 hv.1 pendTight_none
      (.ok _ (by simp))) (fun _ h => h) ?_
    intro p hp
    simp only [blockBits]
    omega
  | dynamic h ts =>
    rw [encBlock_dynamic]
    refine Post.mono (encTokBlock_cost P hb plain _ _ ts last _ _ (by omega) hv.2.1 hv.1 pendTight_none
      (encTree_cost P hb h hv.2.2 _)) (fun _ h => h) ?_
    intro p hp
    simp only [blockBits]
    omega

theorem encBlocks_cost (P : Pred H) (hb : PredTight P) (plain : Array Nat) :
    ∀ (blocks : List Block) (s : PState H), (∀ b ∈ blocks, BlockSmall b) →
      Post AnyFail (fun p => opsCost p.1 ≤ 32 * blocksBits blocks) (encBlocks P plain s blocks) := by
  intro blocks
  induction blocks with
  | nil => intro s _; exact .ok _ (by simp)
  | cons b rest ih =>
    intro s hv
    rw [encBlocks]
    simp only
    refine Post.bind (encBlock_cost P hb plain s b rest.isEmpty (hv b (List.mem_cons_self ..)))
      (fun _ h => h) ?_
    intro ⟨a, s1⟩ ha
    refine Post.bind (ih s1 (fun b' h' => hv b' (List.mem_cons_of_mem _ h'))) (fun _ h => h) ?_
    intro ⟨r, s2⟩ hr
    refine .ok _ ?_
    have heof : opsCost (if s.eof plain = true then [Op.mis M_EOF true] else []) ≤ 1 := by
      split <;> simp [opCost]
    simp only [opsCost_append, blocksBits_cons] at ha hr ⊢
    omega

theorem encStream_cost_post (P : Pred H) (hb : PredTight P) (plain : Array Nat) (blocks : List Block)
    (pad : Nat) (hv : StreamValid plain blocks) (hpad : pad < 256) :
    Post AnyFail (fun ops => opsCost ops ≤ 32 * blocksBits blocks + 19) (encStream P plain blocks pad) := by
  obtain ⟨_, hvb, _⟩ := hv
  unfold encStream
  simp only
  refine Post.bind (encBlocks_cost P hb plain blocks ⟨P.init, none, 0, 0⟩
    (blocksSmall_of_valid plain blocks 0 hvb)) (fun _ h => h) ?_
  intro ⟨ops, s⟩ hops
  simp only at hops ⊢
  split
  · exact Post.anyErr _
  · refine .ok _ ?_
    have h2 : opCost (Op.corr C_NONZERO_PADDING pad) ≤ 17 :=
      opCost_corr_le _ _ 8 (by omega) (by omega)
    have h3 : opCost (Op.mis M_EOF false) = 2 := by simp [opCost]
    simp only [opsCost_append, opsCost_cons, opsCost_nil, h3]
    omega

/-- **layer 3, fine form**: a tight predictor spends at most 32 decisions per input bit -/
theorem encStream_cost (P : Pred H) (hb : PredTight P) (plain : Array Nat) (blocks : List Block)
    (pad : Nat) (hv : StreamValid plain blocks) (hpad : pad < 256)
    (ops : List Op) (he : encStream P plain blocks pad = .ok ops) :
    opsCost ops ≤ 32 * blocksBits blocks + 19 := by
  have h := encStream_cost_post P hb plain blocks pad hv hpad
  rw [he] at h
  have := Post.ok_iff.mp h
  exact this

end Preflate.Proofs
