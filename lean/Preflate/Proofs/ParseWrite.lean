/-
Completeness direction of C07: every well-formed block list (`Model/WriteValid.lean`) is written
without a failure, and the parser reads the written stream back as exactly that block list, that
plain text and that padding, whatever follows the stream.
-/
import Preflate.Proofs.ParseWriteBlock
import Preflate.Proofs.ParseWriteConv
import Preflate.Proofs.Stream
namespace Preflate.Proofs
open Preflate Preflate.Gen
set_option linter.unusedSimpArgs false
set_option linter.unusedVariables false

theorem padCount_add (n : Nat) : (n + padCount n) % 8 = 0 := by unfold padCount; omega

/-- the writer does not fail on a well-formed block list; what it writes is byte aligned; and the
    parser inverts it, whatever (byte aligned) follows -/
theorem parse_write_bits_aligned (plain : Array Nat) (blocks : List Block) (pad : Nat)
    (hw : WellFormed plain blocks pad) :
    ∃ w, writeStreamBits blocks pad = .ok w ∧ w.length % 8 = 0 ∧
      ∀ rest, rest.length % 8 = 0 → parseBits (w ++ rest) = .ok ⟨blocks, pad, plain, rest⟩ := by
  obtain ⟨⟨hne, hvb, hend⟩, hcoded⟩ := hw
  obtain ⟨x, hx, hn, hpad, hr⟩ := writeBlocks_read pad blocks 0 0 hne hvb hcoded
  simp only [Nat.zero_add] at hpad hr
  have hal := padCount_add x.length
  refine ⟨x ++ padBits x.length pad, ?_, ?_, ?_⟩
  · simp only [writeStreamBits, hx, ok_bind]
  · simp only [List.length_append, padBits, length_bitsOfNat]; exact hal
  · intro rest hrest
    obtain ⟨cur', h1, h2⟩ := hr #[] (pre_empty plain) (padBits x.length pad ++ rest)
      ((x ++ (padBits x.length pad ++ rest)).length + 1) (by simp only [List.length_append]; omega)
      (by simp only [List.length_append, padBits, length_bitsOfNat]; omega)
    rw [hend] at h2
    have := pre_full h2
    subst this
    have hlen : (padBits x.length pad ++ rest).length % 8 = padCount x.length := by
      apply mod8_eq_padCount
      simp only [List.length_append, padBits, length_bitsOfNat]; omega
    simp only [parseBits, List.append_assoc, h1, ok_bind, hlen]
    simp only [padBits, readBits_app hpad, ok_bind]

theorem parse_write_bits (plain : Array Nat) (blocks : List Block) (pad : Nat)
    (hw : WellFormed plain blocks pad) :
    ∃ w, writeStreamBits blocks pad = .ok w ∧
      ∀ rest, rest.length % 8 = 0 → parseBits (w ++ rest) = .ok ⟨blocks, pad, plain, rest⟩ := by
  obtain ⟨w, h1, _, h2⟩ := parse_write_bits_aligned plain blocks pad hw
  exact ⟨w, h1, h2⟩

theorem parse_write (plain : Array Nat) (blocks : List Block) (pad : Nat)
    (hw : WellFormed plain blocks pad) :
    ∃ bytes, writeStream blocks pad = .ok bytes ∧
      ∀ x : List UInt8, parse (bytes ++ x) = .ok ⟨blocks, pad, plain, bytesToBits x⟩ := by
  obtain ⟨w, h1, h8, h2⟩ := parse_write_bits_aligned plain blocks pad hw
  refine ⟨bitsToBytes w, by simp only [writeStream, h1, ok_bind], ?_⟩
  intro x
  unfold parse
  rw [bytesToBits_append, bytesToBits_bitsToBytes (w.length / 8) w (by omega)]
  exact h2 _ (by rw [length_bytesToBits]; omega)

/-- what the parser returns is well formed (`StreamValid` from `parse_valid_unbounded`, the rest
    from `parseBits_coded`) -/
theorem parse_wellFormed (d : List UInt8) (p : Parsed) (h : parse d = .ok p) :
    WellFormed p.plain p.blocks p.eofPadding :=
  ⟨(parse_valid_unbounded _ p h).1,
    parseBits_coded _ (by rw [length_bytesToBits]; omega) p h⟩

/-- the parser accepts exactly the serialisations of well-formed block lists (followed by anything),
    and returns that block list -/
theorem parse_iff (d : List UInt8) (p : Parsed) :
    parse d = .ok p ↔ ∃ bytes x, WellFormed p.plain p.blocks p.eofPadding ∧
      writeStream p.blocks p.eofPadding = .ok bytes ∧ d = bytes ++ x ∧ p.rest = bytesToBits x := by
  constructor
  · intro h
    refine ⟨d.take (p.consumed d), d.drop (p.consumed d), parse_wellFormed d p h,
      (write_parse d p h).1, (List.take_append_drop _ _).symm, ?_⟩
    have := parse_prefix d p h (d.drop (p.consumed d))
    rw [List.take_append_drop, h] at this
    simp only [Except.ok.injEq] at this
    exact congrArg Parsed.rest this
  · rintro ⟨bytes, x, hw, hws, rfl, hrest⟩
    obtain ⟨bytes', h1, h2⟩ := parse_write _ _ _ hw
    rw [hws] at h1
    simp only [Except.ok.injEq] at h1
    subst h1
    rw [h2 x]
    obtain ⟨b, e, pl, r⟩ := p
    simp only at hrest
    rw [hrest]

end Preflate.Proofs
