/- What the parser guarantees about its result (StreamValid), and the end-to-end composition.

   Side condition (added; see `Model/Valid.lean` `ValidBlock`, which demands `ts.length < 2 ^ 32 - 1`
   because `predict_block` does `u32::try_from(block.tokens.len()).unwrap() + 1`): the parser bounds
   the number of tokens of a block only by the number of input bits (every token consumes at least
   one), so the statements assume the compressed input is shorter than 2^32 - 1 bits, i.e. shorter
   than 2^29 bytes (512 MiB). Lemmas: `ExpandsBase` (growth of the plaintext, `copyRef`, `pushAll`),
   `ExpandsHeader` (`HeaderValid` of `readHeader`), `ExpandsTok` (tokens, blocks). -/
import Preflate.Proofs.Deflate
import Preflate.Proofs.Predict
import Preflate.Proofs.ExpandsTok
namespace Preflate.Proofs
open Preflate

/-- the parser's result is a valid expansion of the plaintext it returns, PROVIDED every block's
    token count fits (what `predict_block` unwraps); everything else is unconditional -/
theorem parse_valid_of_counts (bs : Bits) (p : Parsed) (h : parseBits bs = .ok p)
    (hn : ∀ b ∈ p.blocks, (blockTokens b).length < 2 ^ 32 - 1) :
    StreamValid p.plain p.blocks ∧ p.eofPadding < 256 := by
  simp only [parseBits, bind_eq_ok] at h
  obtain ⟨⟨blocks, plain, bs1⟩, h1, ⟨pad, bs2⟩, h2, h⟩ := h
  simp only [Except.ok.injEq] at h2 h
  subst h
  simp only at hn ⊢
  obtain ⟨_, e2, e3, e4, _⟩ := readBlocks_valid h1
  obtain ⟨_, hpad⟩ := readBits_ok h2
  refine ⟨⟨e4, e3 hn, by simpa using e2.symm⟩, ?_⟩
  have : (2:Nat) ^ (bs1.length % 8) ≤ 2 ^ 7 := Nat.pow_le_pow_right (by omega) (by omega)
  have : (2:Nat) ^ 7 = 128 := by decide
  omega

/-- every block has fewer tokens than the input has bits -/
theorem parse_counts (bs : Bits) (p : Parsed) (h : parseBits bs = .ok p) :
    ∀ b ∈ p.blocks, (blockTokens b).length < bs.length := by
  simp only [parseBits, bind_eq_ok] at h
  obtain ⟨⟨blocks, plain, bs1⟩, h1, ⟨pad, bs2⟩, h2, h⟩ := h
  simp only [Except.ok.injEq] at h2 h
  subst h
  exact (readBlocks_valid h1).2.2.2.2

/-- the blocks the parser returns are a valid expansion of the plaintext it returns -/
theorem parse_valid (bs : Bits) (hbs : bs.length < 2 ^ 32 - 1) (p : Parsed)
    (h : parseBits bs = .ok p) :
    StreamValid p.plain p.blocks ∧ p.eofPadding < 256 :=
  parse_valid_of_counts bs p h fun b hb => Nat.lt_trans (parse_counts bs p h b hb) hbs

end Preflate.Proofs
