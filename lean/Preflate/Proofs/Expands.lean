/- What the parser guarantees about its result (StreamValid), and the end-to-end composition. -/
import Preflate.Proofs.Deflate
import Preflate.Proofs.Predict
namespace Preflate.Proofs
open Preflate

/-- the blocks the parser returns are a valid expansion of the plaintext it returns -/
theorem parse_valid (bs : Bits) (p : Parsed) (h : parseBits bs = .ok p) :
    StreamValid p.plain p.blocks ∧ p.eofPadding < 256 := by
  sorry

variable {H : Type}

/-- end to end, for ANY predictor: if analysing an accepted stream yields corrections, then
    reconstruction from those corrections followed by the block writer returns exactly the bytes
    the parser consumed -/
theorem recompress_analyze (P : Pred H) (d : List UInt8) (p : Parsed) (hp : parse d = .ok p)
    (ops : List Op) (he : encStream P p.plain p.blocks p.eofPadding = .ok ops) :
    ∃ blocks pad, decStream P p.plain ops = .ok (blocks, pad, []) ∧
      writeStream blocks pad = .ok (d.take (p.consumed d)) := by
  sorry

end Preflate.Proofs
