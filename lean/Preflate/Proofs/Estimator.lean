/- The front part of the parameter estimator lands inside `EstimatorRange`'s field ranges and has no
   panic path on parsed streams (C08 / C05 growth; D1 and D8 regressions as theorems). -/
import Preflate.Model.Estimator
import Preflate.Model.Valid
import Preflate.Proofs.Deflate
namespace Preflate.Proofs
open Preflate Preflate.Est

/-! ### the add-policy state machine: offsets and failure modes -/

/-- the only failure `estimate_add_policy` can produce -/
def addPanic : Fail := .panic "estimate_add_policy: subtract with overflow"

theorem addLiteral_offset (s : AddState) : (addLiteral s).offset = s.offset + 1 := rfl

theorem addLiterals_offset (data : List Nat) (s : AddState) :
    (data.foldl (fun s _ => addLiteral s) s).offset = s.offset + data.length := by
  induction data generalizing s with
  | nil => rfl
  | cons d ds ih =>
    rw [List.foldl_cons, ih, addLiteral_offset, List.length_cons]; omega

theorem addReference_ok (s : AddState) (len dist : Nat) (h : dist ≤ s.offset) :
    ∃ s', addReference s len dist = .ok s' ∧ s'.offset = s.offset + len := by
  unfold addReference
  rw [if_neg (by omega)]
  exact ⟨_, rfl, rfl⟩

theorem addReference_cases (s : AddState) (len dist : Nat) :
    (∃ s', addReference s len dist = .ok s') ∨ addReference s len dist = .error addPanic := by
  unfold addReference
  split
  · right; rfl
  · left; exact ⟨_, rfl⟩

theorem addTokens_ok (plain : Array Nat) (ts : List Token) :
    ∀ (s : AddState) (pos : Nat), s.offset = pos → ValidToks plain pos ts →
      ∃ s', addTokens s ts = .ok s' ∧ s'.offset = toksEnd pos ts := by
  induction ts with
  | nil => intro s pos hs _; exact ⟨s, rfl, hs⟩
  | cons t ts ih =>
    intro s pos hs hv
    obtain ⟨ht, hrest⟩ := hv
    cases t with
    | lit b =>
      simp only [addTokens, toksEnd]
      exact ih (addLiteral s) _ (by rw [addLiteral_offset, hs]; rfl) hrest
    | ref len dist irr =>
      have hd : dist ≤ s.offset := by
        have := ht.2.2.2.1
        omega
      obtain ⟨s1, h1, ho1⟩ := addReference_ok s len dist hd
      simp only [addTokens, toksEnd, h1, ok_bind]
      exact ih s1 _ (by rw [ho1, hs]; rfl) hrest

theorem addTokens_cases (ts : List Token) :
    ∀ s : AddState, (∃ s', addTokens s ts = .ok s') ∨ addTokens s ts = .error addPanic := by
  induction ts with
  | nil => intro s; left; exact ⟨s, rfl⟩
  | cons t ts ih =>
    intro s
    cases t with
    | lit b => simp only [addTokens]; exact ih _
    | ref len dist irr =>
      simp only [addTokens]
      rcases addReference_cases s len dist with ⟨s1, h1⟩ | h1
      · rw [h1, ok_bind]; exact ih s1
      · right; rw [h1]; rfl

theorem addBlocks_ok (plain : Array Nat) (bs : List Block) :
    ∀ (s : AddState) (pos : Nat), s.offset = pos → ValidBlocks plain pos bs →
      ∃ s', addBlocks s bs = .ok s' := by
  induction bs with
  | nil => intro s _ _ _; exact ⟨s, rfl⟩
  | cons b bs ih =>
    intro s pos hs hv
    obtain ⟨hb, hrest⟩ := hv
    cases b with
    | stored pad data =>
      simp only [addBlocks]
      exact ih _ _ (by rw [addLiterals_offset, hs]; rfl) hrest
    | fixed ts =>
      obtain ⟨s1, h1, ho1⟩ := addTokens_ok plain ts s pos hs hb.1
      simp only [addBlocks, h1, ok_bind]
      exact ih s1 _ ho1 hrest
    | dynamic h ts =>
      obtain ⟨s1, h1, ho1⟩ := addTokens_ok plain ts s pos hs hb.1
      simp only [addBlocks, h1, ok_bind]
      exact ih s1 _ ho1 hrest

theorem addBlocks_cases (bs : List Block) :
    ∀ s : AddState, (∃ s', addBlocks s bs = .ok s') ∨ addBlocks s bs = .error addPanic := by
  induction bs with
  | nil => intro s; left; exact ⟨s, rfl⟩
  | cons b bs ih =>
    intro s
    cases b with
    | stored pad data => simp only [addBlocks]; exact ih _
    | fixed ts =>
      simp only [addBlocks]
      rcases addTokens_cases ts s with ⟨s1, h1⟩ | h1
      · rw [h1, ok_bind]; exact ih s1
      · right; rw [h1]; rfl
    | dynamic h ts =>
      simp only [addBlocks]
      rcases addTokens_cases ts s with ⟨s1, h1⟩ | h1
      · rw [h1, ok_bind]; exact ih s1
      · right; rw [h1]; rfl

/-- the decision tail of `estimate_add_policy` -/
def addDecide (s : AddState) : Nat × Nat :=
  if s.maxLength = 0 ∧ s.block4k then (3, 0)
  else if !s.lastOutside32k then (4, 0)
  else if s.maxLengthLastAdd < s.maxLength ∧ s.maxLengthLastAdd ≤ 255 then (2, s.maxLengthLastAdd)
  else if s.maxLength ≤ 255 then (1, s.maxLength)
  else (0, 0)

theorem addPolicy_eq (blocks : List Block) :
    addPolicy blocks =
      (addBlocks { window := Array.replicate 32768 0 } blocks >>= fun s => .ok (addDecide s)) := by
  unfold addPolicy
  congr 1
  funext s
  unfold addDecide
  split
  · rfl
  · split
    · rfl
    · split
      · rfl
      · split <;> rfl

theorem addDecide_range (s : AddState) :
    (addDecide s).1 ≤ 4 ∧ (addDecide s).2 ≤ 255 ∧
      ((addDecide s).1 ≠ 1 → (addDecide s).1 ≠ 2 → (addDecide s).2 = 0) := by
  unfold addDecide
  split
  · simp
  · split
    · simp
    · split
      · rename_i h; simp; exact h.2
      · split
        · rename_i h; simp; exact h
        · simp

theorem addPolicy_ok_of_valid (plain : Array Nat) (blocks : List Block)
    (hv : ValidBlocks plain 0 blocks) : ∃ p, addPolicy blocks = .ok p := by
  obtain ⟨s, hs⟩ := addBlocks_ok plain blocks { window := Array.replicate 32768 0 } 0 rfl hv
  exact ⟨addDecide s, by rw [addPolicy_eq, hs, ok_bind]⟩

theorem addPolicy_cases (blocks : List Block) :
    (∃ p, addPolicy blocks = .ok p) ∨ addPolicy blocks = .error addPanic := by
  rw [addPolicy_eq]
  rcases addBlocks_cases blocks { window := Array.replicate 32768 0 } with ⟨s, hs⟩ | hs
  · left; exact ⟨addDecide s, by rw [hs, ok_bind]⟩
  · right; rw [hs]; rfl

/-- stretch goal 4: the add policy is a discriminant 0..4, the limit fits the 8-bit field (D8) and
    is zero for the policies that carry none -/
theorem addPolicy_limit_fits (blocks : List Block) (pol lim : Nat)
    (h : Est.addPolicy blocks = .ok (pol, lim)) :
    pol ≤ 4 ∧ lim ≤ 255 ∧ (pol ≠ 1 → pol ≠ 2 → lim = 0) := by
  rw [addPolicy_eq, bind_eq_ok] at h
  obtain ⟨s, _, hs⟩ := h
  have hd : addDecide s = (pol, lim) := by injection hs
  have := addDecide_range s
  rw [hd] at this
  exact this

/-! ### strategy / window bits / mem level -/

theorem strategy_cases (i : Info) :
    strategy i = 0 ∨ strategy i = 1 ∨ strategy i = 2 ∨ strategy i = 3 := by
  unfold strategy
  split
  · simp
  · split
    · simp
    · split <;> simp

theorem huffStrategy_le (i : Info) : huffStrategy i ≤ 2 := by
  unfold huffStrategy
  split
  · omega
  · split <;> omega

theorem windowBits_range (d : Nat) : 9 ≤ windowBits d ∧ windowBits d ≤ 15 := by
  unfold windowBits; omega

theorem memLevel_range (n : Nat) : 1 ≤ memLevel n ∧ memLevel n ≤ 9 := by
  unfold memLevel; omega

/-- `front` in two branches -/
theorem front_eq (blocks : List Block) :
    Est.front blocks =
      if strategy (extractInfo blocks) = 3 ∨ strategy (extractInfo blocks) = 2 then
        .ok ⟨strategy (extractInfo blocks), huffStrategy (extractInfo blocks), true, 0, 16386, 0, 0⟩
      else
        (addPolicy blocks >>= fun p =>
          .ok ⟨strategy (extractInfo blocks), huffStrategy (extractInfo blocks), false,
            windowBits (extractInfo blocks).maxDist,
            2 ^ (6 + memLevel (extractInfo blocks).maxTokensPerBlock) - 1, p.1, p.2⟩) := by
  unfold Est.front
  rfl

/-! ### the three statements -/

/-- on what the parser returns, the estimator's front part has no panic path (the only candidate is
    the u32 subtraction `current_offset - dist` of estimate_add_policy) -/
theorem front_no_panic (plain : Array Nat) (blocks : List Block) (hv : StreamValid plain blocks) (m : String) :
    Est.front blocks ≠ .error (.panic m) := by
  rw [front_eq]
  split
  · intro h; cases h
  · obtain ⟨p, hp⟩ := addPolicy_ok_of_valid plain blocks hv.2.1
    rw [hp, ok_bind]
    intro h; cases h

/-- stretch goal 5: on every block list (valid or not) the front part either succeeds or fails with
    the one overflow panic of estimate_add_policy; there is no other failure and no fuel -/
theorem front_total (blocks : List Block) :
    (∃ f, Est.front blocks = .ok f) ∨
      Est.front blocks = .error (.panic "estimate_add_policy: subtract with overflow") := by
  rw [front_eq]
  split
  · left; exact ⟨_, rfl⟩
  · rcases addPolicy_cases blocks with ⟨p, hp⟩ | hp
    · left; rw [hp, ok_bind]; exact ⟨_, rfl⟩
    · right; rw [hp]; rfl

/-- the fields computed without the candidate hash tables are inside the ranges `EstimatorRange`
    quantifies over: strategy and Huffman strategy discriminants, the no-dictionary vector, window
    bits 9..15, block size 2^(6+m) - 1 with m in 1..9, add policy 0..4 with a limit that fits the
    8-bit field (D8) and is zero for the policies that carry none -/
theorem front_in_range (blocks : List Block) (f : Front) (h : Est.front blocks = .ok f) :
    f.strategy ≤ 3 ∧ f.huffStrategy ≤ 2 ∧
    (f.noDictionary = true → (f.strategy = 2 ∨ f.strategy = 3) ∧ f.windowBits = 0 ∧
        f.maxTokenCount = 16386 ∧ f.addPolicy = 0 ∧ f.addLimit = 0) ∧
    (f.noDictionary = false → f.strategy ≤ 1 ∧ 9 ≤ f.windowBits ∧ f.windowBits ≤ 15 ∧
        (∃ m, 1 ≤ m ∧ m ≤ 9 ∧ f.maxTokenCount = 2 ^ (6 + m) - 1) ∧
        f.addPolicy ≤ 4 ∧ f.addLimit ≤ 255 ∧ (f.addPolicy ≠ 1 → f.addPolicy ≠ 2 → f.addLimit = 0)) := by
  rw [front_eq] at h
  have hsc := strategy_cases (extractInfo blocks)
  have hhs := huffStrategy_le (extractInfo blocks)
  split at h
  · rename_i hst
    injection h with h
    subst h
    refine ⟨by simp only; omega, hhs, ?_, ?_⟩
    · intro _; exact ⟨by simp only; omega, rfl, rfl, rfl, rfl⟩
    · intro hc; cases hc
  · rename_i hst
    rw [bind_eq_ok] at h
    obtain ⟨⟨pol, lim⟩, hp, h⟩ := h
    injection h with h
    subst h
    have hpl := addPolicy_limit_fits blocks pol lim hp
    have hw := windowBits_range (extractInfo blocks).maxDist
    have hm := memLevel_range (extractInfo blocks).maxTokensPerBlock
    refine ⟨by simp only; omega, hhs, ?_, ?_⟩
    · intro hc; cases hc
    · intro _
      exact ⟨by simp only; omega, hw.1, hw.2, ⟨_, hm.1, hm.2, rfl⟩, hpl.1, hpl.2.1, hpl.2.2⟩

/-! ### D1: no reference → no dictionary -/

/-- the fold step of `extract_preflate_info` -/
def infoStep (i : Info) (b : Block) : Info :=
  match b with
  | .stored _ _ => { i with countStored := i.countStored + 1 }
  | .fixed ts | .dynamic _ ts =>
      let md := blockMaxDist ts
      { i with
        countStaticHuff := i.countStaticHuff + (match b with | .fixed _ => 1 | _ => 0)
        maxTokensPerBlock := max i.maxTokensPerBlock ts.length
        maxDist := max i.maxDist md
        minLen := min i.minLen (blockMinLen ts)
        referenceCount := i.referenceCount + blockRefs ts
        countHuff := i.countHuff + (if md = 0 then 1 else 0)
        countRle := i.countRle + (if md = 1 then 1 else 0) }

theorem extractInfo_eq (blocks : List Block) :
    extractInfo blocks = blocks.foldl infoStep { countBlocks := blocks.length } := rfl

theorem infoStep_countBlocks (i : Info) (b : Block) :
    (infoStep i b).countBlocks = i.countBlocks := by
  cases b <;> rfl

theorem infoStep_sum (i : Info) (b : Block) (h : blockMaxDist (blockTokens b) = 0) :
    (infoStep i b).countHuff + (infoStep i b).countStored = i.countHuff + i.countStored + 1 := by
  cases b with
  | stored pad data => simp only [infoStep]; omega
  | fixed ts =>
    simp only [blockTokens] at h
    simp only [infoStep, h, if_true]; omega
  | dynamic hd ts =>
    simp only [blockTokens] at h
    simp only [infoStep, h, if_true]; omega

theorem foldl_infoStep_inv (blocks : List Block) :
    ∀ i : Info, (∀ b ∈ blocks, blockMaxDist (blockTokens b) = 0) →
      (blocks.foldl infoStep i).countBlocks = i.countBlocks ∧
      (blocks.foldl infoStep i).countHuff + (blocks.foldl infoStep i).countStored =
        i.countHuff + i.countStored + blocks.length := by
  induction blocks with
  | nil => intro i _; exact ⟨rfl, rfl⟩
  | cons b bs ih =>
    intro i h
    have hb := h b (List.mem_cons_self ..)
    have := ih (infoStep i b) (fun b' hb' => h b' (List.mem_cons_of_mem _ hb'))
    rw [List.foldl_cons, List.length_cons]
    rw [infoStep_countBlocks, infoStep_sum i b hb] at this
    exact ⟨this.1, by omega⟩

theorem strategy_no_references (blocks : List Block)
    (h : ∀ b ∈ blocks, blockMaxDist (blockTokens b) = 0) :
    strategy (extractInfo blocks) = 3 ∨ strategy (extractInfo blocks) = 2 := by
  have hinv := foldl_infoStep_inv blocks { countBlocks := blocks.length } h
  rw [← extractInfo_eq] at hinv
  have h2 : (extractInfo blocks).countHuff + (extractInfo blocks).countStored =
      (extractInfo blocks).countBlocks := by
    rw [hinv.1, hinv.2]; simp
  unfold strategy
  by_cases hc : (extractInfo blocks).countStored = (extractInfo blocks).countBlocks
  · left; rw [if_pos hc]
  · right; rw [if_neg hc, if_pos h2]

/-- D1 regression: a stream without any reference (stored and match-free Huffman blocks in any mix)
    is estimated as Store or HuffOnly, i.e. takes the no-dictionary path on which `min_len` is not
    used (it was left at u32::MAX and `write` panicked) -/
theorem no_references_no_dictionary (blocks : List Block)
    (h : ∀ b ∈ blocks, blockMaxDist (blockTokens b) = 0) (f : Front) (hf : Est.front blocks = .ok f) :
    f.noDictionary = true := by
  rw [front_eq, if_pos (strategy_no_references blocks h)] at hf
  injection hf with hf
  subst hf
  rfl

end Preflate.Proofs
