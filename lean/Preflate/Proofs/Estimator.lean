/- The front part of the parameter estimator lands inside `EstimatorRange`'s field ranges and has no
   panic path on parsed streams (C08 / C05 growth; D1 and D8 regressions as theorems). -/
import Preflate.Model.Estimator
import Preflate.Model.Valid
namespace Preflate.Proofs
open Preflate Preflate.Est

/-- on what the parser returns, the estimator's front part has no panic path (the only candidate is
    the u32 subtraction `current_offset - dist` of estimate_add_policy) -/
theorem front_no_panic (plain : Array Nat) (blocks : List Block) (hv : StreamValid plain blocks) (m : String) :
    Est.front blocks ≠ .error (.panic m) := by
  sorry

/-- the fields computed without the candidate hash tables are inside the ranges `EstimatorRange`
    quantifies over: strategy and Huffman strategy discriminants, the no-dictionary vector, window
    bits 9..15, block size 2^(6+m) - 1 with m in 1..9, add policy 0..4 with a limit that fits the
    8-bit field (D8) and is zero for the policies that carry none -/
theorem front_in_range (blocks : List Block) (f : Front) (h : Est.front blocks = .ok f) :
    f.strategy ≤ 3 ∧ f.huffStrategy ≤ 2 ∧
    (f.noDictionary = true → (f.strategy = 2 ∨ f.strategy = 3) ∧ f.windowBits = 0 ∧
        f.maxTokenCount = 16386 ∧ f.addPolicy = 0 ∧ f.addLimit = 0) ∧
    (f.noDictionary = false → f.strategy ≤ 1 ∧ 9 ≤ f.windowBits ∧ f.windowBits ≤ 15 ∧
        (∃ m, 1 ≤ m ∧ m ≤ 9 ∧ f.maxTokenCount = 2 ^ (6 + m) - 1) ∧
        f.addPolicy ≤ 4 ∧ f.addLimit ≤ 255 ∧ (f.addPolicy ≠ 1 → f.addPolicy ≠ 2 → f.addLimit = 0)) := by
  sorry

/-- D1 regression: a stream without any reference (stored and match-free Huffman blocks in any mix)
    is estimated as Store or HuffOnly, i.e. takes the no-dictionary path on which `min_len` is not
    used (it was left at u32::MAX and `write` panicked) -/
theorem no_references_no_dictionary (blocks : List Block)
    (h : ∀ b ∈ blocks, blockMaxDist (blockTokens b) = 0) (f : Front) (hf : Est.front blocks = .ok f) :
    f.noDictionary = true := by
  sorry

end Preflate.Proofs
