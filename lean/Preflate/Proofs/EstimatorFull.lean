/- Full estimator (Model/EstimatorFull.lean): the array-table arrangement of the hash functions
   equals the validated functions of Model/Chains.lean; the complete vector extends `Est.front`. -/
import Preflate.Model.EstimatorFull
namespace Preflate.Proofs
open Preflate Preflate.Est

theorem hash3AtA_eq (plain : Array Nat) (i : Nat) : hash3AtA plain i = Chains.hash3At plain i := by
  simp [hash3AtA, Chains.hash3At, Nat.shiftLeft_eq]

theorem hashAtA_eq (p : Params) (plain : Array Nat) (i : Nat) : hashAtA p plain i = Chains.hashAt p plain i := by
  unfold hashAtA Chains.hashAt
  split <;> simp [Nat.shiftLeft_eq, RANDOM_VECTOR_A, CRC32C_TABLE_A]
  all_goals (split <;> try split) <;> simp_all

/-- the complete estimator extends the validated front part: the fields `front` determines are
    taken from it unchanged (so the range theorems about `front` carry over) -/
theorem estimate_front {plain : Array Nat} {blocks : List Block} {p : Params}
    (h : estimate plain blocks = .ok p) :
    ∃ f, front blocks = .ok f ∧ p.strategy = f.strategy ∧ p.huffStrategy = f.huffStrategy ∧
      p.windowBits = f.windowBits ∧ p.maxTokenCount = f.maxTokenCount ∧
      p.addPolicy = f.addPolicy ∧ p.addLimit = f.addLimit := by
  unfold estimate at h
  cases hf : front blocks with
  | error e => simp [hf, bind, Except.bind] at h
  | ok f =>
    refine ⟨f, rfl, ?_⟩
    simp only [hf, bind, Except.bind] at h
    split at h
    · rename_i hnd
      have hfr := hf
      unfold front at hfr
      simp only [bind, Except.bind] at hfr
      split at hfr
      · cases hfr; cases h; simp
      · split at hfr
        · cases hfr
        · rename_i x y hx
          obtain ⟨a, b⟩ := y
          simp at hfr
          cases hfr
          simp at hnd
    · split at h
      · cases h
      · cases h; simp

end Preflate.Proofs

