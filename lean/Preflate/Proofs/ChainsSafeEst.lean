/- `Proofs/ChainsSafe.lean` composed with the estimator's choice of the add policy. -/
import Preflate.Proofs.ChainsSafe
import Preflate.Proofs.Estimator4k
namespace Preflate.Proofs
open Preflate Preflate.Chains

/-- the main theorem without the 4 KiB side condition, for the add policy the estimator itself
    chooses (`estimate_add_policy` answers the 4 KiB-boundary policy only when no reference starts in
    the last three bytes of a 4 KiB page: `addPolicy_4k`) -/
theorem encStreamChk_ok_estimated (p : Params) (plain : Array Nat) (blocks : List Block)
    (hr : EstimatorRange p) (hlz : LazyDepthOK p) (hsz : plain.size < 2147483648)
    (hv : StreamValid plain blocks) (pol lim : Nat)
    (he : Est.addPolicy blocks = .ok (pol, lim)) (hp : p.addPolicy = pol) :
    encStreamChk p plain blocks = .ok () := by
  refine encStreamChk_ok p plain blocks hr hlz hsz hv (fun h3 => ?_)
  rw [← hp, h3] at he
  exact addPolicy_4k blocks lim he

end Preflate.Proofs
