/- Helper lemmas for C10 (codec round trip). See Props/C10.lean for the statements. -/
import Preflate.Model.Codec
namespace Preflate.Proofs
open Preflate

theorem decode_encode (ops : List Op) (hwf : ∀ o ∈ ops, o.WF) (rest : List Ev) :
    ∃ evs, encodeOps 0 ops = .ok evs ∧
      decodeOps 0 (ops.map Op.kind) (evs ++ rest) = .ok (ops, 0, rest) := by
  sorry

theorem default_count_le_one (c : Nat) (op : Op) (evs : List Ev) (c' : Nat)
    (h : encodeOp c op = .ok (evs, c')) : c' ≤ 1 := by
  sorry

end Preflate.Proofs
