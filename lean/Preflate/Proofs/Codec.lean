/- Helper lemmas for C10 (codec round trip). See Props/C10.lean for the statements. -/
import Preflate.Model.Codec
namespace Preflate.Proofs
open Preflate

theorem getBit_cons (c : Option CtxId) (b : Bool) (rest : List Ev) :
    getBit c (⟨c, b⟩ :: rest) = .ok (b, rest) := by simp [getBit]

theorem putUnary_length (fam row v i : Nat) : (putUnary fam row v i).length = v + 1 := by
  induction v generalizing i with
  | zero => simp [putUnary]
  | succ v ih => simp [putUnary, ih]

theorem getUnary_putUnary (fam row v i fuel : Nat) (rest : List Ev) (h : v < fuel) :
    getUnary fam row fuel i (putUnary fam row v i ++ rest) = .ok (i + v, rest) := by
  induction v generalizing i fuel with
  | zero =>
    cases fuel with
    | zero => omega
    | succ f => simp [getUnary, putUnary, getBit_cons, bind, Except.bind]
  | succ v ih =>
    cases fuel with
    | zero => omega
    | succ f =>
      simp only [getUnary, putUnary, List.cons_append, getBit_cons, bind, Except.bind, if_true]
      rw [ih (i + 1) f (by omega)]
      congr 2; omega

theorem testBit_split (bits n : Nat) :
    bits % 2 ^ (n + 1) = (if bits.testBit n then 2 ^ n else 0) + bits % 2 ^ n := by
  rw [Nat.mod_pow_succ, Nat.testBit_eq_decide_div_mod_eq]
  have : bits / 2 ^ n % 2 = 0 ∨ bits / 2 ^ n % 2 = 1 := by omega
  rcases this with h | h <;> simp [h] <;> omega

theorem getNBits_putNBits (fam row bits n : Nat) (rest : List Ev) :
    getNBits fam row n (putNBits fam row bits n ++ rest) = .ok (bits % 2 ^ n, rest) := by
  induction n with
  | zero => simp [getNBits, putNBits, Nat.mod_one]
  | succ n ih =>
    simp only [getNBits, putNBits, List.cons_append, getBit_cons, bind, Except.bind, ih]
    rw [testBit_split]

theorem readBypass_writeBypass (v n acc : Nat) (rest : List Ev) :
    readBypass n acc (writeBypass v n ++ rest) = .ok (acc * 2 ^ n + v % 2 ^ n, rest) := by
  induction n generalizing acc with
  | zero => simp [readBypass, writeBypass, Nat.mod_one]
  | succ n ih =>
    simp only [readBypass, writeBypass, List.cons_append, getBit_cons, bind, Except.bind, ih]
    rw [testBit_split]
    congr 2
    split <;> simp [Nat.pow_succ, Nat.add_mul, Nat.mul_assoc, Nat.mul_comm 2] <;> omega

theorem bitLength_bounds (v : Nat) (hv : v ≠ 0) :
    2 ^ (bitLength v - 1) ≤ v ∧ v < 2 ^ bitLength v ∧ 1 ≤ bitLength v := by
  cases v with
  | zero => exact absurd rfl hv
  | succ n =>
    simp only [bitLength, Nat.add_sub_cancel]
    exact ⟨Nat.log2_self_le hv, Nat.lt_log2_self, by omega⟩

theorem bitLength_lt_32 (v : Nat) (h : v < 2 ^ 31) : bitLength v < 32 := by
  cases v with
  | zero => simp [bitLength]
  | succ n =>
    simp only [bitLength]
    have := (Nat.log2_lt (n := n + 1) (k := 31) (by omega)).2 h
    omega

theorem readExp_writeExp (fam row v : Nat) (evs rest : List Ev)
    (h : writeExp fam row v = .ok evs) : readExp fam row (evs ++ rest) = .ok (v, rest) := by
  unfold writeExp at h
  simp only at h
  split at h
  · cases h
  · by_cases hv : v = 0
    · subst hv
      simp [bitLength] at h
      subst h
      simp only [readExp]
      rw [getUnary_putUnary _ _ _ _ _ _ (by simp [putUnary_length])]
      simp [bind, Except.bind]
    · obtain ⟨hlo, hhi, h1⟩ := bitLength_bounds v hv
      generalize bitLength v = bl at *
      split at h
      · cases h
        simp only [readExp, List.append_assoc]
        rw [getUnary_putUnary _ _ _ _ _ _ (by simp [putUnary_length]; omega)]
        have h0 : ¬ (0 + bl = 0) := by omega
        have h1' : ¬ (0 + bl = 1) := by omega
        simp only [bind, Except.bind, h0, h1', if_false]
        rw [show 0 + bl - 1 = bl - 1 by omega, getNBits_putNBits]
        simp only [Nat.mod_eq_of_lt hhi]
        congr 2
        have : v < 2 ^ (bl - 1 + 1) := by rw [show bl - 1 + 1 = bl by omega]; exact hhi
        rw [Nat.pow_succ] at this
        have hm := Nat.mod_add_div v (2 ^ (bl - 1))
        have : v / 2 ^ (bl - 1) = 1 := by
          have a : v / 2 ^ (bl - 1) < 2 := (Nat.div_lt_iff_lt_mul (Nat.two_pow_pos _)).2 (by omega)
          have b : 1 ≤ v / 2 ^ (bl - 1) := (Nat.le_div_iff_mul_le (Nat.two_pow_pos _)).2 (by omega)
          omega
        rw [this] at hm; omega
      · have : bl = 1 := by omega
        subst this
        have : v = 1 := by simp at hlo hhi; omega
        subst this
        cases h
        simp only [readExp]
        rw [getUnary_putUnary _ _ _ _ _ _ (by simp [putUnary_length]; omega)]
        simp [bind, Except.bind]

theorem writeExp_ok (fam row v : Nat) (h : v < 2 ^ 31) : ∃ evs, writeExp fam row v = .ok evs := by
  have := bitLength_lt_32 v h
  unfold writeExp
  simp only
  rw [if_neg (by omega)]
  split <;> exact ⟨_, rfl⟩

/-- the events a pending default count (0 or 1) is flushed to -/
def pre (c : Nat) : List Ev := if c = 0 then [] else putUnary 0 0 1 0

theorem writeDefault_zero : writeDefault 0 = .ok (putUnary 0 0 0 0) := by
  simp [writeDefault, writeExp, bitLength]

theorem writeDefault_one : writeDefault 1 = .ok (putUnary 0 0 1 0) := by
  have : bitLength 1 = 1 := by
    have := bitLength_bounds 1 (by omega)
    have h2 : bitLength 1 < 2 := by
      apply Nat.lt_of_not_le
      intro hge
      have : 2 ^ 1 ≤ 2 ^ (bitLength 1 - 1) := Nat.pow_le_pow_right (by omega) (by omega)
      omega
    omega
  simp [writeDefault, writeExp, this]

theorem flushDefault_eq (c : Nat) (hc : c ≤ 1) : flushDefault c = .ok (pre c) := by
  have : c = 0 ∨ c = 1 := by omega
  rcases this with rfl | rfl
  · simp [flushDefault, pre]
  · simp [flushDefault, pre, writeDefault_one]

theorem readDefault_zero (rest : List Ev) :
    readExp 0 0 (putUnary 0 0 0 0 ++ rest) = .ok (0, rest) :=
  readExp_writeExp 0 0 0 _ rest writeDefault_zero

theorem readDefault_one (rest : List Ev) :
    readExp 0 0 (putUnary 0 0 1 0 ++ rest) = .ok (1, rest) :=
  readExp_writeExp 0 0 1 _ rest writeDefault_one

theorem aux (ops : List Op) (hwf : ∀ o ∈ ops, o.WF) (c : Nat) (hc : c ≤ 1) :
    ∃ evs, encodeOps c ops = .ok (pre c ++ evs) ∧
      ∀ rest, decodeOps 0 (ops.map Op.kind) (evs ++ rest) = .ok (ops, 0, rest) := by
  induction ops generalizing c with
  | nil => exact ⟨[], by simp [encodeOps, flushDefault_eq c hc], fun rest => by simp [decodeOps]⟩
  | cons op ops ih =>
    have hwf' : ∀ o ∈ ops, o.WF := fun o ho => hwf o (List.mem_cons_of_mem _ ho)
    have hop : op.WF := hwf op List.mem_cons_self
    obtain ⟨e0, he0, hd0⟩ := ih hwf' 0 (by omega)
    obtain ⟨e1, he1, hd1⟩ := ih hwf' 1 (by omega)
    simp only [pre, if_true, List.nil_append] at he0
    simp only [pre, if_false, Nat.one_ne_zero] at he1
    cases op with
    | value bits v =>
      obtain ⟨hb1, hb16, hv⟩ := hop
      refine ⟨writeBypass v bits ++ e0, ?_, fun rest => ?_⟩
      · simp [encodeOps, encodeOp, flushDefault_eq c hc, bind, Except.bind, he0]
      · have h16 : v < 65536 := Nat.lt_of_lt_of_le hv
          (by simpa using Nat.pow_le_pow_right (n := 2) (by omega) hb16)
        simp only [List.map_cons, Op.kind, decodeOps, decodeOp, List.append_assoc,
          readBypass_writeBypass, bind, Except.bind]
        simp [Nat.mod_eq_of_lt hv, Nat.mod_eq_of_lt h16, hd0]
    | mis ctx flag =>
      cases flag with
      | true =>
        refine ⟨putUnary 0 0 0 0 ++ e0, ?_, fun rest => ?_⟩
        · simp [encodeOps, encodeOp, flushDefault_eq c hc, bind, Except.bind, he0,
            writeDefault_zero]
        · simp [decodeOps, decodeOp, Op.kind, readDefault_zero, bind, Except.bind, hd0]
      | false =>
        refine ⟨putUnary 0 0 1 0 ++ e1, ?_, fun rest => ?_⟩
        · simp [encodeOps, encodeOp, flushDefault_eq c hc, bind, Except.bind, he1]
        · simp [decodeOps, decodeOp, Op.kind, readDefault_one, bind, Except.bind, hd1]
    | corr ctx v =>
      by_cases hv0 : v = 0
      · subst hv0
        refine ⟨putUnary 0 0 1 0 ++ e1, ?_, fun rest => ?_⟩
        · simp [encodeOps, encodeOp, flushDefault_eq c hc, bind, Except.bind, he1]
        · simp [decodeOps, decodeOp, Op.kind, readDefault_one, bind, Except.bind, hd1]
      · obtain ⟨w, hw⟩ := writeExp_ok 2 ctx v hop.2
        refine ⟨putUnary 0 0 0 0 ++ w ++ e0, ?_, fun rest => ?_⟩
        · simp [encodeOps, encodeOp, flushDefault_eq c hc, bind, Except.bind, he0,
            writeDefault_zero, hv0, hw]
        · simp [decodeOps, decodeOp, Op.kind, readDefault_zero, bind, Except.bind, hd0,
            readExp_writeExp 2 ctx v w _ hw]

theorem decode_encode (ops : List Op) (hwf : ∀ o ∈ ops, o.WF) (rest : List Ev) :
    ∃ evs, encodeOps 0 ops = .ok evs ∧
      decodeOps 0 (ops.map Op.kind) (evs ++ rest) = .ok (ops, 0, rest) := by
  obtain ⟨evs, h1, h2⟩ := aux ops hwf 0 (by omega)
  exact ⟨evs, by simpa [pre] using h1, h2 rest⟩

theorem default_count_le_one (c : Nat) (op : Op) (evs : List Ev) (c' : Nat)
    (h : encodeOp c op = .ok (evs, c')) : c' ≤ 1 := by
  cases op with
  | value bits v =>
    simp only [encodeOp, bind, Except.bind] at h
    split at h
    · cases h
    · cases h; omega
  | mis ctx flag =>
    simp only [encodeOp, bind, Except.bind] at h
    split at h
    · cases h
    · split at h
      · split at h
        · cases h
        · cases h; omega
      · cases h; omega
  | corr ctx v =>
    simp only [encodeOp, bind, Except.bind] at h
    split at h
    · cases h
    · split at h
      · split at h
        · cases h
        · split at h
          · cases h
          · cases h; omega
      · cases h; omega

end Preflate.Proofs
