/- C06: the scanner finds embedded streams. Helper lemmas: ScanBase (no panics, equational forms of
   the header parsers), ScanLoop (loop totality, arrival at a signature), ScanWrap (the parsers on
   the specification-side wrappers). `Quiet` and `NoPanic` are defined in ScanBase. -/
import Preflate.Proofs.ScanWrap
namespace Preflate.Proofs
open Preflate

theorem found_zlib (o : Oracle) (crc : Bytes → Nat) (pre suf s : Bytes) (h1 : Nat) (r : Res)
    (hh : h1 ∈ zlibSecond) (hnp : NoPanic o)
    (hacc : o.verified (s ++ suf) = .ok r) (hbig : r.plain.length > Gen.MIN_BLOCKSIZE)
    (hq : Quiet o crc (pre ++ zlibWrap h1 s ++ suf) pre.length pre.length) :
    ∃ before prev after, prev ≤ pre.length ∧
      scan o crc (pre ++ zlibWrap h1 s ++ suf) =
        .ok (before ++ [.literal (pre.length + 2 - prev), .deflate r] ++ after) := by
  have hsrc : pre ++ zlibWrap h1 s ++ suf = pre ++ (0x78 :: h1 :: (s ++ suf)) := by
    simp [zlibWrap]
  rw [hsrc] at hq ⊢
  refine found_at hnp hq (Nat.le_refl _) (by simp) (sg := .zlib) ?_
    (fun prev => [.literal (pre.length + 2 - prev), .deflate r]) ?_
  · have := getD_pre pre (0x78 :: h1 :: (s ++ suf)) 0
    have := getD_pre pre (0x78 :: h1 :: (s ++ suf)) 1
    simp only [Nat.add_zero] at *
    simp only [*]
    simp only [zlibSecond, List.mem_cons, List.not_mem_nil, or_false] at hh
    rcases hh with rfl | rfl | rfl | rfl <;> (simp only [List.getD_cons_zero, List.getD_cons_succ]; decide)
  · intro prev hp
    refine ⟨pre.length + 2 + r.size, ?_⟩
    have hd : (pre ++ (0x78 :: h1 :: (s ++ suf))).drop (pre.length + 2) = s ++ suf := by
      rw [drop_pre]; rfl
    simp only [scanAt, hd, probe_of_ok hacc, bind, Except.bind, hbig, if_true]

theorem found_gzip (o : Oracle) (crc : Bytes → Nat) (pre suf s : Bytes) (g : GzipFields) (r : Res)
    (hg : g.WF) (hnp : NoPanic o)
    (hacc : o.verified (s ++ suf) = .ok r) (hbig : r.plain.length > Gen.MIN_BLOCKSIZE)
    (hq : Quiet o crc (pre ++ gzipHeader g ++ s ++ suf) pre.length pre.length) :
    ∃ before prev after, prev ≤ pre.length ∧
      scan o crc (pre ++ gzipHeader g ++ s ++ suf) =
        .ok (before ++ [.literal (pre.length + (gzipHeader g).length - prev), .deflate r] ++ after) := by
  have hsrc : pre ++ gzipHeader g ++ s ++ suf = pre ++ (gzipHeader g ++ (s ++ suf)) := by
    simp only [List.append_assoc]
  rw [hsrc] at hq ⊢
  have hhd : ∃ t, gzipHeader g = 0x1f :: 0x8b :: t := ⟨_, by rw [gzipHeader]; rfl⟩
  obtain ⟨t, ht⟩ := hhd
  refine found_at hnp hq (Nat.le_refl _) ?_ (sg := .gzip) ?_
    (fun prev => [.literal (pre.length + (gzipHeader g).length - prev), .deflate r]) ?_
  · rw [ht]; simp
  · have h0 := getD_pre pre (gzipHeader g ++ (s ++ suf)) 0
    have h1 := getD_pre pre (gzipHeader g ++ (s ++ suf)) 1
    rw [Nat.add_zero] at h0
    rw [h0, h1, ht]
    simp only [List.cons_append, List.getD_cons_zero, List.getD_cons_succ]
    decide
  · intro prev hp
    refine ⟨pre.length + (gzipHeader g).length + r.size, ?_⟩
    have hd0 : (pre ++ (gzipHeader g ++ (s ++ suf))).drop pre.length = gzipHeader g ++ (s ++ suf) :=
      List.drop_left
    have hd : (pre ++ (gzipHeader g ++ (s ++ suf))).drop (pre.length + (gzipHeader g).length) = s ++ suf := by
      rw [drop_pre, List.drop_left]
    simp only [scanAt, hd0, probe_of_ok (skipGzipHeader_gzipHeader g hg (s ++ suf)), hd, probe_of_ok hacc,
      bind, Except.bind, hbig, if_true]

theorem found_zip (o : Oracle) (crc : Bytes → Nat) (pre suf s : Bytes) (z : ZipFields) (r : Res)
    (hn : z.name.length < 65536) (hx : z.extra.length < 65536) (hnp : NoPanic o)
    (hacc : o.verified (s ++ suf) = .ok r) (hbig : r.plain.length > Gen.MIN_BLOCKSIZE)
    (hq : Quiet o crc (pre ++ zipHeader z ++ s ++ suf) pre.length pre.length) :
    ∃ before prev after, prev ≤ pre.length ∧
      scan o crc (pre ++ zipHeader z ++ s ++ suf) =
        .ok (before ++ [.literal (pre.length + (zipHeader z).length - prev), .deflate r] ++ after) := by
  have hsrc : pre ++ zipHeader z ++ s ++ suf = pre ++ (zipHeader z ++ (s ++ suf)) := by
    simp only [List.append_assoc]
  rw [hsrc] at hq ⊢
  have hhd : ∃ t, zipHeader z = 0x50 :: 0x4b :: t := ⟨_, by rw [zipHeader]; rfl⟩
  obtain ⟨t, ht⟩ := hhd
  refine found_at hnp hq (Nat.le_refl _) ?_ (sg := .zip) ?_
    (fun prev => [.literal (pre.length + (zipHeader z).length - prev), .deflate r]) ?_
  · rw [ht]; simp
  · have h0 := getD_pre pre (zipHeader z ++ (s ++ suf)) 0
    have h1 := getD_pre pre (zipHeader z ++ (s ++ suf)) 1
    rw [Nat.add_zero] at h0
    rw [h0, h1, ht]
    simp only [List.cons_append, List.getD_cons_zero, List.getD_cons_succ]
    decide
  · intro prev hp
    refine ⟨pre.length + (zipHeader z).length + r.size, ?_⟩
    have hd0 : (pre ++ (zipHeader z ++ (s ++ suf))).drop pre.length = zipHeader z ++ (s ++ suf) :=
      List.drop_left
    have he : pre.length - prev + (zipHeader z).length = pre.length + (zipHeader z).length - prev := by
      omega
    simp only [scanAt, hd0, probe_of_ok (parseZipStream_zipHeader o z (s ++ suf) r hn hx hacc),
      bind, Except.bind, hbig, if_true, he]

/-- IDAT: the pieces are non-empty, shorter than 2^32, their concatenation is
    zlib header (2) ++ s ++ Adler-32 (4); what follows is not another IDAT chunk that fits
    (`hend`: fewer than 12 bytes remain, or the chunk type is not IDAT, or the declared length
    reaches past the end of the input — exactly the conditions under which the scanner's chunk
    walk stops at the end of the wrapper). The signature sits 4 bytes into the wrapper, so
    quietness is required up to there. -/
theorem found_idat (o : Oracle) (crc : Bytes → Nat) (pre suf s hdr adler : Bytes) (pieces : List Bytes) (r : Res)
    (hp : ∀ p ∈ pieces, p ≠ [] ∧ p.length < 2 ^ 32) (hcrc : ∀ x, crc x < 2 ^ 32)
    (hcat : pieces.flatten = hdr ++ s ++ adler) (hhdr : hdr.length = 2) (had : adler.length = 4)
    (hne : pieces ≠ []) (hnp : NoPanic o)
    (hend : IdatEnd crc suf)
    (hacc : o.verified s = .ok r) (hfull : r.size = s.length)
    (hbig : (idatWrap crc pieces).length > Gen.MIN_BLOCKSIZE)
    (hq : Quiet o crc (pre ++ idatWrap crc pieces ++ suf) (pre.length + 4) pre.length) :
    ∃ before prev after c, prev ≤ pre.length ∧
      scan o crc (pre ++ idatWrap crc pieces ++ suf) =
        .ok (before ++ [.literal (pre.length - prev), .idat c r] ++ after) := by
  have hsrc : pre ++ idatWrap crc pieces ++ suf = pre ++ (idatWrap crc pieces ++ suf) := by
    simp only [List.append_assoc]
  rw [hsrc] at hq ⊢
  obtain ⟨c, hc, hct⟩ := parseIdat_idatWrap crc hcrc suf hend pieces hp hne hdr s adler hcat hhdr had
  have hhd : ∃ a b c d t, idatWrap crc pieces ++ suf = a :: b :: c :: d :: 73 :: 68 :: t := by
    obtain ⟨p, ps, rfl⟩ := List.exists_cons_of_ne_nil hne
    rw [idatWrap_cons]
    exact ⟨_, _, _, _, _, by simp only [pngChunk, be32, idatTag, List.cons_append, List.nil_append]; rfl⟩
  obtain ⟨b0, b1, b2, b3, t, ht⟩ := hhd
  suffices h : ∃ before prev after, prev ≤ pre.length ∧
      scan o crc (pre ++ (idatWrap crc pieces ++ suf)) =
        .ok (before ++ (fun prev => [.literal (pre.length - prev), .idat c r]) prev ++ after) by
    obtain ⟨before, prev, after, h1, h2⟩ := h
    exact ⟨before, prev, after, c, h1, h2⟩
  refine found_at hnp hq (Nat.le_add_right _ _) ?_ (sg := .idat) ?_ _ ?_
  · rw [ht]; simp only [List.length_append, List.length_cons]; omega
  · have h0 := getD_pre pre (idatWrap crc pieces ++ suf) 4
    have h1 := getD_pre pre (idatWrap crc pieces ++ suf) 5
    rw [Nat.add_assoc, h0, h1, ht]
    simp only [List.getD_cons_zero, List.getD_cons_succ]
    decide
  · intro prev hp
    refine ⟨pre.length + c.totalChunkLength, ?_⟩
    have hd0 : (pre ++ (idatWrap crc pieces ++ suf)).drop pre.length = idatWrap crc pieces ++ suf :=
      List.drop_left
    have hg : pre.length + 4 ≥ 4 ∧ pre.length ≥ prev := by omega
    have hcond : c.totalChunkLength > Gen.MIN_BLOCKSIZE ∧ r.size = s.length := ⟨by rw [hct]; exact hbig, hfull⟩
    simp only [scanAt, Nat.add_sub_cancel, if_pos hg, hd0, probe_of_ok hc, probe_of_ok hacc,
      bind, Except.bind, if_pos hcond]

end Preflate.Proofs
