/- Helper lemmas for C06: the scanner finds embedded streams. -/
import Preflate.Model.Wrappers
namespace Preflate.Proofs
open Preflate

/-- no stream accepted at a signature position before `upTo` reaches past `bound`: the bytes in
    front of the wrapper "do not themselves form an acceptable stream overlapping it" -/
def Quiet (o : Oracle) (crc : Bytes → Nat) (src : Bytes) (upTo bound : Nat) : Prop :=
  ∀ i prev sg cs next, i < upTo → scanAt o crc src i prev sg = .ok (some (cs, next)) → next ≤ bound

def NoPanic (o : Oracle) : Prop := ∀ d m, o.verified d ≠ .error (.panic m)

theorem found_zlib (o : Oracle) (crc : Bytes → Nat) (pre suf s : Bytes) (h1 : Nat) (r : Res)
    (hh : h1 ∈ zlibSecond) (hnp : NoPanic o)
    (hacc : o.verified (s ++ suf) = .ok r) (hbig : r.plain.length > Gen.MIN_BLOCKSIZE)
    (hq : Quiet o crc (pre ++ zlibWrap h1 s ++ suf) pre.length pre.length) :
    ∃ before prev after, prev ≤ pre.length ∧
      scan o crc (pre ++ zlibWrap h1 s ++ suf) =
        .ok (before ++ [.literal (pre.length + 2 - prev), .deflate r] ++ after) := by
  sorry

theorem found_gzip (o : Oracle) (crc : Bytes → Nat) (pre suf s : Bytes) (g : GzipFields) (r : Res)
    (hg : g.WF) (hnp : NoPanic o)
    (hacc : o.verified (s ++ suf) = .ok r) (hbig : r.plain.length > Gen.MIN_BLOCKSIZE)
    (hq : Quiet o crc (pre ++ gzipHeader g ++ s ++ suf) pre.length pre.length) :
    ∃ before prev after, prev ≤ pre.length ∧
      scan o crc (pre ++ gzipHeader g ++ s ++ suf) =
        .ok (before ++ [.literal (pre.length + (gzipHeader g).length - prev), .deflate r] ++ after) := by
  sorry

theorem found_zip (o : Oracle) (crc : Bytes → Nat) (pre suf s : Bytes) (z : ZipFields) (r : Res)
    (hn : z.name.length < 65536) (hx : z.extra.length < 65536) (hnp : NoPanic o)
    (hacc : o.verified (s ++ suf) = .ok r) (hbig : r.plain.length > Gen.MIN_BLOCKSIZE)
    (hq : Quiet o crc (pre ++ zipHeader z ++ s ++ suf) pre.length pre.length) :
    ∃ before prev after, prev ≤ pre.length ∧
      scan o crc (pre ++ zipHeader z ++ s ++ suf) =
        .ok (before ++ [.literal (pre.length + (zipHeader z).length - prev), .deflate r] ++ after) := by
  sorry

/-- IDAT: the pieces are non-empty, shorter than 2^32, their concatenation is
    zlib header (2) ++ s ++ Adler-32 (4); what follows is not another well-formed IDAT chunk
    (`hend`: the scanner's chunk walk stops exactly at the end of the wrapper). The signature
    sits 4 bytes into the wrapper, so quietness is required up to there. -/
theorem found_idat (o : Oracle) (crc : Bytes → Nat) (pre suf s hdr adler : Bytes) (pieces : List Bytes) (r : Res)
    (hp : ∀ p ∈ pieces, p ≠ [] ∧ p.length < 2 ^ 32) (hcrc : ∀ x, crc x < 2 ^ 32)
    (hcat : pieces.flatten = hdr ++ s ++ adler) (hhdr : hdr.length = 2) (had : adler.length = 4)
    (hne : pieces ≠ []) (hnp : NoPanic o)
    (hend : ∀ c payload, parseIdat crc (idatWrap crc pieces ++ suf) = .ok (c, payload) →
        c.totalChunkLength = (idatWrap crc pieces).length)
    (hacc : o.verified s = .ok r) (hfull : r.size = s.length)
    (hbig : (idatWrap crc pieces).length > Gen.MIN_BLOCKSIZE)
    (hq : Quiet o crc (pre ++ idatWrap crc pieces ++ suf) (pre.length + 4) pre.length) :
    ∃ before prev after c, prev ≤ pre.length ∧
      scan o crc (pre ++ idatWrap crc pieces ++ suf) =
        .ok (before ++ [.literal (pre.length - prev), .idat c r] ++ after) := by
  sorry

end Preflate.Proofs
