/-
`parse_valid`, dynamic headers: what `readHeader` returns satisfies `HeaderValid`.
-/
import Preflate.Proofs.Deflate
import Preflate.Proofs.ExpandsBase
namespace Preflate.Proofs
open Preflate Preflate.Gen
set_option linter.unusedSimpArgs false

theorem readCodeLengths_small {n i : Nat} {acc : List Nat} {bs : Bits} {cl : List Nat} {rest : Bits}
    (h : readCodeLengths n i acc bs = .ok (cl, rest)) (hacc : ∀ x ∈ acc, x < 8) :
    ∀ x ∈ cl, x < 8 := by
  induction n generalizing i acc bs with
  | zero =>
    simp only [readCodeLengths, Except.ok.injEq, Prod.mk.injEq] at h
    obtain ⟨rfl, rfl⟩ := h
    exact hacc
  | succ n ih =>
    simp only [readCodeLengths, bind_eq_ok] at h
    obtain ⟨⟨v, bs1⟩, h1, h2⟩ := h
    simp only at h2
    obtain ⟨_, hv⟩ := readBits_ok h1
    refine ih h2 ?_
    intro x hx
    rcases List.mem_or_eq_of_mem_set hx with hx | rfl
    · exact hacc x hx
    · exact hv

theorem readRleItems_items (t : List (Bits × Nat)) (total : Nat) {fuel read : Nat} {bs : Bits}
    {items : List RleItem} {rest : Bits}
    (h : readRleItems t total fuel read bs = .ok (items, rest)) :
    (∀ it ∈ items,
      (it.kind = 0 ∧ it.data ≤ 15) ∨ (it.kind = 16 ∧ 3 ≤ it.data ∧ it.data ≤ 6) ∨
      (it.kind = 17 ∧ 3 ≤ it.data ∧ it.data ≤ 10) ∨ (it.kind = 18 ∧ 11 ≤ it.data ∧ it.data ≤ 138)) ∧
    read + (items.map itemSpan).sum = total := by
  induction fuel generalizing read bs items with
  | zero => simp [readRleItems] at h
  | succ fuel ih =>
    rw [readRleItems] at h
    split at h
    · simp only [bind_eq_ok] at h
      obtain ⟨⟨w, bs1⟩, h1, h2⟩ := h
      simp only at h2
      split at h2
      · rename_i hw
        simp only [bind_eq_ok] at h2
        obtain ⟨⟨items', bs2⟩, h3, h4⟩ := h2
        simp only [Except.ok.injEq, Prod.mk.injEq] at h4
        obtain ⟨rfl, rfl⟩ := h4
        obtain ⟨hk, hs⟩ := ih h3
        refine ⟨?_, ?_⟩
        · intro it hit
          rcases List.mem_cons.mp hit with rfl | hit
          · exact Or.inl ⟨rfl, hw⟩
          · exact hk it hit
        · simp only [List.map_cons, List.sum_cons, itemSpan, if_true]
          omega
      · split at h2
        · rename_i hw15 hw18
          simp only [bind_eq_ok] at h2
          obtain ⟨⟨x, bs2⟩, h3, h4⟩ := h2
          simp only [bind_eq_ok] at h4
          obtain ⟨⟨items', bs3⟩, h5, h6⟩ := h4
          simp only [Except.ok.injEq, Prod.mk.injEq] at h6
          obtain ⟨rfl, rfl⟩ := h6
          obtain ⟨hk, hs⟩ := ih h5
          obtain ⟨_, hx⟩ := readBits_ok h3
          refine ⟨?_, ?_⟩
          · intro it hit
            rcases List.mem_cons.mp hit with rfl | hit
            · have hw : w = 16 ∨ w = 17 ∨ w = 18 := by omega
              rcases hw with rfl | rfl | rfl
              · have e : treeCodeAdjust 16 = (3, 2) := rfl
                rw [e] at hx
                have hx' : x < 4 := hx
                refine Or.inr (Or.inl ⟨rfl, ?_, ?_⟩) <;> simp only [e] <;> omega
              · have e : treeCodeAdjust 17 = (3, 3) := rfl
                rw [e] at hx
                have hx' : x < 8 := hx
                refine Or.inr (Or.inr (Or.inl ⟨rfl, ?_, ?_⟩)) <;> simp only [e] <;> omega
              · have e : treeCodeAdjust 18 = (11, 7) := rfl
                rw [e] at hx
                have hx' : x < 128 := hx
                refine Or.inr (Or.inr (Or.inr ⟨rfl, ?_, ?_⟩)) <;> simp only [e] <;> omega
            · exact hk it hit
          · have hne : ¬ w = 0 := by omega
            simp only [List.map_cons, List.sum_cons, itemSpan, hne, if_false]
            omega
        · simp at h2
    · split at h
      · rename_i hrt
        simp only [Except.ok.injEq, Prod.mk.injEq] at h
        obtain ⟨rfl, rfl⟩ := h
        exact ⟨fun _ hit => absurd hit (List.not_mem_nil), by simpa using hrt⟩
      · simp at h

theorem readHeader_valid {bs : Bits} {h : Header} {rest : Bits} (hr : readHeader bs = .ok (h, rest)) :
    HeaderValid h := by
  simp only [readHeader, bind_eq_ok] at hr
  obtain ⟨⟨a, bs1⟩, h1, ⟨b, bs2⟩, h2, ⟨c, bs3⟩, h3, ⟨cl, bs4⟩, h4, t, h5, ⟨items, bs5⟩, h6, hr⟩ := hr
  simp only at h2 h3 h4 h5 h6 hr
  simp only [Except.ok.injEq, Prod.mk.injEq] at hr
  obtain ⟨rfl, rfl⟩ := hr
  obtain ⟨_, ha⟩ := readBits_ok h1
  obtain ⟨_, hb⟩ := readBits_ok h2
  obtain ⟨_, hc⟩ := readBits_ok h3
  obtain ⟨hlen, hframe⟩ := readCodeLengths_frame h4
  obtain ⟨hk, hs⟩ := readRleItems_items _ _ h6
  have hsmall := readCodeLengths_small h4 (by
    intro x hx
    rw [List.eq_of_mem_replicate hx]; omega)
  have p5 : (2 : Nat) ^ 5 = 32 := by decide
  have p4 : (2 : Nat) ^ 4 = 16 := by decide
  rw [p5] at ha hb
  rw [p4] at hc
  refine ⟨by simp only; omega, by simp only; omega, by simp only; omega, by simp only; omega,
    by simp only; omega, by simp only; omega, by simpa using hlen, hsmall, ?_, hk, by simpa using hs⟩
  intro i hi1 hi2
  simp only at hi1 ⊢
  have := hframe (TREE_CODE_ORDER_TABLE.getD i 0) (fun j hj1 hj2 hj => by
    have := order_inj j i (by omega) hi2 hj
    omega)
  have ho := order_lt i hi2
  generalize TREE_CODE_ORDER_TABLE.getD i 0 = k at this ho
  rw [List.getD_eq_getElem?_getD, this, List.getElem?_replicate]
  split <;> rfl

end Preflate.Proofs
