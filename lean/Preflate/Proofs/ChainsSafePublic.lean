/-
The two remaining hypotheses of `encStreamChk_ok` (`LazyDepthOK p`, the 4 KiB side condition) hold
for every parameter vector the MODELLED estimator (`Est.estimate`, Model/EstimatorFull.lean) emits
on a valid stream. Hence, on everything the parser returns, under the parameters the estimator
chooses, the match finder and the hash chains reach none of their panic sites during analysis
(`public_encStreamChk_ok`).
-/
import Preflate.Proofs.ChainsSafe
import Preflate.Proofs.Estimator4k
import Preflate.Proofs.EstimateRange
import Preflate.Proofs.PlainLimit
namespace Preflate.Proofs
open Preflate Preflate.Chains Preflate.Est

/-- the level-table row `recommend` selects: it is lazy only for the SLOW table (add policy AddAll),
    and then either row 0 (good_length = max_lazy = 4: no length is both "good" and below max_lazy)
    or a row that needs a measured chain depth of at least 16 -/
theorem level_cfg_lazy (pol found : Nat) :
    let cfg := ((if pol = 0 then SLOW_SETTINGS else ZLIB_SETTINGS).find?
      (fun c => found < c.maxChain)).getD ⟨false, 0, 0, 258, 0⟩
    cfg.isLazy = true → (cfg.goodLength = 4 ∧ cfg.maxLazy = 4) ∨ 16 ≤ found := by
  intro cfg hl
  by_cases h16 : found < 16
  · left
    by_cases hp : pol = 0
    · have : cfg = ⟨true, 4, 4, 16, 16⟩ := by
        show ((if pol = 0 then SLOW_SETTINGS else ZLIB_SETTINGS).find?
          (fun c => found < c.maxChain)).getD ⟨false, 0, 0, 258, 0⟩ = _
        rw [if_pos hp]
        simp [SLOW_SETTINGS, h16]
      rw [this]; exact ⟨rfl, rfl⟩
    · exfalso
      have hz : ∀ c ∈ ZLIB_SETTINGS, c.isLazy = false := by decide
      have : cfg.isLazy = false := by
        show (((if pol = 0 then SLOW_SETTINGS else ZLIB_SETTINGS).find?
          (fun c => found < c.maxChain)).getD ⟨false, 0, 0, 258, 0⟩).isLazy = false
        rw [if_neg hp]
        cases hfind : ZLIB_SETTINGS.find? (fun c => found < c.maxChain) with
        | none => rfl
        | some c => exact hz c (List.mem_of_find?_eq_some hfind)
      rw [this] at hl; cases hl
  · right; omega

/-- what `recommend` emits: a lazy vector either has good_length = max_lazy = 4 or a chain depth of
    at least 17 (`max_chain = max_chain_found + 1`) -/
theorem recommend_lazy (wsize pol : Nat) (s : CLState) (cl : CompLevelInfo)
    (h : recommend wsize pol s = .ok cl) :
    cl.isLazy = true → (cl.goodLength = 4 ∧ cl.maxLazy = 4) ∨ 17 ≤ cl.maxChain := by
  unfold recommend at h
  split at h
  · cases h
  · rename_i cand hmin
    simp only at h
    split at h
    · cases h
    · split at h
      · cases h
      · cases h
        intro hl
        rcases level_cfg_lazy pol cand.maxChainFound hl with h1 | h1
        · left; exact h1
        · right; show 17 ≤ cand.maxChainFound + 1; omega

/-- 1. THE DOCUMENTED EXCLUSION IS NEVER EMITTED: whatever the modelled estimator returns satisfies
    `LazyDepthOK` (lazy + zlib_compatible + a "good" length below max_lazy implies max_chain ≥ 4; in
    fact ≥ 17). No validity hypothesis is needed. -/
theorem estimate_lazyDepthOK' (plain : Array Nat) (blocks : List Block) (p : Params)
    (h : Est.estimate plain blocks = .ok p) : LazyDepthOK p := by
  obtain ⟨f, _, hc⟩ := estimate_cases h
  rcases hc with ⟨_, rfl⟩ | ⟨_, s, cl, _, hrec, rfl⟩
  · intro hl; cases hl
  · intro hl _ hex
    obtain ⟨len, _, _, hg, hm⟩ := hex
    rcases recommend_lazy _ _ s cl hrec hl with ⟨e1, e2⟩ | h17
    · simp only [e1, e2] at hg hm; omega
    · show 4 ≤ cl.maxChain; omega

theorem estimate_lazyDepthOK (plain : Array Nat) (blocks : List Block) (p : Params)
    (_hv : StreamValid plain blocks) (h : Est.estimate plain blocks = .ok p) : LazyDepthOK p :=
  estimate_lazyDepthOK' plain blocks p h

/-- 2. the 4 KiB side condition: the estimator's add policy is `Est.addPolicy blocks` (or AddAll for
    the no-dictionary vector), and that answers the 4 KiB-boundary policy only when no reference
    starts in the last three bytes of a 4 KiB page -/
theorem estimate_noRefAt4k (plain : Array Nat) (blocks : List Block) (p : Params)
    (h : Est.estimate plain blocks = .ok p) :
    p.addPolicy = 3 → NoRefAt4k 0 (streamLens blocks) := by
  obtain ⟨f, hf, hc⟩ := estimate_cases h
  have hpol : p.addPolicy = f.addPolicy := by
    rcases hc with ⟨hnd, rfl⟩ | ⟨_, s, cl, _, _, rfl⟩
    · -- the no-dictionary front has add policy 0
      unfold Est.front at hf
      simp only [] at hf
      split at hf
      · cases hf; rfl
      · rw [bind_eq_ok] at hf
        obtain ⟨⟨pol, lim⟩, _, hf⟩ := hf
        cases hf
        cases hnd
    · rfl
  intro h3
  unfold Est.front at hf
  simp only [] at hf
  split at hf
  · cases hf
    rw [hpol] at h3
    cases h3
  · rw [bind_eq_ok] at hf
    obtain ⟨⟨pol, lim⟩, hap, hf⟩ := hf
    cases hf
    rw [hpol] at h3
    simp only at h3
    subst h3
    exact addPolicy_4k blocks lim hap

/-- the main theorem of `Proofs/ChainsSafe.lean` for the estimator's own parameter vector: on a valid
    stream shorter than 2^31 bytes no hypothesis on the parameters is left -/
theorem estimate_encStreamChk_ok (plain : Array Nat) (blocks : List Block) (p : Params)
    (hv : StreamValid plain blocks) (hsz : plain.size < 2147483648)
    (h : Est.estimate plain blocks = .ok p) : encStreamChk p plain blocks = .ok () :=
  encStreamChk_ok p plain blocks (estimate_in_range plain blocks p hv h)
    (estimate_lazyDepthOK' plain blocks p h) hsz hv (estimate_noRefAt4k plain blocks p h)

/-- 3. PUBLIC FORM: on everything the parser returns, under the parameters the (modelled) estimator
    chooses, the match finder and the hash chains reach none of their panic sites
    (`Model/ChainsSafe.lean`) during analysis -/
theorem public_encStreamChk_ok (d : List UInt8) (pr : Parsed) (hp : parse d = .ok pr) (p : Params)
    (he : Est.estimate pr.plain pr.blocks = .ok p) : encStreamChk p pr.plain pr.blocks = .ok () := by
  have hv := (parse_valid_unbounded (bytesToBits d) pr hp).1
  have hsz := parse_plain_lt d pr hp
  exact estimate_encStreamChk_ok pr.plain pr.blocks p hv (by omega) he

end Preflate.Proofs
