/-
C03 (RFC reading): Kraft sums and counting.

* a length vector the library's check accepts has Kraft sum exactly 1 (`kraft_of_valid`);
* a vector that is pointwise "the same or 0" and has the same Kraft sum is the same (`eq_of_kraft_eq`);
* a symbol of length 1 that is the first of that length has the code `0` (`decodeSym_first_one`).
-/
import Preflate.Model.SpecRFC
import Preflate.Proofs.HuffTree
namespace Preflate.Proofs.RFC
open Preflate SpecRFC Preflate.Proofs

-- ---------------------------------------------------------------------------------------------
-- Kraft sum of a vector accepted by `validLengths`

/-- Σ_{i=1..b} (number of codes of length i) · 2^(15-i) -/
def kraftUpTo (l : List Nat) : Nat → Nat
  | 0 => 0
  | b + 1 => kraftUpTo l b + countEq l (b + 1) * 2 ^ (14 - b)

theorem countEq_cons (x : Nat) (l : List Nat) (i : Nat) :
    countEq (x :: l) i = countEq l i + (if x = i then 1 else 0) := by
  unfold countEq
  by_cases h : x = i <;> simp [h]

theorem kraftUpTo_cons (x : Nat) (l : List Nat) (b : Nat) :
    kraftUpTo (x :: l) b = kraftUpTo l b + (if 1 ≤ x ∧ x ≤ b then 2 ^ (15 - x) else 0) := by
  induction b with
  | zero =>
    have : ¬ (1 ≤ x ∧ x ≤ 0) := by omega
    rw [if_neg this]; rfl
  | succ b ih =>
    simp only [kraftUpTo, ih, countEq_cons]
    by_cases hx : x = b + 1
    · subst hx
      have h1 : ¬ (1 ≤ b + 1 ∧ b + 1 ≤ b) := by omega
      have h2 : 1 ≤ b + 1 ∧ b + 1 ≤ b + 1 := by omega
      have h3 : 15 - (b + 1) = 14 - b := by omega
      rw [if_neg h1, if_pos h2, if_pos rfl, h3, Nat.add_mul, Nat.one_mul]
      generalize 2 ^ (14 - b) = w
      omega
    · by_cases h1 : 1 ≤ x ∧ x ≤ b
      · have h2 : 1 ≤ x ∧ x ≤ b + 1 := by omega
        rw [if_pos h1, if_pos h2, if_neg hx, Nat.add_zero]
        generalize 2 ^ (15 - x) = w
        generalize countEq l (b + 1) * 2 ^ (14 - b) = u
        omega
      · have h2 : ¬ (1 ≤ x ∧ x ≤ b + 1) := by omega
        rw [if_neg h1, if_neg h2, if_neg hx]
        simp only [Nat.add_zero]

theorem kraft_eq_upTo (l : List Nat) (h : ∀ x ∈ l, x ≤ 15) : kraft l = kraftUpTo l 15 := by
  induction l with
  | nil =>
    have : ∀ b, kraftUpTo [] b = 0 := by
      intro b
      induction b with
      | zero => rfl
      | succ b ih => simp [kraftUpTo, ih, countEq]
    rw [this]; rfl
  | cons x l ih =>
    have hx := h x (List.mem_cons_self)
    rw [kraft, kraftUpTo_cons, ih (fun y hy => h y (List.mem_cons_of_mem _ hy))]
    by_cases h0 : x = 0
    · have : ¬ (1 ≤ x ∧ x ≤ 15) := by omega
      rw [if_pos h0, if_neg this]
      omega
    · have : 1 ≤ x ∧ x ≤ 15 := by omega
      rw [if_neg h0, if_pos this]
      exact Nat.add_comm _ _

theorem width_kraft {l : List Nat} (hc : Complete l) (b : Nat) (hb : b ≤ 15) :
    width l (b + 1) * 2 ^ (15 - b) + 2 * kraftUpTo l b = 2 ^ 16 := by
  induction b with
  | zero => simp [width, cntP, kraftUpTo]
  | succ b ih =>
    have ih := ih (by omega)
    have hle := hc.le (b + 1) hb
    rw [cntP_pos l (by omega)] at hle
    have hw : width l (b + 1 + 1) = (width l (b + 1) - countEq l (b + 1)) * 2 := by
      rw [width_succ, cntP_pos l (by omega)]
    have hp : 2 ^ (15 - b) = 2 * 2 ^ (14 - b) := by
      rw [show 15 - b = (14 - b) + 1 by omega, Nat.pow_succ]; omega
    rw [hw, show 15 - (b + 1) = 14 - b by omega, kraftUpTo]
    rw [hp] at ih
    generalize 2 ^ (14 - b) = w at ih ⊢
    generalize kraftUpTo l b = K at ih ⊢
    obtain ⟨t, ht⟩ : ∃ t, width l (b + 1) = countEq l (b + 1) + t := ⟨width l (b + 1) - countEq l (b + 1), by omega⟩
    rw [ht] at ih ⊢
    rw [Nat.add_sub_cancel_left]
    generalize countEq l (b + 1) = c at ih ⊢
    rw [Nat.add_mul] at ih
    rw [Nat.mul_add]
    have e1 : t * 2 * w = 2 * (t * w) := by rw [Nat.mul_right_comm, Nat.mul_comm]
    have e2 : c * (2 * w) = 2 * (c * w) := by rw [Nat.mul_left_comm]
    have e3 : t * (2 * w) = 2 * (t * w) := by rw [Nat.mul_left_comm]
    rw [e1]
    rw [e2, e3] at ih
    omega

/-- the library's check: Kraft sum exactly 1 -/
theorem kraft_of_valid {l : List Nat} (h : validLengths l = true) : kraft l = 2 ^ 15 := by
  have hc := complete_of_valid h
  have h1 := width_kraft hc 15 (by omega)
  rw [hc.top] at h1
  rw [kraft_eq_upTo l (fun x hx => by have := hc.lt16 x hx; omega)]
  omega

theorem all_le_of_valid {l : List Nat} (h : validLengths l = true) : ∀ x ∈ l, x ≤ 15 := by
  have hc := complete_of_valid h
  intro x hx
  have := hc.lt16 x hx
  omega

-- ---------------------------------------------------------------------------------------------
-- pointwise smaller with the same sum

theorem kraft_le_of_pw : ∀ (R C : List Nat), R.length = C.length →
    (∀ i, R.getD i 0 = C.getD i 0 ∨ R.getD i 0 = 0) → kraft R ≤ kraft C := by
  intro R
  induction R with
  | nil =>
    intro C hl _
    simp [kraft]
  | cons r R ih =>
    intro C hl hpw
    cases C with
    | nil => simp at hl
    | cons c C =>
      have h0 := hpw 0
      simp only [List.getD_cons_zero] at h0
      have ht := ih C (by simpa using hl) (fun i => by simpa using hpw (i + 1))
      simp only [kraft]
      rcases h0 with rfl | rfl
      · omega
      · simp only [if_true]
        omega

/-- every differing position strictly lowers the Kraft sum -/
theorem eq_of_kraft_eq : ∀ (R C : List Nat), R.length = C.length →
    (∀ i, R.getD i 0 = C.getD i 0 ∨ R.getD i 0 = 0) → kraft R = kraft C → R = C := by
  intro R
  induction R with
  | nil =>
    intro C hl _ _
    cases C with
    | nil => rfl
    | cons c C => simp at hl
  | cons r R ih =>
    intro C hl hpw hk
    cases C with
    | nil => simp at hl
    | cons c C =>
      have h0 := hpw 0
      simp only [List.getD_cons_zero] at h0
      have hpw' : ∀ i, R.getD i 0 = C.getD i 0 ∨ R.getD i 0 = 0 := fun i => by simpa using hpw (i + 1)
      have hl' : R.length = C.length := by simpa using hl
      have hle := kraft_le_of_pw R C hl' hpw'
      simp only [kraft] at hk
      rcases h0 with rfl | rfl
      · rw [ih C hl' hpw' (by omega)]
      · simp only [if_true] at hk
        by_cases hc : c = 0
        · subst hc
          rw [ih C hl' hpw' (by simpa using hk)]
        · exfalso
          simp only [hc, if_false] at hk
          have : 0 < 2 ^ (15 - c) := Nat.pow_pos (by omega)
          omega

-- ---------------------------------------------------------------------------------------------
-- counting

theorem getD_take (l : List Nat) (n i : Nat) :
    (l.take n).getD i 0 = if i < n then l.getD i 0 else 0 := by
  simp only [List.getD_eq_getElem?_getD, List.getElem?_take]
  split <;> rfl

theorem getD_drop (l : List Nat) (n i : Nat) : (l.drop n).getD i 0 = l.getD (n + i) 0 := by
  simp only [List.getD_eq_getElem?_getD, List.getElem?_drop]

theorem countEq_take_zero (l : List Nat) (v : Nat) : ∀ (j : Nat), j ≤ l.length →
    (∀ i, i < j → l.getD i 0 ≠ v) → countEq (l.take j) v = 0 := by
  intro j
  induction j with
  | zero => intros; simp [countEq]
  | succ j ih =>
    intro hj h
    rw [countEq_take_succ l v j (by omega), ih (by omega) (fun i hi => h i (by omega)),
      if_neg (h j (by omega))]

theorem countEq_take_mono (l : List Nat) (v : Nat) (a b : Nat) (hab : a ≤ b) (hb : b ≤ l.length) :
    countEq (l.take a) v ≤ countEq (l.take b) v := by
  induction b with
  | zero =>
    have : a = 0 := by omega
    subst this; exact Nat.le_refl _
  | succ b ih =>
    by_cases h : a = b + 1
    · subst h; exact Nat.le_refl _
    · have := ih (by omega) (by omega)
      rw [countEq_take_succ l v b (by omega)]
      omega

/-- three positions holding `v` -/
theorem countEq_ge_three (l : List Nat) (v : Nat) (x y z : Nat) (hxy : x < y) (hyz : y < z)
    (hz : z < l.length) (hx : l.getD x 0 = v) (hy : l.getD y 0 = v) (hzv : l.getD z 0 = v) :
    3 ≤ countEq l v := by
  have h1 := countEq_take_succ l v x (by omega)
  have h2 := countEq_take_succ l v y (by omega)
  have h3 := countEq_take_succ l v z (by omega)
  rw [if_pos hx] at h1
  rw [if_pos hy] at h2
  rw [if_pos hzv] at h3
  have m1 := countEq_take_mono l v (x + 1) y (by omega) (by omega)
  have m2 := countEq_take_mono l v (y + 1) z (by omega) (by omega)
  have m3 := countEq_take_mono l v (z + 1) l.length (by omega) (Nat.le_refl _)
  rw [List.take_length] at m3
  omega

/-- a complete code has at most two codes of length 1 -/
theorem countEq_one_le {l : List Nat} (h : validLengths l = true) : countEq l 1 ≤ 2 := by
  have hc := complete_of_valid h
  have := hc.le 1 (by omega)
  rw [cntP_pos l (by omega)] at this
  have hw : width l 1 = 2 := by simp [width, cntP]
  omega

-- ---------------------------------------------------------------------------------------------
-- a vector with exactly one non-zero entry

theorem single_of_filter : ∀ (l : List Nat) (x : Nat), l.filter (· ≠ 0) = [x] →
    l.findIdx (· ≠ 0) < l.length ∧ l.getD (l.findIdx (· ≠ 0)) 0 = x ∧
    ∀ i, i ≠ l.findIdx (· ≠ 0) → l.getD i 0 = 0 := by
  intro l
  induction l with
  | nil => intro x h; simp at h
  | cons a l ih =>
    intro x h
    by_cases ha : a = 0
    · subst ha
      simp only [List.filter_cons, ne_eq, not_true_eq_false, decide_false, Bool.false_eq_true,
        if_false] at h
      obtain ⟨h1, h2, h3⟩ := ih x h
      have hf : (0 :: l).findIdx (· ≠ 0) = l.findIdx (· ≠ 0) + 1 := by
        simp [List.findIdx_cons]
      rw [hf]
      refine ⟨by simpa using h1, by simpa using h2, ?_⟩
      intro i hi
      cases i with
      | zero => rfl
      | succ i => simpa using h3 i (by omega)
    · have hd : decide (a ≠ 0) = true := by simpa using ha
      simp only [List.filter_cons, hd, if_true, List.cons.injEq] at h
      obtain ⟨rfl, h2⟩ := h
      have hf : (a :: l).findIdx (· ≠ 0) = 0 := by
        simp [List.findIdx_cons, ha]
      rw [hf]
      refine ⟨by simp, rfl, ?_⟩
      intro i hi
      cases i with
      | zero => exact absurd rfl hi
      | succ i =>
        simp only [List.getD_cons_succ]
        rw [List.filter_eq_nil_iff] at h2
        simp only [List.getD_eq_getElem?_getD]
        cases hg : l[i]? with
        | none => rfl
        | some y =>
          have := h2 y (List.mem_of_getElem? hg)
          simpa using this

-- ---------------------------------------------------------------------------------------------
-- the first symbol of length 1 has the code `0`

theorem decodeSym_first_one {l : List Nat} (hv : validLengths l = true) {s : Nat} (hs : s < l.length)
    (h1 : l.getD s 0 = 1) (h0 : ∀ i, i < s → l.getD i 0 ≠ 1) (rest : Bits) :
    decodeSym (codeTable l) (false :: rest) = .ok (s, rest) := by
  have hc := complete_of_valid hv
  have ht := treeOK_blocks hc
  have hcb : codeBits l s = [false] := by
    unfold codeBits codeOf
    rw [h1, countEq_take_zero l 1 s (by omega) h0]
    rfl
  have hm : ([false], s) ∈ codeTable l := by
    rw [← hcb]; exact codeTable_mem hs (by omega)
  rw [← decodeSymTree_spec hc ht]
  exact walk_of_prefix hc ht hm (by simp [isPrefix])

end Preflate.Proofs.RFC
