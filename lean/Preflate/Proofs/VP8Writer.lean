/-
VP8 bool coder, encoder side: the 32-bit writer refines an exact (unbounded) interval coder.
  * `carry` adds one to the big-endian number held in the buffer;
  * `putSplit_spec`: one coding step multiplies the exact low end / range by 2^shift;
  * `finish_final`: the flushed bytes, read as a binary fraction, lie in the interval of every
    earlier writer state (`Final`).
-/
import Preflate.Proofs.VP8Arith
namespace Preflate.Proofs
open Preflate Preflate.VP8
set_option linter.unusedVariables false
set_option linter.unnecessarySeqFocus false

/-! ### carry -/

theorem u8_eq_255 (a : UInt8) : (a == 255) = true ↔ a.toNat = 255 := by
  rw [beq_iff_eq]
  constructor
  · intro h; rw [h]; rfl
  · intro h; exact UInt8.toNat_inj.1 (by rw [h]; rfl)

theorem u8_succ (a : UInt8) (h : a.toNat ≠ 255) : (a + 1).toNat = a.toNat + 1 := by
  have := u8_lt a
  rw [UInt8.toNat_add]
  show (a.toNat + 1) % 256 = _
  omega

theorem getD_mid (buf : Array UInt8) (pre suf : List UInt8) (a : UInt8)
    (h : buf.toList = pre ++ a :: suf) : buf.getD pre.length 0 = a := by
  rw [Array.getD_eq_getD_getElem?, ← Array.getElem?_toList, h]
  simp

theorem set_mid (buf : Array UInt8) (pre suf : List UInt8) (a v : UInt8)
    (h : buf.toList = pre ++ a :: suf) : (buf.set! pre.length v).toList = pre ++ v :: suf := by
  rw [Array.set!_eq_setIfInBounds, Array.toList_setIfInBounds, h]
  simp

theorem carry_spec (x : Nat) : ∀ (buf : Array UInt8) (pre suf : List UInt8),
    buf.toList = pre ++ suf → pre.length = x + 1 → bval pre + 1 < 256 ^ (x + 1) →
    ∃ pre', (carry buf x).toList = pre' ++ suf ∧ pre'.length = x + 1 ∧ bval pre' = bval pre + 1 := by
  induction x with
  | zero =>
    intro buf pre suf h hl hv
    match pre, hl with
    | [a], _ =>
      have hg : buf.getD 0 0 = a := getD_mid buf [] suf a (by simpa using h)
      have hs : ∀ v, (buf.set! 0 v).toList = [v] ++ suf := fun v => by
        simpa using set_mid buf [] suf a v (by simpa using h)
      have ha : a.toNat ≠ 255 := by
        rw [bval_cons] at hv; simp at hv; omega
      have hne : ¬ ((a == 255) = true) := by rw [u8_eq_255]; exact ha
      refine ⟨[a + 1], ?_, rfl, ?_⟩
      · simp only [carry, hg, hne]; simpa using hs (a + 1)
      · rw [bval_cons, bval_cons, u8_succ a ha]; simp
  | succ x ih =>
    intro buf pre suf h hl hv
    obtain ⟨pre0, a, rfl⟩ : ∃ pre0 a, pre = pre0 ++ [a] := by
      rcases List.eq_nil_or_concat pre with h0 | ⟨l, b, hb⟩
      · subst h0; simp at hl
      · exact ⟨l, b, by simpa using hb⟩
    have hl0 : pre0.length = x + 1 := by simpa using hl
    have h' : buf.toList = pre0 ++ a :: suf := by simpa using h
    have hg : buf.getD (x + 1) 0 = a := by rw [← hl0]; exact getD_mid buf pre0 suf a h'
    have hs : ∀ v, (buf.set! (x + 1) v).toList = pre0 ++ v :: suf := fun v => by
      rw [← hl0]; exact set_mid buf pre0 suf a v h'
    rw [bval_append_single] at hv
    have hb0 := bval_lt pre0
    rw [hl0] at hb0
    have hp : (256:Nat) ^ (x + 1 + 1) = 256 ^ (x + 1) * 256 := pow_succ _ _
    by_cases ha : a.toNat = 255
    · have h255 : (a == 255) = true := (u8_eq_255 a).2 ha
      have hv0 : bval pre0 + 1 < 256 ^ (x + 1) := by omega
      obtain ⟨pre', e1, e2, e3⟩ := ih (buf.set! (x + 1) 0) pre0 (0 :: suf) (hs 0) hl0 hv0
      refine ⟨pre' ++ [0], ?_, by simp [e2], ?_⟩
      · simp only [carry, hg, h255, if_true]; rw [e1]; simp
      · rw [bval_append_single, bval_append_single, e3, ha]; simp; omega
    · have hne : ¬ ((a == 255) = true) := by rw [u8_eq_255]; exact ha
      refine ⟨pre0 ++ [a + 1], ?_, by simp [hl0], ?_⟩
      · simp only [carry, hg, hne]; simpa using hs (a + 1)
      · rw [bval_append_single, bval_append_single, u8_succ a ha]; omega

/-- big-endian value of the buffer -/
def aval (a : Array UInt8) : Nat := bval a.toList

theorem aval_push (a : Array UInt8) (b : UInt8) : aval (a.push b) = aval a * 256 + b.toNat := by
  simp [aval, bval_append_single]

theorem carry_aval (buf : Array UInt8) (h : aval buf + 1 < 256 ^ buf.size) :
    aval (carry buf (buf.size - 1)) = aval buf + 1 ∧ (carry buf (buf.size - 1)).size = buf.size := by
  have hn : 0 < buf.size := by
    rcases Nat.eq_zero_or_pos buf.size with h0 | h0
    · rw [h0] at h; simp at h
    · exact h0
  have hl : buf.toList.length = buf.size - 1 + 1 := by simp; omega
  obtain ⟨pre', e1, e2, e3⟩ := carry_spec (buf.size - 1) buf buf.toList [] (by simp) hl
    (by rw [show buf.size - 1 + 1 = buf.size by omega]; exact h)
  constructor
  · simp only [aval]; rw [e1]; simpa using e3
  · have := congrArg List.length e1
    simp at this; omega

/-! ### putSplit, syntactically -/

/-- the part of `putSplit` after the choice of the sub-interval -/
def putCore (w : Writer) (low range : Nat) : Writer :=
  let shift0 := lz8 range
  let range := u32 (range <<< shift0)
  let count : Int := w.bitsLeft + shift0
  if count ≥ 0 then
    let offset := (Int.ofNat shift0 - count).toNat
    let buffer := if (u32 (low <<< (offset - 1))) &&& 0x80000000 ≠ 0 then carry w.buffer (w.buffer.size - 1) else w.buffer
    let buffer := buffer.push (UInt8.ofNat ((low >>> (24 - offset)) % 256))
    let low := (u32 (low <<< offset)) &&& 0xffffff
    let shift := count.toNat
    { low := u32 (low <<< shift), range := range, bitsLeft := count - 8, buffer := buffer }
  else
    { low := u32 (low <<< shift0), range := range, bitsLeft := count, buffer := w.buffer }

theorem putSplit_eq_core (w : Writer) (b : Bool) (s : Nat) :
    w.putSplit b s = putCore w (if b then u32 (w.low + s) else w.low) (if b then w.range - s else s) := by
  cases b <;> rfl

theorem and_two_pow_eq (x i : Nat) : x &&& 2 ^ i = if x.testBit i then 2 ^ i else 0 := by
  apply Nat.eq_of_testBit_eq
  intro j
  rw [Nat.testBit_and, Nat.testBit_two_pow]
  by_cases hij : i = j
  · subst hij
    cases hx : x.testBit i <;> simp
  · cases hx : x.testBit i <;> simp [hij]

theorem and_bit31 (x : Nat) : (x &&& 2147483648 ≠ 0) ↔ x / 2147483648 % 2 = 1 := by
  rw [show (2147483648:Nat) = 2 ^ 31 by norm_num, and_two_pow_eq, Nat.testBit_eq_decide_div_mod_eq]
  by_cases h : x / 2 ^ 31 % 2 = 1 <;> simp

theorem and_mask24 (x : Nat) : x &&& 16777215 = x % 16777216 := by
  rw [show (16777215:Nat) = 2 ^ 24 - 1 by norm_num, Nat.and_two_pow_sub_one_eq_mod]

theorem putCore_noout (w : Writer) (low range k : Nat) (hk : w.bitsLeft = (k:Int) - 24)
    (h : k + lz8 range < 24) :
    putCore w low range =
      { low := u32 (low <<< lz8 range), range := u32 (range <<< lz8 range),
        bitsLeft := ((k + lz8 range : Nat) : Int) - 24, buffer := w.buffer } := by
  unfold putCore
  have hc : ¬ (w.bitsLeft + (lz8 range : Int) ≥ 0) := by rw [hk]; omega
  simp only [hc, if_false]
  congr 1
  rw [hk]; push_cast; ring

theorem putCore_out (w : Writer) (low range k : Nat) (hk : w.bitsLeft = (k:Int) - 24)
    (hk24 : k < 24) (h : 24 ≤ k + lz8 range) :
    putCore w low range =
      { low := u32 ((u32 (low <<< (24 - k)) &&& 0xffffff) <<< (k + lz8 range - 24)),
        range := u32 (range <<< lz8 range),
        bitsLeft := ((k + lz8 range - 24 : Nat) : Int) - 8,
        buffer := (if u32 (low <<< (23 - k)) &&& 0x80000000 ≠ 0 then carry w.buffer (w.buffer.size - 1)
          else w.buffer).push (UInt8.ofNat ((low >>> k) % 256)) } := by
  unfold putCore
  have hc : (w.bitsLeft + (lz8 range : Int) ≥ 0) := by rw [hk]; omega
  have ho : (Int.ofNat (lz8 range) - (w.bitsLeft + (lz8 range : Int))).toNat = 24 - k := by
    rw [hk]; simp only [Int.ofNat_eq_natCast]; omega
  have hs : (w.bitsLeft + (lz8 range : Int)).toNat = k + lz8 range - 24 := by rw [hk]; omega
  have hb : w.bitsLeft + (lz8 range : Int) - 8 = ((k + lz8 range - 24 : Nat) : Int) - 8 := by
    rw [hk]; omega
  simp only [hc, if_true, ho, hs, hb]
  rw [show 24 - k - 1 = 23 - k by omega, show 24 - (24 - k) = k by omega]

/-! ### the exact interval held by a writer -/

/-- bits shifted since the last byte boundary, biased: `bitsLeft + 24` -/
def Wk (w : Writer) : Nat := (w.bitsLeft + 24).toNat
/-- exact low end of the interval: the buffer (as a number) followed by `low` -/
def WV (w : Writer) : Nat := aval w.buffer * 2 ^ (Wk w + 8) + w.low
/-- total number of normalisation shifts so far -/
def WT (w : Writer) : Nat := 8 * w.buffer.size + Wk w

structure WInv (w : Writer) : Prop where
  r_lo : 128 ≤ w.range
  r_hi : w.range ≤ 255
  bl : w.bitsLeft = (Wk w : Int) - 24
  k_lt : Wk w < 24
  low_bd : w.low + w.range ≤ 2 ^ (Wk w + 9)
  glob : WV w + w.range ≤ 2 ^ (WT w + 8)

/-- what one step does, in terms of the exact quantities; the last component distinguishes the step
    that emits a byte (needed for `finish`) -/
def StepSpec (w w' : Writer) (k low1 range1 sh : Nat) : Prop :=
  WInv w' ∧ w'.range = range1 * 2 ^ sh ∧ WT w' = 8 * w.buffer.size + k + sh ∧
  WV w' = (aval w.buffer * 2 ^ (k + 8) + low1) * 2 ^ sh ∧
  ((w'.buffer.size = w.buffer.size ∧ w'.low = low1 * 2 ^ sh ∧ Wk w' = k + sh) ∨
   (w'.buffer.size = w.buffer.size + 1 ∧ w'.low < 2 ^ (Wk w' + 8) ∧
     w'.low = (low1 * 2 ^ (24 - k) % 2 ^ 24) * 2 ^ (k + sh - 24) ∧ Wk w' + 8 = k + sh ∧ 24 ≤ k + sh))

theorem putCore_spec_noout (w : Writer) (low1 range1 k : Nat) (hk : w.bitsLeft = (k:Int) - 24)
    (hr1 : 0 < range1) (hr2 : range1 < 256)
    (hlow : low1 + range1 ≤ 2 ^ (k + 9))
    (hglob : aval w.buffer * 2 ^ (k + 8) + low1 + range1 ≤ 2 ^ (8 * w.buffer.size + k + 8))
    (h : k + lz8 range1 < 24) : StepSpec w (putCore w low1 range1) k low1 range1 (lz8 range1) := by
  obtain ⟨hsh, hlo, hhi⟩ := lz8_spec range1 hr1 hr2
  rw [putCore_noout w low1 range1 k hk h]
  generalize hshd : lz8 range1 = sh at *
  unfold StepSpec
  have hp : (2:Nat) ^ (k + sh + 9) = 2 ^ (k + 9) * 2 ^ sh := by rw [← pow_add]; congr 1; omega
  have hp32 : (2:Nat) ^ (k + sh + 9) ≤ 2 ^ 32 := Nat.pow_le_pow_right (by norm_num) (by omega)
  have hsum : (low1 + range1) * 2 ^ sh ≤ 2 ^ (k + sh + 9) := by
    rw [hp]; exact Nat.mul_le_mul_right _ hlow
  have hlow32 : low1 * 2 ^ sh < 4294967296 := by
    have : range1 * 2 ^ sh ≥ 128 := hlo
    have : (low1 + range1) * 2 ^ sh = low1 * 2 ^ sh + range1 * 2 ^ sh := by ring
    norm_num at hp32; omega
  have e1 : u32 (low1 <<< sh) = low1 * 2 ^ sh := by
    rw [Nat.shiftLeft_eq]; exact Nat.mod_eq_of_lt hlow32
  have e2 : u32 (range1 <<< sh) = range1 * 2 ^ sh := by
    rw [Nat.shiftLeft_eq]; exact Nat.mod_eq_of_lt (by omega)
  rw [e1, e2]
  have hWk : Wk (Writer.mk (low1 * 2 ^ sh) (range1 * 2 ^ sh) (((k + sh : Nat) : Int) - 24) w.buffer)
      = k + sh := by
    simp only [Wk]; omega
  have hV : (aval w.buffer * 2 ^ (k + 8) + low1) * 2 ^ sh =
      aval w.buffer * 2 ^ (k + sh + 8) + low1 * 2 ^ sh := by
    rw [show k + sh + 8 = (k + 8) + sh by omega, pow_add]; ring
  refine ⟨⟨hlo, hhi, ?_, ?_, ?_, ?_⟩, rfl, ?_, ?_, Or.inl ⟨rfl, rfl, hWk⟩⟩
  · rw [hWk]
  · rw [hWk]; exact h
  · rw [hWk]; simp only; rw [← Nat.add_mul]; exact hsum
  · simp only [WV, WT, hWk]
    calc _ = (aval w.buffer * 2 ^ (k + 8) + low1 + range1) * 2 ^ sh := by rw [← hV]; ring
      _ ≤ 2 ^ (8 * w.buffer.size + k + 8) * 2 ^ sh := Nat.mul_le_mul_right _ hglob
      _ = _ := by rw [← pow_add]; congr 1; omega
  · simp only [WT, hWk]; omega
  · simp only [WV, hWk]; rw [hV]

theorem putCore_spec_out (w : Writer) (low1 range1 k : Nat) (hk : w.bitsLeft = (k:Int) - 24)
    (hr1 : 0 < range1) (hr2 : range1 < 256)
    (hlow : low1 + range1 ≤ 2 ^ (k + 9))
    (hglob : aval w.buffer * 2 ^ (k + 8) + low1 + range1 ≤ 2 ^ (8 * w.buffer.size + k + 8))
    (hk24 : k < 24) (h : 24 ≤ k + lz8 range1) :
    StepSpec w (putCore w low1 range1) k low1 range1 (lz8 range1) := by
  obtain ⟨hsh, hlo, hhi⟩ := lz8_spec range1 hr1 hr2
  rw [putCore_out w low1 range1 k hk hk24 h]
  generalize hshd : lz8 range1 = sh at *
  unfold StepSpec
  have hpk : (2:Nat) ^ (24 - k) = 2 * 2 ^ (23 - k) := by rw [← pow_succ']; congr 1; omega
  have hkk : (2:Nat) ^ k * 2 ^ (24 - k) = 16777216 := by
    rw [← pow_add, show k + (24 - k) = 24 by omega]; norm_num
  have hk8 : (2:Nat) ^ (k + 8) * 2 ^ (24 - k) = 4294967296 := by
    rw [← pow_add, show k + 8 + (24 - k) = 32 by omega]; norm_num
  have hk9 : (2:Nat) ^ (k + 9) * 2 ^ (24 - k) = 8589934592 := by
    rw [← pow_add, show k + 9 + (24 - k) = 33 by omega]; norm_num
  have hppos : 0 < (2:Nat) ^ (24 - k) := Nat.pow_pos (by norm_num)
  generalize hMd : low1 * 2 ^ (24 - k) = M at *
  have hM33 : M < 8589934592 := by
    have : low1 < 2 ^ (k + 9) := by omega
    rw [← hMd, ← hk9]; exact Nat.mul_lt_mul_of_pos_right this hppos
  have hMy : M = 2 * (low1 * 2 ^ (23 - k)) := by rw [← hMd, hpk]; ring
  have hdiv : low1 / 2 ^ k = M / 16777216 := by
    rw [← hMd, ← hkk, Nat.mul_div_mul_right _ _ hppos]
  generalize hcd : k + sh - 24 = cnt at *
  have hcnt : cnt ≤ 6 := by omega
  have h2c : (2:Nat) ^ cnt ≤ 64 := by
    calc (2:Nat) ^ cnt ≤ 2 ^ 6 := Nat.pow_le_pow_right (by norm_num) hcnt
      _ = 64 := by norm_num
  have hm24 : M % 16777216 < 16777216 := Nat.mod_lt _ (by norm_num)
  have hlow' : M % 16777216 * 2 ^ cnt ≤ 16777215 * 2 ^ cnt := Nat.mul_le_mul_right _ (by omega)
  have e_low : u32 ((u32 (low1 <<< (24 - k)) &&& 0xffffff) <<< cnt) = (M % 16777216) * 2 ^ cnt := by
    rw [Nat.shiftLeft_eq, Nat.shiftLeft_eq, and_mask24, hMd]
    unfold u32
    rw [show M % 4294967296 % 16777216 = M % 16777216 by omega]
    apply Nat.mod_eq_of_lt
    have := Nat.mul_le_mul_left 16777215 h2c
    omega
  have e_rng : u32 (range1 <<< sh) = range1 * 2 ^ sh := by
    rw [Nat.shiftLeft_eq]; exact Nat.mod_eq_of_lt (by omega)
  have hcond : (u32 (low1 <<< (23 - k)) &&& 0x80000000 ≠ 0) ↔ M / 4294967296 = 1 := by
    rw [and_bit31, Nat.shiftLeft_eq]; unfold u32; omega
  have hbyte : (UInt8.ofNat ((low1 >>> k) % 256)).toNat = M / 16777216 % 256 := by
    rw [UInt8.toNat_ofNat', Nat.shiftRight_eq_div_pow, hdiv]; norm_num
  have hbuf : ∃ bf, (if u32 (low1 <<< (23 - k)) &&& 0x80000000 ≠ 0 then carry w.buffer (w.buffer.size - 1)
      else w.buffer) = bf ∧ aval bf = aval w.buffer + M / 4294967296 ∧ bf.size = w.buffer.size := by
    by_cases hc : M / 4294967296 = 1
    · rw [if_pos (hcond.2 hc), hc]
      have hl1 : 2 ^ (k + 8) ≤ low1 := by
        have : 2 ^ (k + 8) * 2 ^ (24 - k) ≤ low1 * 2 ^ (24 - k) := by rw [hk8, hMd]; omega
        exact Nat.le_of_mul_le_mul_right this hppos
      have hsz : (2:Nat) ^ (8 * w.buffer.size + k + 8) = 256 ^ w.buffer.size * 2 ^ (k + 8) := by
        rw [show 8 * w.buffer.size + k + 8 = 8 * w.buffer.size + (k + 8) by omega, pow_add, pow_mul]
        norm_num
      have : (aval w.buffer + 1) * 2 ^ (k + 8) < 256 ^ w.buffer.size * 2 ^ (k + 8) := by
        rw [← hsz, Nat.add_mul]; omega
      have hlt := Nat.lt_of_mul_lt_mul_right this
      obtain ⟨c1, c2⟩ := carry_aval w.buffer hlt
      exact ⟨_, rfl, c1, c2⟩
    · rw [if_neg (fun hh => hc (hcond.1 hh))]
      exact ⟨_, rfl, by omega, rfl⟩
  obtain ⟨bf, hbf, hbfv, hbfs⟩ := hbuf
  rw [hbf, e_low, e_rng]
  have hWk : Wk (Writer.mk (M % 16777216 * 2 ^ cnt) (range1 * 2 ^ sh) ((cnt : Int) - 8)
      (bf.push (UInt8.ofNat ((low1 >>> k) % 256)))) = cnt + 16 := by
    simp only [Wk]; omega
  have hMdec : M = M / 4294967296 * 4294967296 + M / 16777216 % 256 * 16777216 + M % 16777216 := by
    omega
  have hshs : (2:Nat) ^ sh = 2 ^ (24 - k) * 2 ^ cnt := by rw [← pow_add]; congr 1; omega
  have hk8' : (2:Nat) ^ (k + 8) = 2 ^ k * 256 := by rw [pow_add]; norm_num
  have hc24 : (2:Nat) ^ (cnt + 16 + 8) = 16777216 * 2 ^ cnt := by
    rw [show cnt + 16 + 8 = 24 + cnt by omega, pow_add]; norm_num
  have hV : (aval w.buffer * 2 ^ (k + 8) + low1) * 2 ^ sh =
      aval (bf.push (UInt8.ofNat ((low1 >>> k) % 256))) * 2 ^ (cnt + 16 + 8) + M % 16777216 * 2 ^ cnt := by
    rw [aval_push, hbyte, hbfv, hc24, hshs, hk8']
    have e1 : (aval w.buffer * (2 ^ k * 256) + low1) * (2 ^ (24 - k) * 2 ^ cnt) =
        (aval w.buffer * 256 * (2 ^ k * 2 ^ (24 - k)) + low1 * 2 ^ (24 - k)) * 2 ^ cnt := by ring
    rw [e1, hkk, hMd]
    generalize aval w.buffer = B
    generalize hq : M / 4294967296 = c at *
    generalize hbq : M / 16777216 % 256 = byte at *
    generalize hrq : M % 16777216 = m24 at *
    rw [hMdec]; ring
  refine ⟨⟨hlo, hhi, ?_, ?_, ?_, ?_⟩, rfl, ?_, ?_, Or.inr ⟨?_, ?_, rfl, ?_, h⟩⟩
  · rw [hWk]; push_cast; ring
  · rw [hWk]; omega
  · rw [hWk]; simp only
    have : (2:Nat) ^ (cnt + 16 + 9) = 33554432 * 2 ^ cnt := by
      rw [show cnt + 16 + 9 = 25 + cnt by omega, pow_add]; norm_num
    rw [this]
    have : 1 ≤ 2 ^ cnt := Nat.one_le_two_pow
    nlinarith
  · simp only [WV, WT, hWk]
    rw [← hV]
    have hT : 8 * (bf.push (UInt8.ofNat ((low1 >>> k) % 256))).size + (cnt + 16) + 8 =
        (8 * w.buffer.size + k + 8) + sh := by simp [hbfs]; omega
    rw [hT, Nat.pow_add 2 (8 * w.buffer.size + k + 8) sh, ← Nat.add_mul]
    exact Nat.mul_le_mul_right _ hglob
  · simp only [WT, hWk]; simp [hbfs]; omega
  · simp only [WV, hWk]; rw [hV]
  · simp [hbfs]
  · rw [hWk]; simp only
    rw [hc24]
    exact Nat.mul_lt_mul_of_pos_right hm24 (Nat.pow_pos (by norm_num))
  · rw [hWk]; omega

theorem WInv.glob' {w : Writer} (hw : WInv w) :
    aval w.buffer * 2 ^ (Wk w + 8) + w.low + w.range ≤ 2 ^ (8 * w.buffer.size + Wk w + 8) := hw.glob

theorem WInv.low32 {w : Writer} (hw : WInv w) : w.low + w.range ≤ 4294967296 := by
  have h1 := hw.low_bd
  have h2 : (2:Nat) ^ (Wk w + 9) ≤ 2 ^ 32 := Nat.pow_le_pow_right (by norm_num) (by have := hw.k_lt; omega)
  norm_num at h2; omega

/-- one coding step, exact form -/
theorem putSplit_spec (w : Writer) (b : Bool) (s : Nat) (hw : WInv w) (hs0 : 0 < s) (hs : s < w.range) :
    StepSpec w (w.putSplit b s) (Wk w) (if b then w.low + s else w.low) (if b then w.range - s else s)
      (lz8 (if b then w.range - s else s)) := by
  have h32 := hw.low32
  have hu : u32 (w.low + s) = w.low + s := Nat.mod_eq_of_lt (by omega)
  rw [putSplit_eq_core, hu]
  have hr := hw.r_hi
  have hlb := hw.low_bd
  have hg := hw.glob'
  have hr1 : 0 < (if b then w.range - s else s) := by cases b <;> simp <;> omega
  have hr2 : (if b then w.range - s else s) < 256 := by cases b <;> simp <;> omega
  have hlow : (if b then w.low + s else w.low) + (if b then w.range - s else s) ≤ 2 ^ (Wk w + 9) := by
    cases b <;> simp <;> omega
  have hglob : aval w.buffer * 2 ^ (Wk w + 8) + (if b then w.low + s else w.low)
      + (if b then w.range - s else s) ≤ 2 ^ (8 * w.buffer.size + Wk w + 8) := by
    cases b <;> simp <;> omega
  by_cases h : Wk w + lz8 (if b then w.range - s else s) < 24
  · exact putCore_spec_noout w _ _ _ hw.bl hr1 hr2 hlow hglob h
  · exact putCore_spec_out w _ _ _ hw.bl hr1 hr2 hlow hglob hw.k_lt (by omega)

theorem putSplit_ideal (w : Writer) (b : Bool) (s : Nat) (hw : WInv w) (hs0 : 0 < s) (hs : s < w.range) :
    WInv (w.putSplit b s) ∧
    (w.putSplit b s).range = (if b then w.range - s else s) * 2 ^ lz8 (if b then w.range - s else s) ∧
    WT (w.putSplit b s) = WT w + lz8 (if b then w.range - s else s) ∧
    WV (w.putSplit b s) = (WV w + (if b then s else 0)) * 2 ^ lz8 (if b then w.range - s else s) := by
  obtain ⟨h1, h2, h3, h4, _⟩ := putSplit_spec w b s hw hs0 hs
  refine ⟨h1, h2, h3, ?_⟩
  rw [h4]; simp only [WV]
  cases b <;> simp <;> ring

/-! ### the final code value -/

/-- `out`, read as a binary fraction, lies in the interval of `w`, and `out` is long enough that a
    decoder positioned at `w` never runs out of input -/
def Final (w : Writer) (out : Array UInt8) : Prop :=
  ∃ d e, e ≤ d ∧ 8 * out.size + e = WT w + d + 8 ∧
    WV w * 2 ^ d ≤ aval out * 2 ^ e ∧ aval out * 2 ^ e < (WV w + w.range) * 2 ^ d

theorem final_step (w : Writer) (b : Bool) (s : Nat) (out : Array UInt8) (hw : WInv w)
    (hs0 : 0 < s) (hs : s < w.range) (hf : Final (w.putSplit b s) out) :
    ∃ d e, e ≤ d ∧ 8 * out.size + e = WT w + d + 8 ∧
      WV w * 2 ^ d ≤ aval out * 2 ^ e ∧ aval out * 2 ^ e < (WV w + w.range) * 2 ^ d ∧
      (if b then (WV w + s) * 2 ^ d ≤ aval out * 2 ^ e else aval out * 2 ^ e < (WV w + s) * 2 ^ d) := by
  obtain ⟨_, h2, h3, h4⟩ := putSplit_ideal w b s hw hs0 hs
  obtain ⟨d, e, hed, hsz, hlo, hhi⟩ := hf
  rw [h4] at hlo hhi
  rw [h2] at hhi
  rw [h3] at hsz
  generalize lz8 (if b then w.range - s else s) = sh at *
  refine ⟨sh + d, e, by omega, by omega, ?_, ?_, ?_⟩
  · rw [pow_add, ← Nat.mul_assoc]
    refine Nat.le_trans (Nat.mul_le_mul_right _ (Nat.mul_le_mul_right _ ?_)) hlo
    omega
  · rw [pow_add, ← Nat.mul_assoc]
    refine Nat.lt_of_lt_of_le hhi (Nat.mul_le_mul_right _ ?_)
    rw [← Nat.add_mul]
    refine Nat.mul_le_mul_right _ ?_
    cases b <;> simp <;> omega
  · cases b
    · simp only [Bool.false_eq_true, if_false] at *
      rw [pow_add, ← Nat.mul_assoc]
      refine Nat.lt_of_lt_of_le hhi (Nat.le_of_eq ?_)
      ring
    · simp only [if_true] at *
      rw [pow_add, ← Nat.mul_assoc]
      exact hlo

theorem final_back (w : Writer) (b : Bool) (s : Nat) (out : Array UInt8) (hw : WInv w)
    (hs0 : 0 < s) (hs : s < w.range) (hf : Final (w.putSplit b s) out) : Final w out := by
  obtain ⟨d, e, h1, h2, h3, h4, _⟩ := final_step w b s out hw hs0 hs hf
  exact ⟨d, e, h1, h2, h3, h4⟩

end Preflate.Proofs
