/-
VP8 bool coder, decoder side: the 64-bit window of the reader equals (code prefix − exact low end of
the writer), aligned at bit 56 (`DInv`); `fill` and `getSplit` preserve this and `getSplit` returns
the encoded bit.
-/
import Preflate.Proofs.VP8Finish
namespace Preflate.Proofs
open Preflate Preflate.VP8
set_option linter.unusedVariables false

/-- the first `p` bytes of `out` as a big-endian number -/
def pref (out : Array UInt8) (p : Nat) : Nat := bval (out.toList.take p)

theorem pref_succ (out : Array UInt8) (p : Nat) (h : p < out.size) :
    pref out (p + 1) = pref out p * 256 + (out.getD p 0).toNat := by
  have hl : p < out.toList.length := by simpa using h
  simp only [pref]
  rw [List.take_succ_eq_append_getElem hl, bval_append_single]
  congr 2
  rw [Array.getD_eq_getD_getElem?]
  simp [h]

theorem pref_eq_div (out : Array UInt8) (p : Nat) :
    pref out p = aval out / 256 ^ (out.size - p) := by
  simp only [pref, aval]; rw [bval_take]; simp

theorem or_eq_add (x y a : Nat) (hx : 2 ^ a ∣ x) (hy : y < 2 ^ a) : x ||| y = x + y := by
  obtain ⟨q, rfl⟩ := hx
  exact (Nat.two_pow_add_eq_or_of_lt hy q).symm

/-- the fill loop; `a = 56 - count` is the number of still-empty low bits of the window -/
theorem fillLoop_spec (out : Array UInt8) (V : Nat) : ∀ (fuel value a pos : Nat),
    a ≤ 64 → pos ≤ out.size → a < 8 * fuel + 8 →
    value + V * 2 ^ 56 = pref out pos * 2 ^ a → 2 ^ a ∣ value →
    ∃ (v' a' p' : Nat), Reader.fillLoop fuel value (56 - (a:Int)) ((a:Int) - 8) out pos = (v', 56 - (a':Int), p') ∧
      a' ≤ a ∧ p' ≤ out.size ∧ 8 * p' + a' = 8 * pos + a ∧
      v' + V * 2 ^ 56 = pref out p' * 2 ^ a' ∧ 2 ^ a' ∣ v' ∧ (a' < 8 ∨ p' = out.size) := by
  intro fuel
  induction fuel with
  | zero =>
    intro value a pos ha hp hf hv hd
    exact ⟨value, a, pos, rfl, le_refl _, hp, rfl, hv, hd, Or.inl (by omega)⟩
  | succ fuel ih =>
    intro value a pos ha hp hf hv hd
    unfold Reader.fillLoop
    by_cases hs : (a:Int) - 8 ≥ 0
    · by_cases hpos : pos < out.size
      · simp only [hs, hpos, if_true]
        have ha8 : 8 ≤ a := by omega
        have e1 : (56 - (a:Int)) + 8 = 56 - ((a - 8 : Nat) : Int) := by omega
        have e2 : (a:Int) - 8 - 8 = ((a - 8 : Nat) : Int) - 8 := by omega
        have e3 : ((a:Int) - 8).toNat = a - 8 := by omega
        rw [e1, e2, e3]
        have hbyte := u8_lt (out.getD pos 0)
        generalize hbd : (out.getD pos 0).toNat = byte at *
        have hpa : (2:Nat) ^ a = 2 ^ (a - 8) * 256 := by
          rw [show (256:Nat) = 2 ^ 8 by norm_num, ← pow_add]; congr 1; omega
        have hlt : byte <<< (a - 8) < 2 ^ a := by
          rw [Nat.shiftLeft_eq, hpa, Nat.mul_comm]
          exact Nat.mul_lt_mul_of_pos_left hbyte (Nat.pow_pos (by norm_num))
        have hor : value ||| byte <<< (a - 8) = value + byte * 2 ^ (a - 8) := by
          rw [or_eq_add _ _ a hd hlt, Nat.shiftLeft_eq]
        rw [hor]
        obtain ⟨v', a', p', g1, g2, g3, g4, g5, g6, g7⟩ :=
          ih (value + byte * 2 ^ (a - 8)) (a - 8) (pos + 1) (by omega) (by omega) (by omega)
            (by rw [pref_succ out pos hpos, hbd, Nat.add_right_comm, hv, hpa]; ring)
            (Nat.dvd_add (Nat.dvd_trans (Nat.pow_dvd_pow 2 (by omega)) hd) (Nat.dvd_mul_left _ _))
        exact ⟨v', a', p', g1, by omega, g3, by omega, g5, g6, g7⟩
      · simp only [hs, hpos, if_true, if_false]
        exact ⟨value, a, pos, rfl, le_refl _, hp, rfl, hv, hd, Or.inr (by omega)⟩
    · simp only [hs, if_false]
      exact ⟨value, a, pos, rfl, le_refl _, hp, rfl, hv, hd, Or.inl (by omega)⟩

/-- number of still-empty low bits of the window: `56 - count` -/
def DA (r : Reader) : Nat := (56 - r.count).toNat

/-- the reader `r` is positioned at the writer state `w` on the byte string `out` -/
structure DInv (r : Reader) (w : Writer) (out : Array UInt8) : Prop where
  inp : r.input = out
  rng : r.range = w.range
  pos_le : r.pos ≤ out.size
  a_le : DA r ≤ 64
  cnt_eq : r.count = 56 - (DA r : Int)
  cnt : 8 * r.pos + DA r = WT w + 64
  val : r.value + WV w * 2 ^ 56 = pref out r.pos * 2 ^ DA r
  dvd : 2 ^ DA r ∣ r.value

theorem fill_spec (r : Reader) (w : Writer) (out : Array UInt8) (h : DInv r w out)
    (hlen : WT w + 8 ≤ 8 * out.size) : DInv r.fill w out ∧ 0 ≤ r.fill.count := by
  obtain ⟨v', a', p', g1, g2, g3, g4, g5, g6, g7⟩ :=
    fillLoop_spec out (WV w) 9 r.value (DA r) r.pos h.a_le h.pos_le (by have := h.a_le; omega) h.val h.dvd
  have hsh : (56:Int) - (r.count + 8) = (DA r : Int) - 8 := by have := h.cnt_eq; omega
  have hfill : r.fill = { r with value := v', count := 56 - (a':Int), pos := p' } := by
    unfold Reader.fill
    simp only [hsh]
    rw [h.inp, h.cnt_eq, g1]
  have hDA : DA { r with value := v', count := 56 - (a':Int), pos := p' } = a' := by
    simp only [DA]; omega
  rw [hfill]
  have hc := h.cnt
  have ha := h.a_le
  refine ⟨⟨h.inp, h.rng, g3, ?_, ?_, ?_, ?_, ?_⟩, ?_⟩
  · rw [hDA]; omega
  · rw [hDA]
  · rw [hDA]; simp only; omega
  · rw [hDA]; exact g5
  · rw [hDA]; exact g6
  · simp only
    rcases g7 with g | g
    · omega
    · subst g; omega

/-- decoding one decision -/
theorem getSplit_spec (r : Reader) (w : Writer) (out : Array UInt8) (b : Bool) (s : Nat)
    (h : DInv r w out) (hc0 : 0 ≤ r.count) (hw : WInv w) (hs0 : 0 < s) (hs : s < w.range)
    (hf : Final (w.putSplit b s) out) :
    ∃ r', r.getSplit s = (b, r') ∧ DInv r' (w.putSplit b s) out := by
  obtain ⟨d, e, hed, hsz, hlo, hhi, hbit⟩ := final_step w b s out hw hs0 hs hf
  obtain ⟨i1, i2, i3, i4⟩ := putSplit_ideal w b s hw hs0 hs
  have hce := h.cnt_eq
  have hcn := h.cnt
  have hple := h.pos_le
  have hrlo := hw.r_lo
  have hrhi := hw.r_hi
  have hrng := h.rng
  -- c = count
  obtain ⟨c, hc⟩ : ∃ c : Nat, r.count = (c : Int) := ⟨r.count.toNat, by omega⟩
  have hc56 : c ≤ 56 := by omega
  have hDA : DA r = 56 - c := by omega
  have hd : d = e + c + 8 * (out.size - r.pos) := by omega
  have hval := h.val
  have hdvd := h.dvd
  rw [hDA] at hval hdvd
  rw [pref_eq_div] at hval
  have hcmp := fun X => cmp_iff X (aval out) out.size r.pos c e d hple hc56 hd
  rw [← hval] at hcmp
  -- upper bound on the window
  have hub : r.value < w.range * 2 ^ 56 := by
    have := (hcmp (WV w + w.range)).not.2 (by omega)
    rw [Nat.add_mul] at this; omega
  -- the decision
  have hdec : (r.value ≥ s * 2 ^ 56) ↔ b = true := by
    have := hcmp (WV w + s)
    rw [Nat.add_mul] at this
    cases b
    · simp only [Bool.false_eq_true, if_false] at hbit
      simp only [Bool.false_eq_true, iff_false]
      have := this.not.2 (by omega)
      generalize (2:Nat) ^ 56 = P at *
      omega
    · simp only [if_true] at hbit
      simp only [iff_true]
      have := this.2 hbit
      generalize (2:Nat) ^ 56 = P at *
      omega
  unfold Reader.getSplit
  simp only [Nat.shiftLeft_eq]
  have hbd : decide (r.value ≥ s * 2 ^ 56) = b := by
    cases b
    · exact decide_eq_false (fun hh => by simpa using hdec.1 hh)
    · exact decide_eq_true (hdec.2 rfl)
  rw [hbd]
  refine ⟨_, rfl, ?_⟩
  -- the two sub-intervals, uniformly
  generalize hr1 : (if b then w.range - s else s) = range1 at *
  have hr1pos : 0 < range1 := by subst hr1; cases b <;> simp <;> omega
  have hr1lt : range1 < 256 := by subst hr1; cases b <;> simp <;> omega
  obtain ⟨l1, l2, l3⟩ := lz8_spec range1 hr1pos hr1lt
  have hpair : (if b = true then (r.range - s, r.value - s * 2 ^ 56) else (s, r.value)) =
      (range1, if b then r.value - s * 2 ^ 56 else r.value) := by
    subst hr1; rw [hrng]; cases b <;> simp
  rw [hpair]
  simp only
  rw [lz32_eq range1 hr1pos hr1lt]
  generalize lz8 range1 = sh at *
  generalize hv1 : (if b then r.value - s * 2 ^ 56 else r.value) = value1 at *
  have hv1b : value1 < range1 * 2 ^ 56 := by
    subst hr1 hv1
    cases b
    · simp only [Bool.false_eq_true, if_false]
      have := hdec.not.2 (by simp)
      generalize (2:Nat) ^ 56 = P at *
      omega
    · simp only [if_true]
      have := hdec.2 rfl
      rw [Nat.sub_mul]
      generalize (2:Nat) ^ 56 = P at *
      omega
  have hv1e : value1 + (if b then s else 0) * 2 ^ 56 = r.value := by
    subst hv1
    cases b
    · simp
    · simp only [if_true]; have := hdec.2 rfl; omega
  have hv1d : 2 ^ (56 - c) ∣ value1 := by
    subst hv1
    cases b
    · simpa using hdvd
    · simp only [if_true]
      exact Nat.dvd_sub hdvd (Nat.dvd_trans (Nat.pow_dvd_pow 2 (by omega)) (Nat.dvd_mul_left _ _))
  have e_v : u64 (value1 * 2 ^ sh) = value1 * 2 ^ sh := by
    apply Nat.mod_eq_of_lt
    have : value1 * 2 ^ sh < range1 * 2 ^ 56 * 2 ^ sh :=
      Nat.mul_lt_mul_of_pos_right hv1b (Nat.pow_pos (by norm_num))
    have h2 : range1 * 2 ^ 56 * 2 ^ sh = range1 * 2 ^ sh * 2 ^ 56 := by ring
    have h3 : range1 * 2 ^ sh * 2 ^ 56 ≤ 255 * 2 ^ 56 := Nat.mul_le_mul_right _ l3
    norm_num at h3 ⊢; omega
  have e_r : u32 (range1 * 2 ^ sh) = range1 * 2 ^ sh := Nat.mod_eq_of_lt (by omega)
  rw [e_v, e_r]
  have hDA' : DA { r with value := value1 * 2 ^ sh, range := range1 * 2 ^ sh, count := r.count - (sh:Int) }
      = 56 - c + sh := by
    simp only [DA]; omega
  refine ⟨h.inp, i2.symm, hple, ?_, ?_, ?_, ?_, ?_⟩
  · rw [hDA']; omega
  · rw [hDA']; simp only; omega
  · rw [hDA', i3]; simp only; omega
  · rw [hDA', i4]; simp only
    rw [pref_eq_div, pow_add, ← Nat.mul_assoc, ← hval, ← hv1e]
    ring
  · rw [hDA']; simp only
    rw [pow_add]
    exact Nat.mul_dvd_mul hv1d (dvd_refl _)

end Preflate.Proofs
