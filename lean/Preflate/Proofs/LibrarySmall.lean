/-
CAPSTONE WITHOUT A STREAM-LEVEL HYPOTHESIS: the container round trip for files small enough that the
correction data of every accepted candidate provably fits the u32 length field of the chunk format.

`lib_round_trip` (Proofs/Library.lean) is left with ONE hypothesis about the stream level, `hcorr`: the
correction bytes of every accepted candidate cut out of the file are below 2^32. Proofs/CorrBound.lean
bounds them: at most 224 bytes per byte of the candidate, plus 202 (`lib_corr_size_le`). A candidate is
no longer than the file (`Cand`), so `hcorr` holds whenever 224 * f.length + 202 < 2^32 — in
particular for every file below 16 MiB (2^24 bytes; the largest power of two with that property;
the exact threshold is 19 173 960 bytes).
-/
import Preflate.Proofs.CorrBound
import Preflate.Proofs.Library
namespace Preflate.Proofs
open Preflate

/-- `hcorr` of `lib_round_trip`, discharged from the linear bound -/
theorem lib_hcorr_of_size (f : Bytes) (hf : 224 * f.length + 202 < 2 ^ 32) :
    ∀ d r, Cand f d → libOracle.verified d = .ok r → r.corr.length < 2 ^ 32 := by
  intro d r hc h
  have hd : d.length ≤ f.length := hc.1
  have e : (2 : Nat) ^ 32 = 4294967296 := by decide
  have e' : (2 : Nat) ^ 29 = 536870912 := by decide
  have := lib_corr_size_le d (by omega) r h
  omega

theorem size_of_lt_16M (f : Bytes) (hf : f.length < 2 ^ 24) :
    224 * f.length + 202 < 2 ^ 32 ∧ f.length < 2 ^ 32 := by
  have e : (2 : Nat) ^ 32 = 4294967296 := by decide
  have e' : (2 : Nat) ^ 29 = 536870912 := by decide
  have e'' : (2 : Nat) ^ 24 = 16777216 := by decide
  omega

/-- C01 for the concrete library model, general size form: no stream-level hypothesis -/
theorem lib_round_trip_of_size (crc : Bytes → Nat) (f : Bytes)
    (hb : ∀ b ∈ f, b < 256) (hf : 224 * f.length + 202 < 2 ^ 32) :
    ∃ c, libExpand crc f = .ok c ∧ libRecreate crc c = .ok f := by
  have e : (2 : Nat) ^ 32 = 4294967296 := by decide
  have e' : (2 : Nat) ^ 29 = 536870912 := by decide
  exact lib_round_trip crc f hb (by omega) (lib_hcorr_of_size f hf)

/-- **C01 for the concrete library model, files below 16 MiB**: no hypothesis left but "bytes" -/
theorem lib_round_trip_small (crc : Bytes → Nat) (f : Bytes)
    (hb : ∀ b ∈ f, b < 256) (hf : f.length < 2 ^ 24) :
    ∃ c, libExpand crc f = .ok c ∧ libRecreate crc c = .ok f :=
  lib_round_trip_of_size crc f hb (size_of_lt_16M f hf).1

/-- **C01 + C13 end to end, files below 16 MiB** -/
theorem lib_end_to_end_small (crc : Bytes → Nat) (f : Bytes)
    (hb : ∀ b ∈ f, b < 256) (hf : f.length < 2 ^ 24) :
    ∃ c, libExpand crc f = .ok c ∧ libRecreate crc c = .ok f ∧
      (∀ rs ws, OnlyShort rs → OnlyShort ws →
        ∃ s' k', libRecreateIO crc ⟨c, rs⟩ ⟨[], ws⟩ = (.ok (), s', k') ∧ k'.out = f) ∧
      (∀ rs ws, IoEv.zero ∉ rs →
        (∀ m, (libRecreateIO crc ⟨c, rs⟩ ⟨[], ws⟩).1 ≠ .error (.panic m)) ∧
        (libRecreateIO crc ⟨c, rs⟩ ⟨[], ws⟩).1 ≠ .error .fuel ∧
        (libRecreateIO crc ⟨c, rs⟩ ⟨[], ws⟩).2.2.out <+: f ∧
        ((libRecreateIO crc ⟨c, rs⟩ ⟨[], ws⟩).1 = .ok () →
          (libRecreateIO crc ⟨c, rs⟩ ⟨[], ws⟩).2.2.out = f)) :=
  lib_end_to_end crc f hb (size_of_lt_16M f hf).2 (lib_hcorr_of_size f (size_of_lt_16M f hf).1)

end Preflate.Proofs
