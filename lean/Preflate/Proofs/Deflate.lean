/-
Helper lemmas for C07 (parse / write re-emission). See Props/C07.lean for the statements.
-/
import Preflate.Model.Deflate
namespace Preflate.Proofs
open Preflate

theorem write_parse_bits (bs : Bits) (p : Parsed) (hlen : bs.length % 8 = 0)
    (h : parseBits bs = .ok p) :
    ∃ w, writeStreamBits p.blocks p.eofPadding = .ok w ∧ bs = w ++ p.rest ∧ w.length % 8 = 0 := by
  sorry

theorem write_parse (d : List UInt8) (p : Parsed) (h : parse d = .ok p) :
    writeStream p.blocks p.eofPadding = .ok (d.take (p.consumed d)) ∧ p.consumed d ≤ d.length := by
  sorry

end Preflate.Proofs
