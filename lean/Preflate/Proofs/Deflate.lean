/-
Helper lemmas for C07 (parse / write re-emission). See Props/C07.lean for the statements.
-/
import Preflate.Model.Deflate
import Preflate.Proofs.Bits
import Preflate.Proofs.Tables
namespace Preflate.Proofs
open Preflate Preflate.Gen
set_option linter.unusedSimpArgs false

theorem ok_bind {ε α β : Type} (a : α) (f : α → Except ε β) : (Except.ok a >>= f) = f a := rfl

theorem throw_bind_eq_ok {ε α β : Type} (e : ε) (f : α → Except ε β) (b : β) :
    ((throw e : Except ε α) >>= f) = .ok b ↔ False := by
  simp [throw, throwThe, MonadExceptOf.throw, bind, Except.bind]

theorem writeToken_ref (ll dl : List Nat) {c ex dc dx : Nat} (hc : c < 29)
    (hex : ex < 2 ^ lengthExtra c) (hs : 257 + c < ll.length) (hdc : dc < 30)
    (hdx : dx < 2 ^ distExtra dc) (hds : dc < dl.length) :
    writeToken ll dl (.ref (3 + lengthBase c + ex) (1 + distBase dc + dx)
      (3 + lengthBase c + ex == 258 && c != 28)) =
    .ok ((codeBits ll (257 + c) ++ bitsOfNat (lengthExtra c) ex) ++
         (codeBits dl dc ++ bitsOfNat (distExtra dc) dx)) := by
  have hq := dist_quantize hdc hdx
  have e1 : ∀ site, idx DIST_EXTRA_TABLE dc site = .ok (distExtra dc) :=
    fun site => idx_ok _ _ site (by rw [distExtra_len]; exact hdc)
  have e2 : ∀ site, idx DIST_BASE_TABLE dc site = .ok (distBase dc) :=
    fun site => idx_ok _ _ site (by rw [distBase_len]; exact hdc)
  have e3 : ∀ site, idx LENGTH_EXTRA_TABLE c site = .ok (lengthExtra c) :=
    fun site => idx_ok _ _ site (by rw [lengthExtra_len]; exact hc)
  have e4 : ∀ site, idx LENGTH_BASE_TABLE c site = .ok (lengthBase c) :=
    fun site => idx_ok _ _ site (by rw [lengthBase_len]; exact hc)
  have h1 : ¬ (1 + distBase dc + dx < 1 + distBase dc) := by omega
  have h2 : 1 + distBase dc + dx - 1 - distBase dc = dx := by omega
  have h3 : ∀ site, emit dx (distExtra dc) site = .ok (bitsOfNat (distExtra dc) dx) :=
    fun site => emit_ok site hdx
  have h4 : ¬ (3 + lengthBase c + ex < 3 + lengthBase c) := by omega
  have h5 : 3 + lengthBase c + ex - 3 - lengthBase c = ex := by omega
  have h6 : ∀ site, emit ex (lengthExtra c) site = .ok (bitsOfNat (lengthExtra c) ex) :=
    fun site => emit_ok site hex
  have h7 : ¬ distExtra dc > 0 → bitsOfNat (distExtra dc) dx = [] := by
    intro h
    have : distExtra dc = 0 := by omega
    rw [this]; rfl
  have h8 : ¬ lengthExtra c > 0 → bitsOfNat (lengthExtra c) ex = [] := by
    intro h
    have : lengthExtra c = 0 := by omega
    rw [this]; rfl
  unfold writeToken
  simp only [hq, ok_bind, writeSym, hds, if_true, e1, e2, h1, h2, h3, if_false]
  by_cases hirr : (3 + lengthBase c + ex == 258 && c != 28) = true
  · rw [if_pos hirr]
    have := length_irregular hc hex (by simpa using hirr)
    obtain ⟨rfl, rfl⟩ := this
    have hs' : LITLEN_CODE_COUNT - 2 < ll.length := by simp only [LITLEN_CODE_COUNT]; omega
    have e5 : ∀ site, emit 31 5 site = .ok (bitsOfNat (lengthExtra 27) 31) := fun site => by
      rw [emit_ok site (by decide)]; rfl
    have e6 : LITLEN_CODE_COUNT - 2 = 257 + 27 := by decide
    simp only [hs', if_true, ok_bind, e5]
    rw [e6]
    by_cases hnb : distExtra dc > 0
    · simp only [hnb, if_true, ok_bind]
    · simp only [hnb, if_false, h7 hnb, List.append_nil]
  · rw [if_neg hirr]
    have hql := length_regular hc hex (by simpa using hirr)
    have hs' : NONLEN_CODE_COUNT + c < ll.length := by simp only [NONLEN_CODE_COUNT]; omega
    have e6 : NONLEN_CODE_COUNT + c = 257 + c := by simp only [NONLEN_CODE_COUNT]
    simp only [hql, ok_bind, hs', if_true, e3, e4, MIN_MATCH, h4, h5, h6, if_false]
    rw [e6]
    by_cases hnb : distExtra dc > 0 <;> by_cases hnl : lengthExtra c > 0
    · simp only [hnb, hnl, if_true, ok_bind]
    · simp only [hnb, hnl, if_true, if_false, ok_bind, h8 hnl, List.append_nil]
    · simp only [hnb, hnl, if_true, if_false, ok_bind, h7 hnb, List.append_nil]
    · simp only [hnb, hnl, if_true, if_false, ok_bind, h7 hnb, h8 hnl, List.append_nil]


-- ---------------------------------------------------------------------------------------------
-- dynamic header: code length code lengths

theorem readCodeLengths_frame {n i : Nat} {acc : List Nat} {bs : Bits} {cl : List Nat} {rest : Bits}
    (h : readCodeLengths n i acc bs = .ok (cl, rest)) :
    cl.length = acc.length ∧
    ∀ p, (∀ j, i ≤ j → j < i + n → TREE_CODE_ORDER_TABLE.getD j 0 ≠ p) → cl[p]? = acc[p]? := by
  induction n generalizing i acc bs with
  | zero =>
    simp only [readCodeLengths, Except.ok.injEq, Prod.mk.injEq] at h
    obtain ⟨rfl, rfl⟩ := h
    exact ⟨rfl, fun _ _ => rfl⟩
  | succ n ih =>
    simp only [readCodeLengths, bind_eq_ok] at h
    obtain ⟨⟨v, bs1⟩, h1, h2⟩ := h
    simp only at h2
    obtain ⟨hl, hp⟩ := ih h2
    refine ⟨by simpa using hl, ?_⟩
    intro p hq
    rw [hp p (fun j hj1 hj2 => hq j (by omega) (by omega))]
    have := hq i (by omega) (by omega)
    rw [List.getElem?_set_ne this]

theorem readCodeLengths_ok {n i : Nat} {acc : List Nat} {bs : Bits} {cl : List Nat} {rest : Bits}
    (h : readCodeLengths n i acc bs = .ok (cl, rest)) (hi : i + n ≤ 19) (hacc : acc.length = 19) :
    ∃ w, writeCodeLengths cl n i = .ok w ∧ bs = w ++ rest := by
  induction n generalizing i acc bs with
  | zero =>
    simp only [readCodeLengths, Except.ok.injEq, Prod.mk.injEq] at h
    obtain ⟨rfl, rfl⟩ := h
    exact ⟨[], rfl, rfl⟩
  | succ n ih =>
    simp only [readCodeLengths, bind_eq_ok] at h
    obtain ⟨⟨v, bs1⟩, h1, h2⟩ := h
    simp only at h2
    obtain ⟨w, hw, hbs⟩ := ih h2 (by omega) (by simpa using hacc)
    obtain ⟨hl, hp⟩ := readCodeLengths_frame h2
    obtain ⟨hb1, hv⟩ := readBits_ok h1
    have ho := order_lt i (by omega)
    have hcl : cl[TREE_CODE_ORDER_TABLE.getD i 0]? = some v := by
      rw [hp _ (fun j hj1 hj2 hj => by
        have := order_inj j i (by omega) (by omega) hj; omega)]
      rw [List.getElem?_set_self (by omega)]
    refine ⟨bitsOfNat 3 v ++ w, ?_, ?_⟩
    · simp only [writeCodeLengths]
      rw [idx_ok _ _ _ (by rw [order_length]; omega)]
      simp only [ok_bind, idx_ok' _ _ _ _ hcl, emit_ok _ hv, hw]
    · rw [hb1, hbs, List.append_assoc]

-- ---------------------------------------------------------------------------------------------
-- dynamic header: run-length items

theorem readRleItems_ok (cl : List Nat) (total : Nat) {fuel read : Nat} {bs : Bits}
    {items : List RleItem} {rest : Bits}
    (h : readRleItems (codeTable cl) total fuel read bs = .ok (items, rest)) :
    ∃ w, writeRleItems cl items = .ok w ∧ bs = w ++ rest := by
  induction fuel generalizing read bs items with
  | zero => simp [readRleItems] at h
  | succ fuel ih =>
    rw [readRleItems] at h
    split at h
    · simp only [bind_eq_ok] at h
      obtain ⟨⟨w, bs1⟩, h1, h2⟩ := h
      simp only at h2
      obtain ⟨hb1, hw⟩ := decodeSym_ok h1
      split at h2
      · simp only [bind_eq_ok] at h2
        obtain ⟨⟨items', bs2⟩, h3, h4⟩ := h2
        simp only [Except.ok.injEq, Prod.mk.injEq] at h4
        obtain ⟨rfl, rfl⟩ := h4
        obtain ⟨w', hw', hbs⟩ := ih h3
        refine ⟨codeBits cl w ++ w', ?_, ?_⟩
        · simp only [writeRleItems, if_true, hw, ok_bind, hw']
        · rw [hb1, hbs, List.append_assoc]
      · split at h2
        · simp only [bind_eq_ok] at h2
          obtain ⟨⟨x, bs2⟩, h3, h4⟩ := h2
          simp only [bind_eq_ok] at h4
          obtain ⟨⟨items', bs3⟩, h5, h6⟩ := h4
          simp only [Except.ok.injEq, Prod.mk.injEq] at h6
          obtain ⟨rfl, rfl⟩ := h6
          obtain ⟨w', hw', hbs⟩ := ih h5
          obtain ⟨hb2, hx⟩ := readBits_ok h3
          refine ⟨codeBits cl w ++ bitsOfNat (treeCodeAdjust w).2 x ++ w', ?_, ?_⟩
          · have hk : ¬ w = 0 := by omega
            have e : x + (treeCodeAdjust w).1 - (treeCodeAdjust w).1 = x := by omega
            have hlt : ¬ (x + (treeCodeAdjust w).1 < (treeCodeAdjust w).1) := by omega
            simp only [writeRleItems, hk, if_false, hw, not_true, ok_bind, hlt, e, emit_ok _ hx, hw',
              pure_bind]
          · rw [hb1, hb2, hbs]; simp only [List.append_assoc]
        · simp at h2
    · split at h
      · simp only [Except.ok.injEq, Prod.mk.injEq] at h
        obtain ⟨rfl, rfl⟩ := h
        exact ⟨[], rfl, rfl⟩
      · simp at h


theorem readHeader_ok {bs : Bits} {h : Header} {rest : Bits} (hr : readHeader bs = .ok (h, rest)) :
    ∃ w, writeHeader h = .ok w ∧ bs = w ++ rest := by
  simp only [readHeader, bind_eq_ok] at hr
  obtain ⟨⟨a, bs1⟩, h1, ⟨b, bs2⟩, h2, ⟨c, bs3⟩, h3, ⟨cl, bs4⟩, h4, t, h5, ⟨items, bs5⟩, h6, hr⟩ := hr
  simp only at h2 h3 h4 h5 h6 hr
  simp only [Except.ok.injEq, Prod.mk.injEq] at hr
  obtain ⟨rfl, rfl⟩ := hr
  obtain ⟨e1, ha⟩ := readBits_ok h1
  obtain ⟨e2, hb⟩ := readBits_ok h2
  obtain ⟨e3, hc⟩ := readBits_ok h3
  obtain ⟨w4, hw4, e4⟩ := readCodeLengths_ok h4 (by omega) (by simp)
  rw [mkTable_ok h5] at h6
  obtain ⟨w6, hw6, e6⟩ := readRleItems_ok _ _ h6
  refine ⟨bitsOfNat 5 a ++ bitsOfNat 5 b ++ bitsOfNat 4 c ++ w4 ++ w6, ?_, ?_⟩
  · have n1 : ¬ (a + 257 < 257) := by omega
    have n2 : ¬ (b + 1 < 1) := by omega
    have n3 : ¬ (c + 4 < 4) := by omega
    simp only [writeHeader, n1, n2, n3, if_false, pure_bind, Nat.add_sub_cancel, emit_ok _ ha,
      emit_ok _ hb, emit_ok _ hc, ok_bind, hw4, hw6]
  · rw [e1, e2, e3, e4, e6]; simp only [List.append_assoc]

-- ---------------------------------------------------------------------------------------------
-- tokens

theorem decodeTokens_ok (ll dl : List Nat) {fuel : Nat} {plain : Array Nat} {bs : Bits}
    {ts : List Token} {plain' : Array Nat} {rest : Bits}
    (h : decodeTokens (codeTable ll) (codeTable dl) fuel plain bs = .ok (ts, plain', rest)) :
    ∃ w, writeTokens ll dl ts = .ok w ∧ bs = w ++ rest := by
  induction fuel generalizing plain bs ts with
  | zero => simp [decodeTokens] at h
  | succ fuel ih =>
    rw [decodeTokens] at h
    rw [if_neg (fun hc => by rw [if_pos hc] at h; cases h)] at h
    simp only [bind_eq_ok] at h
    obtain ⟨⟨sym, bs1⟩, h1, h⟩ := h
    simp only at h
    obtain ⟨e1, hsym⟩ := decodeSym_ok h1
    split at h
    · simp only [bind_eq_ok] at h
      obtain ⟨⟨ts', pl, bs2⟩, h2, h⟩ := h
      simp only [Except.ok.injEq, Prod.mk.injEq] at h
      obtain ⟨rfl, rfl, rfl⟩ := h
      obtain ⟨w, hw, e2⟩ := ih h2
      refine ⟨codeBits ll sym ++ w, ?_, ?_⟩
      · simp only [writeTokens, writeToken, writeSym, hsym, if_true, ok_bind, hw]
      · rw [e1, e2, List.append_assoc]
    · split at h
      · simp only [Except.ok.injEq, Prod.mk.injEq] at h
        obtain ⟨rfl, rfl, rfl⟩ := h
        rename_i hs
        subst hs
        refine ⟨codeBits ll 256, ?_, e1⟩
        simp only [writeTokens, writeSym, hsym, if_true]
      · split at h
        · simp only [throw_bind_eq_ok] at h
        · simp only [bind_eq_ok] at h
          obtain ⟨⟨ex, bs2⟩, h2, h⟩ := h
          simp only [bind_eq_ok] at h
          obtain ⟨⟨dc, bs3⟩, h3, h⟩ := h
          simp only at h
          split at h
          · simp only [throw_bind_eq_ok] at h
          · simp only [bind_eq_ok] at h
            obtain ⟨⟨dx, bs4⟩, h4, h⟩ := h
            simp only at h
            split at h
            · simp only [throw_bind_eq_ok] at h
            · simp only [bind_eq_ok] at h
              obtain ⟨⟨ts', pl, bs5⟩, h5, h⟩ := h
              simp only [Except.ok.injEq, Prod.mk.injEq] at h
              obtain ⟨rfl, rfl, rfl⟩ := h
              obtain ⟨w, hw, e5⟩ := ih h5
              obtain ⟨e2, hex⟩ := readBits_ok h2
              obtain ⟨e3, hdc⟩ := decodeSym_ok h3
              obtain ⟨e4, hdx⟩ := readBits_ok h4
              rename_i hn1 hn2 hc hdc' hpl
              simp only [NONLEN_CODE_COUNT, LEN_CODE_COUNT, DIST_CODE_COUNT, MIN_MATCH, ge_iff_le,
                Nat.not_le] at *
              have hsym' : 257 + (sym - 257) = sym := by omega
              have hwt := writeToken_ref ll dl hc hex (by omega) hdc' hdx hdc
              refine ⟨(codeBits ll (257 + (sym - 257)) ++ bitsOfNat (lengthExtra (sym - 257)) ex ++
                (codeBits dl dc ++ bitsOfNat (distExtra dc) dx)) ++ w, ?_, ?_⟩
              · simp only [writeTokens, ok_bind, Nat.reduceSub]
                rw [hwt]
                simp only [ok_bind, hw]
              · rw [e1, e2, e3, e4, e5, hsym']; simp only [List.append_assoc]


-- ---------------------------------------------------------------------------------------------
-- blocks

theorem readBytes_ok {n : Nat} {bs : Bits} {data : List Nat} {rest : Bits}
    (h : readBytes n bs = .ok (data, rest)) :
    bs = data.flatMap (bitsOfNat 8) ++ rest ∧ data.length = n := by
  induction n generalizing bs data with
  | zero =>
    simp only [readBytes, Except.ok.injEq, Prod.mk.injEq] at h
    obtain ⟨rfl, rfl⟩ := h
    exact ⟨rfl, rfl⟩
  | succ n ih =>
    simp only [readBytes, bind_eq_ok] at h
    obtain ⟨⟨b, bs1⟩, h1, ⟨r, bs2⟩, h2, h⟩ := h
    simp only [Except.ok.injEq, Prod.mk.injEq] at h2 h
    obtain ⟨rfl, rfl⟩ := h
    obtain ⟨e1, _⟩ := readBits_ok h1
    obtain ⟨e2, hl⟩ := ih h2
    refine ⟨?_, by simp [hl]⟩
    rw [e1, e2]; simp only [List.flatMap_cons, List.append_assoc]

theorem bitsOfNat_one {v : Nat} (h : v < 2 ^ 1) :
    bitsOfNat 1 v = [if (v == 1) = true then true else false] := by
  have : v = 0 ∨ v = 1 := by omega
  rcases this with rfl | rfl <;> rfl

theorem readBlock_ok {plain : Array Nat} {bs : Bits} {last : Bool} {b : Block} {plain' : Array Nat}
    {rest : Bits} (off : Nat) (hoff : (off + bs.length) % 8 = 0)
    (h : readBlock plain bs = .ok (last, b, plain', rest)) :
    ∃ w, writeBlock off last b = .ok w ∧ bs = w ++ rest := by
  rw [readBlock] at h
  simp only [bind_eq_ok] at h
  obtain ⟨⟨lastN, bs1⟩, h1, ⟨mode, bs2⟩, h2, h⟩ := h
  simp only at h2 h
  obtain ⟨e1, hl⟩ := readBits_ok h1
  obtain ⟨e2, hm⟩ := readBits_ok h2
  rw [bitsOfNat_one hl] at e1
  have hlen : (off + 3 + bs2.length) % 8 = 0 := by
    have := congrArg List.length e1
    have := congrArg List.length e2
    simp only [List.length_append, List.length_cons, List.length_nil, length_bitsOfNat] at *
    omega
  split at h
  · -- stored
    rename_i hmode
    subst hmode
    simp only [bind_eq_ok] at h
    obtain ⟨⟨pad, bs3⟩, h3, ⟨len, bs4⟩, h4, ⟨ilen, bs5⟩, h5, h⟩ := h
    simp only at h4 h5 h
    split at h
    · simp only [throw_bind_eq_ok] at h
    · rename_i hsum
      split at h
      · simp only [throw_bind_eq_ok] at h
      simp only [bind_eq_ok] at h
      obtain ⟨⟨data, bs6⟩, h6, h⟩ := h
      simp only [Except.ok.injEq, Prod.mk.injEq] at h
      obtain ⟨rfl, rfl, _, rfl⟩ := h
      rw [mod8_eq_padCount _ _ hlen] at h3
      obtain ⟨e3, _⟩ := readBits_ok h3
      obtain ⟨e4, hlen16⟩ := readBits_ok h4
      obtain ⟨e5, hilen16⟩ := readBits_ok h5
      obtain ⟨e6, hdl⟩ := readBytes_ok h6
      have hp : (2:Nat) ^ 16 = 65536 := by decide
      rw [hp] at hlen16 hilen16
      have a1 : data.length % 65536 = len := by omega
      have a2 : 65535 - len = ilen := by omega
      refine ⟨_, rfl, ?_⟩
      simp only [padBits, a1, a2]
      rw [e1, e2, e3, e4, e5, e6]
      simp only [bitsOfNat, List.append_assoc, List.cons_append, List.nil_append]
      rfl
  · split at h
    · -- fixed
      rename_i hmode
      subst hmode
      simp only [bind_eq_ok] at h
      obtain ⟨lt, h3, dt, h4, ⟨ts, pl, bs3⟩, h5, h⟩ := h
      simp only [Except.ok.injEq, Prod.mk.injEq] at h
      obtain ⟨rfl, rfl, _, rfl⟩ := h
      rw [mkTable_ok h3, mkTable_ok h4] at h5
      obtain ⟨w, hw, e3⟩ := decodeTokens_ok _ _ h5
      refine ⟨_, by simp only [writeBlock, hw, ok_bind]; rfl, ?_⟩
      rw [e1, e2, e3]
      rfl
    · split at h
      · -- dynamic
        rename_i hmode
        subst hmode
        simp only [bind_eq_ok] at h
        obtain ⟨⟨hd, bs3⟩, h3, ⟨ll, dl⟩, h4, lt, h5, dt, h6, ⟨ts, pl, bs4⟩, h7, h⟩ := h
        simp only [Except.ok.injEq, Prod.mk.injEq] at h4 h5 h6 h7 h
        obtain ⟨rfl, rfl, _, rfl⟩ := h
        rw [mkTable_ok h5, mkTable_ok h6] at h7
        obtain ⟨w3, hw3, e3⟩ := readHeader_ok h3
        obtain ⟨w, hw, e4⟩ := decodeTokens_ok _ _ h7
        refine ⟨_, by simp only [writeBlock, hw3, h4, hw, ok_bind]; rfl, ?_⟩
        rw [e1, e2, e3, e4]
        simp only [bitsOfNat, List.append_assoc, List.cons_append, List.nil_append]
        rfl
      · simp at h

theorem readBlocks_ok {fuel : Nat} {plain : Array Nat} {bs : Bits} {blocks : List Block}
    {plain' : Array Nat} {rest : Bits} (off : Nat) (hoff : (off + bs.length) % 8 = 0)
    (h : readBlocks fuel plain bs = .ok (blocks, plain', rest)) :
    ∃ w, writeBlocks off blocks = .ok w ∧ bs = w ++ rest ∧ blocks ≠ [] := by
  induction fuel generalizing plain bs blocks off with
  | zero => simp [readBlocks] at h
  | succ fuel ih =>
    rw [readBlocks] at h
    simp only [bind_eq_ok] at h
    obtain ⟨⟨last, b, pl, bs1⟩, h1, h⟩ := h
    simp only at h
    obtain ⟨w1, hw1, e1⟩ := readBlock_ok off hoff h1
    split at h
    · rename_i hlast
      simp only [Except.ok.injEq, Prod.mk.injEq] at h
      obtain ⟨rfl, _, rfl⟩ := h
      subst hlast
      exact ⟨w1, by simpa [writeBlocks] using hw1, e1, by simp⟩
    · rename_i hlast
      simp only [bind_eq_ok] at h
      obtain ⟨⟨r, pl2, bs2⟩, h2, h⟩ := h
      simp only [Except.ok.injEq, Prod.mk.injEq] at h
      obtain ⟨rfl, rfl, rfl⟩ := h
      have hlast' : last = false := by simpa using hlast
      subst hlast'
      have hoff2 : (off + w1.length + bs1.length) % 8 = 0 := by
        have := congrArg List.length e1
        simp only [List.length_append] at this
        omega
      obtain ⟨w2, hw2, e2, hne⟩ := ih (off + w1.length) hoff2 h2
      refine ⟨w1 ++ w2, ?_, by rw [e1, e2, List.append_assoc], by simp⟩
      cases r with
      | nil => exact absurd rfl hne
      | cons b2 r2 =>
        simp only [writeBlocks, hw1, ok_bind, hw2]

-- ---------------------------------------------------------------------------------------------
-- the stream

theorem write_parse_bits (bs : Bits) (p : Parsed) (hlen : bs.length % 8 = 0)
    (h : parseBits bs = .ok p) :
    ∃ w, writeStreamBits p.blocks p.eofPadding = .ok w ∧ bs = w ++ p.rest ∧ w.length % 8 = 0 := by
  simp only [parseBits, bind_eq_ok] at h
  obtain ⟨⟨blocks, plain, bs1⟩, h1, ⟨pad, bs2⟩, h2, h⟩ := h
  simp only [Except.ok.injEq] at h2 h
  subst h
  simp only
  obtain ⟨w, hw, e1, _⟩ := readBlocks_ok 0 (by omega) h1
  have hl : (w.length + bs1.length) % 8 = 0 := by
    have := congrArg List.length e1
    simp only [List.length_append] at this
    omega
  rw [mod8_eq_padCount _ _ hl] at h2
  obtain ⟨e2, _⟩ := readBits_ok h2
  refine ⟨w ++ padBits w.length pad, ?_, ?_, ?_⟩
  · simp only [writeStreamBits, hw, ok_bind]
  · rw [e1, e2, padBits, List.append_assoc]
  · simp only [List.length_append, padBits, length_bitsOfNat, padCount]
    omega

theorem write_parse (d : List UInt8) (p : Parsed) (h : parse d = .ok p) :
    writeStream p.blocks p.eofPadding = .ok (d.take (p.consumed d)) ∧ p.consumed d ≤ d.length := by
  have hl := length_bytesToBits d
  obtain ⟨w, hw, e, hw8⟩ := write_parse_bits (bytesToBits d) p (by omega) h
  have hlen := congrArg List.length e
  simp only [List.length_append] at hlen
  have hc : p.consumed d = w.length / 8 := by
    unfold Parsed.consumed; omega
  refine ⟨?_, by unfold Parsed.consumed; omega⟩
  simp only [writeStream, hw, ok_bind, hc]
  rw [bitsToBytes_prefix (w.length / 8) d w p.rest e (by omega)]

end Preflate.Proofs
