/-
SIZE OF THE CORRECTION DATA, layer 4: the parser consumed at least `blocksBits` bits of input.

`blockBits` is a LOWER bound on the number of input bits a block occupies: a Huffman symbol takes at
least one bit (a literal ≥ 1; a reference ≥ 2: length symbol and distance symbol; the end-of-block
symbol ≥ 1), a block header 3 bits, a stored block 32 more (LEN / NLEN), a dynamic header its 14 count
bits, 3 bits per code-length code length and at least one bit per run-length item.
-/
import Preflate.Proofs.Expands
namespace Preflate.Proofs
open Preflate Preflate.Gen
set_option linter.unusedSimpArgs false

def tokBits : Token → Nat
  | .lit _ => 1
  | .ref _ _ _ => 2

def toksBits (ts : List Token) : Nat := (ts.map tokBits).sum

/-- a lower bound on the input bits of one block -/
def blockBits : Block → Nat
  | .stored _ _ => 35
  | .fixed ts => 4 + toksBits ts
  | .dynamic h ts => 18 + 3 * h.numCodeLengths + h.items.length + toksBits ts

def blocksBits (bs : List Block) : Nat := (bs.map blockBits).sum

/-- tokens of all blocks -/
def totalTokens (bs : List Block) : Nat := (bs.map fun b => (blockTokens b).length).sum

@[simp] theorem toksBits_nil : toksBits [] = 0 := rfl
@[simp] theorem toksBits_cons (t : Token) (ts : List Token) : toksBits (t :: ts) = tokBits t + toksBits ts := by
  simp [toksBits]
@[simp] theorem blocksBits_nil : blocksBits [] = 0 := rfl
@[simp] theorem blocksBits_cons (b : Block) (bs : List Block) :
    blocksBits (b :: bs) = blockBits b + blocksBits bs := by
  simp [blocksBits]

theorem length_le_toksBits (ts : List Token) : ts.length ≤ toksBits ts := by
  induction ts with
  | nil => simp
  | cons t ts ih =>
    simp only [List.length_cons, toksBits_cons]
    cases t <;> simp only [tokBits] <;> omega

theorem tokens_le_blockBits (b : Block) : (blockTokens b).length + 1 ≤ blockBits b := by
  cases b with
  | stored pad data => simp [blockTokens, blockBits]
  | fixed ts => have := length_le_toksBits ts; simp only [blockTokens, blockBits]; omega
  | dynamic h ts => have := length_le_toksBits ts; simp only [blockTokens, blockBits]; omega

theorem totalTokens_le_blocksBits (bs : List Block) : totalTokens bs + bs.length ≤ blocksBits bs := by
  induction bs with
  | nil => simp [totalTokens]
  | cons b bs ih =>
    have := tokens_le_blockBits b
    simp only [totalTokens, List.map_cons, List.sum_cons, List.length_cons, blocksBits_cons] at *
    omega

/-- the token loop: every token and the end-of-block symbol take their bits -/
theorem decodeTokens_bits (ll dl : List Nat) {fuel : Nat} {plain : Array Nat}
    {bs : Bits} {ts : List Token} {plain' : Array Nat} {rest : Bits}
    (h : decodeTokens (codeTable ll) (codeTable dl) fuel plain bs = .ok (ts, plain', rest)) :
    toksBits ts + 1 + rest.length ≤ bs.length := by
  induction fuel generalizing plain bs ts with
  | zero => simp [decodeTokens] at h
  | succ fuel ih =>
    rw [decodeTokens] at h
    rw [if_neg (fun hc => by rw [if_pos hc] at h; cases h)] at h
    simp only [bind_eq_ok] at h
    obtain ⟨⟨sym, bs1⟩, h1, h⟩ := h
    simp only at h
    have hl1 := decodeSym_lt h1
    split at h
    · simp only [bind_eq_ok] at h
      obtain ⟨⟨ts', pl, bs2⟩, h2, h⟩ := h
      simp only [Except.ok.injEq, Prod.mk.injEq] at h
      obtain ⟨rfl, rfl, rfl⟩ := h
      have := ih h2
      simp only [toksBits_cons, tokBits]
      omega
    · split at h
      · simp only [Except.ok.injEq, Prod.mk.injEq] at h
        obtain ⟨rfl, rfl, rfl⟩ := h
        simp only [toksBits_nil]
        omega
      · split at h
        · simp only [throw_bind_eq_ok] at h
        · simp only [bind_eq_ok] at h
          obtain ⟨⟨ex, bs2⟩, h2, h⟩ := h
          simp only [bind_eq_ok] at h
          obtain ⟨⟨dc, bs3⟩, h3, h⟩ := h
          simp only at h
          split at h
          · simp only [throw_bind_eq_ok] at h
          · simp only [bind_eq_ok] at h
            obtain ⟨⟨dx, bs4⟩, h4, h⟩ := h
            simp only at h
            split at h
            · simp only [throw_bind_eq_ok] at h
            · simp only [bind_eq_ok] at h
              obtain ⟨⟨ts', pl, bs5⟩, h5, h⟩ := h
              simp only [Except.ok.injEq, Prod.mk.injEq] at h
              obtain ⟨rfl, rfl, rfl⟩ := h
              have := ih h5
              have hl2 := readBits_len h2
              have hl3 := decodeSym_lt h3
              have hl4 := readBits_len h4
              simp only [toksBits_cons, tokBits]
              omega

theorem readCodeLengths_bits {n i : Nat} {acc : List Nat} {bs : Bits} {cl : List Nat} {rest : Bits}
    (h : readCodeLengths n i acc bs = .ok (cl, rest)) : rest.length + 3 * n = bs.length := by
  induction n generalizing i acc bs with
  | zero =>
    simp only [readCodeLengths, Except.ok.injEq, Prod.mk.injEq] at h
    obtain ⟨_, rfl⟩ := h
    omega
  | succ n ih =>
    simp only [readCodeLengths, bind_eq_ok] at h
    obtain ⟨⟨v, bs1⟩, h1, h⟩ := h
    simp only at h
    have := readBits_len h1
    have := ih h
    omega

/-- every run-length item starts with a code-length symbol of at least one bit -/
theorem readRleItems_bits (cl : List Nat) (total : Nat) {fuel read : Nat} {bs : Bits}
    {items : List RleItem} {rest : Bits}
    (h : readRleItems (codeTable cl) total fuel read bs = .ok (items, rest)) :
    items.length + rest.length ≤ bs.length := by
  induction fuel generalizing read bs items with
  | zero => simp [readRleItems] at h
  | succ fuel ih =>
    rw [readRleItems] at h
    split at h
    · simp only [bind_eq_ok] at h
      obtain ⟨⟨w, bs1⟩, h1, h2⟩ := h
      simp only at h2
      have hl1 := decodeSym_lt h1
      split at h2
      · simp only [bind_eq_ok] at h2
        obtain ⟨⟨items', bs2⟩, h3, h4⟩ := h2
        simp only [Except.ok.injEq, Prod.mk.injEq] at h4
        obtain ⟨rfl, rfl⟩ := h4
        have := ih h3
        simp only [List.length_cons]
        omega
      · split at h2
        · simp only [bind_eq_ok] at h2
          obtain ⟨⟨x, bs2⟩, h3, h4⟩ := h2
          simp only [bind_eq_ok] at h4
          obtain ⟨⟨items', bs3⟩, h5, h6⟩ := h4
          simp only [Except.ok.injEq, Prod.mk.injEq] at h6
          obtain ⟨rfl, rfl⟩ := h6
          have := ih h5
          have := readBits_len h3
          simp only [List.length_cons]
          omega
        · simp at h2
    · split at h
      · simp only [Except.ok.injEq, Prod.mk.injEq] at h
        obtain ⟨rfl, rfl⟩ := h
        simp
      · simp at h

theorem readHeader_bits {bs : Bits} {h : Header} {rest : Bits} (hr : readHeader bs = .ok (h, rest)) :
    14 + 3 * h.numCodeLengths + h.items.length + rest.length ≤ bs.length := by
  simp only [readHeader, bind_eq_ok] at hr
  obtain ⟨⟨a, bs1⟩, h1, ⟨b, bs2⟩, h2, ⟨c, bs3⟩, h3, ⟨cl, bs4⟩, h4, t, h5, ⟨items, bs5⟩, h6, hr⟩ := hr
  simp only [Except.ok.injEq, Prod.mk.injEq] at hr
  obtain ⟨rfl, rfl⟩ := hr
  simp only at h2 h3 h4 h5 h6
  have l1 := readBits_len h1
  have l2 := readBits_len h2
  have l3 := readBits_len h3
  have l4 := readCodeLengths_bits h4
  rw [mkTable_ok h5] at h6
  have l6 := readRleItems_bits _ _ h6
  simp only
  omega

theorem readBlock_bits {plain : Array Nat} {bs : Bits} {last : Bool} {b : Block} {plain' : Array Nat}
    {rest : Bits} (h : readBlock plain bs = .ok (last, b, plain', rest)) :
    blockBits b + rest.length ≤ bs.length := by
  rw [readBlock] at h
  simp only [bind_eq_ok] at h
  obtain ⟨⟨lastN, bs1⟩, h1, ⟨mode, bs2⟩, h2, h⟩ := h
  simp only at h2 h
  have hl1 := readBits_len h1
  have hl2 := readBits_len h2
  split at h
  · -- stored
    simp only [bind_eq_ok] at h
    obtain ⟨⟨pad, bs3⟩, h3, ⟨len, bs4⟩, h4, ⟨ilen, bs5⟩, h5, h⟩ := h
    simp only at h4 h5 h
    split at h
    · simp only [throw_bind_eq_ok] at h
    · split at h
      · simp only [throw_bind_eq_ok] at h
      simp only [bind_eq_ok] at h
      obtain ⟨⟨data, bs6⟩, h6, h⟩ := h
      simp only [Except.ok.injEq, Prod.mk.injEq] at h
      obtain ⟨_, rfl, rfl, rfl⟩ := h
      have hl3 := readBits_len h3
      have hl4 := readBits_len h4
      have hl5 := readBits_len h5
      obtain ⟨hd, _⟩ := readBytes_ok h6
      have hl6 : bs6.length ≤ bs5.length := by
        rw [hd]; simp
      simp only [blockBits]
      omega
  · split at h
    · -- fixed
      simp only [bind_eq_ok] at h
      obtain ⟨lt, h3, dt, h4, ⟨ts, pl, bs3⟩, h5, h⟩ := h
      simp only [Except.ok.injEq, Prod.mk.injEq] at h
      obtain ⟨_, rfl, rfl, rfl⟩ := h
      rw [mkTable_ok h3, mkTable_ok h4] at h5
      have := decodeTokens_bits _ _ h5
      simp only [blockBits]
      omega
    · split at h
      · -- dynamic
        simp only [bind_eq_ok] at h
        obtain ⟨⟨hd, bs3⟩, h3, ⟨ll, dl⟩, h4, lt, h5, dt, h6, ⟨ts, pl, bs4⟩, h7, h⟩ := h
        simp only [Except.ok.injEq, Prod.mk.injEq] at h4 h5 h6 h7 h
        obtain ⟨_, rfl, rfl, rfl⟩ := h
        rw [mkTable_ok h5, mkTable_ok h6] at h7
        have := decodeTokens_bits _ _ h7
        have := readHeader_bits h3
        simp only [blockBits]
        omega
      · simp at h

theorem readBlocks_bits {fuel : Nat} {plain : Array Nat} {bs : Bits} {blocks : List Block}
    {plain' : Array Nat} {rest : Bits}
    (h : readBlocks fuel plain bs = .ok (blocks, plain', rest)) :
    blocksBits blocks + rest.length ≤ bs.length := by
  induction fuel generalizing plain bs blocks with
  | zero => simp [readBlocks] at h
  | succ fuel ih =>
    rw [readBlocks] at h
    simp only [bind_eq_ok] at h
    obtain ⟨⟨last, b, pl, bs1⟩, h1, h⟩ := h
    simp only at h
    have hl := readBlock_bits h1
    split at h
    · simp only [Except.ok.injEq, Prod.mk.injEq] at h
      obtain ⟨rfl, rfl, rfl⟩ := h
      simp only [blocksBits_cons, blocksBits_nil]
      omega
    · simp only [bind_eq_ok] at h
      obtain ⟨⟨r, pl2, bs2⟩, h2, h⟩ := h
      simp only [Except.ok.injEq, Prod.mk.injEq] at h
      obtain ⟨rfl, rfl, rfl⟩ := h
      have := ih h2
      simp only [blocksBits_cons]
      omega

/-- **layer 4, fine form**: the blocks account for at most the bits of the input -/
theorem parse_bits (d : List UInt8) (p : Parsed) (h : parse d = .ok p) :
    blocksBits p.blocks ≤ 8 * d.length := by
  unfold parse at h
  simp only [parseBits, bind_eq_ok] at h
  obtain ⟨⟨blocks, plain, bs1⟩, h1, ⟨pad, bs2⟩, h2, h⟩ := h
  simp only [Except.ok.injEq] at h2 h
  subst h
  have := readBlocks_bits h1
  have := length_bytesToBits d
  simp only
  omega

/-- **layer 4**: every token and every block consumed at least one bit of input -/
theorem parse_totals (d : List UInt8) (p : Parsed) (h : parse d = .ok p) :
    totalTokens p.blocks + p.blocks.length ≤ 8 * d.length :=
  Nat.le_trans (totalTokens_le_blocksBits p.blocks) (parse_bits d p h)

end Preflate.Proofs
