/-
Completeness direction of C07, tokens: `decodeTokens` inverts `writeTokens` on every token list that
is a valid LZ77 expansion and is coded by a complete code.
-/
import Preflate.Proofs.ParseWriteHeader
namespace Preflate.Proofs
open Preflate Preflate.Gen
set_option linter.unusedSimpArgs false
set_option linter.unusedVariables false

theorem le_toksEnd : ∀ (ts : List Token) (pos : Nat), pos ≤ toksEnd pos ts := by
  intro ts
  induction ts with
  | nil => intro pos; exact Nat.le_refl _
  | cons t ts ih =>
    intro pos
    exact Nat.le_trans (Nat.le_add_right _ _) (ih _)

-- one step of the token loop, for each kind of symbol

theorem decodeTokens_eob {ll dl : List Nat} (hl : validLengths ll = true) (he : ll.getD 256 0 ≠ 0)
    (fuel : Nat) (cur : Array Nat) (hcur : cur.size ≤ PLAIN_LIMIT) (rest : Bits) :
    decodeTokens (codeTable ll) (codeTable dl) (fuel + 1) cur (codeBits ll 256 ++ rest) =
      .ok ([], cur, rest) := by
  rw [decodeTokens, if_neg (by omega)]
  simp only [decodeSym_code hl he, ok_bind, Nat.lt_irrefl, if_false, if_true]

theorem decodeTokens_lit {ll dl : List Nat} (hl : validLengths ll = true) {b : Nat} (hb : b < 256)
    (hc : ll.getD b 0 ≠ 0) (fuel : Nat) (cur : Array Nat) (hcur : cur.size ≤ PLAIN_LIMIT)
    (tail : Bits) {ts : List Token} {cur' : Array Nat} {rest : Bits}
    (h : decodeTokens (codeTable ll) (codeTable dl) fuel (cur.push b) tail = .ok (ts, cur', rest)) :
    decodeTokens (codeTable ll) (codeTable dl) (fuel + 1) cur (codeBits ll b ++ tail) =
      .ok (.lit b :: ts, cur', rest) := by
  rw [decodeTokens, if_neg (by omega)]
  simp only [decodeSym_code hl hc, ok_bind, hb, if_true, h]

theorem decodeTokens_ref {ll dl : List Nat} (hl : validLengths ll = true)
    (hd : validLengths dl = true) {c ex dc dx : Nat} (hc : c < 29) (hex : ex < 2 ^ lengthExtra c)
    (hs : ll.getD (257 + c) 0 ≠ 0) (hdc : dc < 30) (hdx : dx < 2 ^ distExtra dc)
    (hds : dl.getD dc 0 ≠ 0) (fuel : Nat) (cur : Array Nat) (hcur : cur.size ≤ PLAIN_LIMIT)
    (hdist : 1 + distBase dc + dx ≤ cur.size)
    (tail : Bits) {ts : List Token} {cur' : Array Nat} {rest : Bits}
    (h : decodeTokens (codeTable ll) (codeTable dl) fuel
      (copyRef cur (1 + distBase dc + dx) (3 + lengthBase c + ex)) tail = .ok (ts, cur', rest)) :
    decodeTokens (codeTable ll) (codeTable dl) (fuel + 1) cur
      (((codeBits ll (257 + c) ++ bitsOfNat (lengthExtra c) ex) ++
         (codeBits dl dc ++ bitsOfNat (distExtra dc) dx)) ++ tail) =
      .ok (.ref (3 + lengthBase c + ex) (1 + distBase dc + dx)
        (3 + lengthBase c + ex == 258 && c != 28) :: ts, cur', rest) := by
  rw [decodeTokens, if_neg (by omega)]
  have n1 : ¬ (257 + c < 256) := by omega
  have n2 : ¬ (257 + c = 256) := by omega
  have e1 : 257 + c - NONLEN_CODE_COUNT = c := by simp only [NONLEN_CODE_COUNT]; omega
  have n3 : ¬ (c ≥ LEN_CODE_COUNT) := by simp only [LEN_CODE_COUNT]; omega
  have n3' : ¬ (c ≥ 29) := by omega
  have n4 : ¬ (dc ≥ DIST_CODE_COUNT) := by simp only [DIST_CODE_COUNT]; omega
  have n5 : ¬ (1 + distBase dc + dx > cur.size) := by omega
  simp only [List.append_assoc, decodeSym_code hl hs, ok_bind, n1, n2, if_false, e1, n3, n3',
    readBits_app hex, decodeSym_code hd hds, n4, readBits_app hdx, n5, MIN_MATCH, h, pure_bind,
    LEN_CODE_COUNT, Nat.reduceSub]

theorem writeTokens_read {ll dl : List Nat} (hl : validLengths ll = true)
    (hd : validLengths dl = true) (he : ll.getD 256 0 ≠ 0) {plain : Array Nat} :
    ∀ (ts : List Token) (pos : Nat), (∀ t ∈ ts, TokCoded ll dl t) →
    ValidToks plain pos ts → toksEnd pos ts ≤ PLAIN_LIMIT →
    ∃ w, writeTokens ll dl ts = .ok w ∧ w.length = tokensBits ll dl ts ∧ ts.length < w.length ∧
      ∀ cur, Pre plain pos cur → ∀ rest fuel, w.length < fuel → ∃ cur',
        decodeTokens (codeTable ll) (codeTable dl) fuel cur (w ++ rest) = .ok (ts, cur', rest) ∧
        Pre plain (toksEnd pos ts) cur' := by
  have hcl := codeBits_length
  intro ts
  induction ts with
  | nil =>
    intro pos _ _ hlim
    refine ⟨codeBits ll 256, ?_, by simp [tokensBits, hcl], ?_, ?_⟩
    · simp only [writeTokens, writeSym, lt_length_of_getD_ne he, if_true]
    · simp only [List.length_nil, hcl]; omega
    · intro cur hpre rest fuel hf
      obtain ⟨f, rfl⟩ : ∃ f, fuel = f + 1 := ⟨fuel - 1, by omega⟩
      simp only [toksEnd] at hlim
      exact ⟨cur, decodeTokens_eob hl he f cur (by rw [hpre.1]; exact hlim) rest, hpre⟩
  | cons t ts ih =>
    intro pos hcoded hvalid hlim
    have hc0 := hcoded t (by simp)
    obtain ⟨hv0, hvs⟩ := hvalid
    simp only [toksEnd] at hlim
    have hpos : pos ≤ PLAIN_LIMIT := Nat.le_trans (Nat.le_add_right _ _)
      (Nat.le_trans (le_toksEnd ts _) hlim)
    cases t with
    | lit b =>
      obtain ⟨hb, hcb⟩ := hc0
      obtain ⟨hp1, hp2⟩ := hv0
      simp only [tokenLen] at hvs hlim
      obtain ⟨w, hw, hlw, hn, hr⟩ := ih (pos + 1)
        (fun t ht => hcoded t (List.mem_cons_of_mem _ ht)) hvs hlim
      refine ⟨codeBits ll b ++ w, ?_, ?_, ?_, ?_⟩
      · simp only [writeTokens, writeToken, writeSym, lt_length_of_getD_ne hcb, if_true, ok_bind, hw]
      · simp only [List.length_append, hcl, hlw, tokensBits, tokenBits]
      · simp only [List.length_append, List.length_cons, hcl]; omega
      · intro cur hpre rest fuel hf
        have hcur : cur.size ≤ PLAIN_LIMIT := by rw [hpre.1]; exact hpos
        simp only [List.length_append, hcl] at hf
        obtain ⟨f, rfl⟩ : ∃ f, fuel = f + 1 := ⟨fuel - 1, by omega⟩
        obtain ⟨cur', h1, h2⟩ := hr (cur.push b) (pre_push hpre hp1 hp2) rest f (by omega)
        refine ⟨cur', ?_, by simpa [toksEnd, tokenLen] using h2⟩
        rw [List.append_assoc]
        exact decodeTokens_lit hl hb hcb f cur hcur _ h1
    | ref len dist irr =>
      obtain ⟨hcl1, hcd1⟩ := hc0
      obtain ⟨v1, v2, v3, v4, v5, v6, v7, v8⟩ := hv0
      simp only [tokenLen] at hvs hlim
      obtain ⟨ex, q1, q2, q3, q4⟩ := len_decomp v1 v2 v8
      obtain ⟨dx, r1, r2, r3⟩ := dist_decomp v3 v5
      have hsym : lenSym len irr = 257 + lenCode len irr := by simp [lenSym, NONLEN_CODE_COUNT]
      rw [hsym] at hcl1
      have htok : Token.ref len dist irr =
          Token.ref (3 + lengthBase (lenCode len irr) + ex) (1 + distBase (distCode dist) + dx)
            (3 + lengthBase (lenCode len irr) + ex == 258 && lenCode len irr != 28) := by
        rw [← q3, ← r3, q4]
      obtain ⟨w, hw, hlw, hn, hr⟩ := ih (pos + len)
        (fun t ht => hcoded t (List.mem_cons_of_mem _ ht)) hvs hlim
      refine ⟨((codeBits ll (257 + lenCode len irr) ++ bitsOfNat (lengthExtra (lenCode len irr)) ex) ++
         (codeBits dl (distCode dist) ++ bitsOfNat (distExtra (distCode dist)) dx)) ++ w, ?_, ?_, ?_, ?_⟩
      · have hwt := writeToken_ref ll dl q1 q2 (lt_length_of_getD_ne hcl1) r1 r2
          (lt_length_of_getD_ne hcd1)
        rw [← htok] at hwt
        simp only [writeTokens, hwt, ok_bind, hw]
      · simp only [List.length_append, hcl, length_bitsOfNat, hlw, tokensBits, tokenBits, hsym]
      · simp only [List.length_append, List.length_cons, hcl, length_bitsOfNat]; omega
      · intro cur hpre rest fuel hf
        have hcur : cur.size ≤ PLAIN_LIMIT := by rw [hpre.1]; exact hpos
        have hpre2 : Pre plain (pos + len) (copyRef cur dist len) :=
          pre_copyRef v3 len hpre v4 v6 ((matchAt_iff _ _ _ _).mp v7)
        simp only [List.length_append, hcl, length_bitsOfNat] at hf
        obtain ⟨f, rfl⟩ : ∃ f, fuel = f + 1 := ⟨fuel - 1, by omega⟩
        obtain ⟨cur', h1, h2⟩ := hr _ hpre2 rest f (by omega)
        refine ⟨cur', ?_, by simpa [toksEnd, tokenLen] using h2⟩
        rw [List.append_assoc _ w rest, htok]
        refine decodeTokens_ref hl hd q1 q2 hcl1 r1 r2 hcd1 f cur hcur ?_ _ ?_
        · rw [← r3, hpre.1]; exact v4
        · rw [← q3, ← r3]; exact h1

end Preflate.Proofs
