/-
The public stream pair (Model/Stream.lean): exactness, equality of the two verify settings, and
dependence on the consumed prefix only. Statements: Props/C02.lean.
-/
import Preflate.Model.Stream
import Preflate.Proofs.Prefix
import Preflate.Proofs.EndToEnd
import Preflate.Proofs.Params
namespace Preflate.Proofs
open Preflate
set_option linter.unusedSimpArgs false
set_option linter.unusedVariables false

theorem bytesToBits_append (a b : List UInt8) :
    bytesToBits (a ++ b) = bytesToBits a ++ bytesToBits b := by
  simp [bytesToBits]

/-- what the parser leaves unread is a whole number of bytes -/
theorem parse_rest_aligned {d : List UInt8} {p : Parsed} (h : parse d = .ok p) :
    p.rest.length % 8 = 0 := by
  have hl := length_bytesToBits d
  obtain ⟨w, _, e, hw8⟩ := write_parse_bits (bytesToBits d) p (by omega) h
  have := congrArg List.length e
  simp only [List.length_append] at this
  omega

/-- BYTE LEVEL: the parser's result depends only on the bytes it consumed -/
theorem parse_prefix (d : List UInt8) (p : Parsed) (h : parse d = .ok p) (x : List UInt8) :
    parse (d.take (p.consumed d) ++ x) = .ok { p with rest := bytesToBits x } := by
  have hl := length_bytesToBits d
  have hr8 := parse_rest_aligned h
  obtain ⟨pre, e, hall⟩ := parseBits_loc h
  have hlen := congrArg List.length e
  simp only [List.length_append] at hlen
  have hk : p.consumed d ≤ d.length := by unfold Parsed.consumed; omega
  have hpre : pre.length = 8 * p.consumed d := by unfold Parsed.consumed; omega
  have hsplit : bytesToBits d = bytesToBits (d.take (p.consumed d)) ++ bytesToBits (d.drop (p.consumed d)) := by
    rw [← bytesToBits_append, List.take_append_drop]
  have hinj := List.append_inj (hsplit.symm.trans e)
    (by rw [length_bytesToBits, List.length_take, hpre]; omega)
  unfold parse
  rw [bytesToBits_append, hinj.1]
  exact hall _ (by rw [length_bytesToBits]; omega)

theorem consumed_prefix (d : List UInt8) (p : Parsed) (h : parse d = .ok p) (x : List UInt8) :
    ({ p with rest := bytesToBits x } : Parsed).consumed (d.take (p.consumed d) ++ x) = p.consumed d := by
  have hl := length_bytesToBits d
  have hr8 := parse_rest_aligned h
  have hk : p.consumed d ≤ d.length := (write_parse d p h).2
  unfold Parsed.consumed at *
  simp only [List.length_append, List.length_take, length_bytesToBits]
  omega

variable {H : Type}

/-- the verify=true block never fails and never trips its assertion when the analysis succeeded -/
theorem verifyStream_ok (mk : Params → Pred H) (d : List UInt8) (p : Parsed)
    (hp : parse d = .ok p) (params : Params) (hr : EstimatorRange params) (hdr : List Op)
    (hh : writeParams params = .ok hdr) (body : List Op)
    (hb : encStream (mk params) p.plain p.blocks p.eofPadding = .ok body) :
    verifyStream mk params p.plain (hdr ++ body) (d.take (p.consumed d)) = .ok () := by
  obtain ⟨ops, h1, h2, _⟩ := readParams_writeParams params (estimatorRange_wf params hr) body
  rw [hh] at h1
  simp only [Except.ok.injEq] at h1
  subst h1
  obtain ⟨blocks, pad, h3, h4⟩ := recompress_analyze (mk params) d p hp body hb
  simp only [verifyStream, h2, ok_bind, ne_eq, not_true_eq_false, if_false, h3, h4]

theorem recompressStream_ok (mk : Params → Pred H) (d : List UInt8) (p : Parsed)
    (hp : parse d = .ok p) (params : Params) (hr : EstimatorRange params) (hdr : List Op)
    (hh : writeParams params = .ok hdr) (body : List Op)
    (hb : encStream (mk params) p.plain p.blocks p.eofPadding = .ok body) :
    recompressStream mk p.plain (hdr ++ body) = .ok (d.take (p.consumed d)) := by
  obtain ⟨ops, h1, h2, _⟩ := readParams_writeParams params (estimatorRange_wf params hr) body
  rw [hh] at h1
  simp only [Except.ok.injEq] at h1
  subst h1
  obtain ⟨blocks, pad, h3, h4⟩ := recompress_analyze (mk params) d p hp body hb
  simp only [recompressStream, h2, ok_bind, h3, h4]

/-- decomposition of a successful `decompressStream` -/
theorem decompressStream_ok {est : Array Nat → List Block → R Params} {mk : Params → Pred H}
    {verify : Bool} {d : List UInt8} {r : StreamResult}
    (h : decompressStream est mk verify d = .ok r) :
    ∃ p params hdr body, parse d = .ok p ∧ est p.plain p.blocks = .ok params ∧
      writeParams params = .ok hdr ∧ encStream (mk params) p.plain p.blocks p.eofPadding = .ok body ∧
      r = ⟨p.plain, hdr ++ body, p.consumed d, params⟩ := by
  simp only [decompressStream, bind_eq_ok] at h
  obtain ⟨p, h1, params, h2, hdr, h3, body, h4, h⟩ := h
  refine ⟨p, params, hdr, body, h1, h2, h3, h4, ?_⟩
  cases verify
  · simp only [Bool.false_eq_true, if_false, ok_bind, Except.ok.injEq] at h
    exact h.symm
  · simp only [if_true, bind_eq_ok, Except.ok.injEq] at h
    obtain ⟨_, _, h⟩ := h
    exact h.symm

/-- recompress(decompress D) = D[..size], either verify setting -/
theorem recompress_decompress (est : Array Nat → List Block → R Params) (mk : Params → Pred H)
    (hest : ∀ pl bl q, est pl bl = .ok q → EstimatorRange q)
    (verify : Bool) (d : List UInt8) (r : StreamResult)
    (h : decompressStream est mk verify d = .ok r) :
    recompressStream mk r.plain r.corr = .ok (d.take r.size) ∧ r.size ≤ d.length := by
  obtain ⟨p, params, hdr, body, h1, h2, h3, h4, rfl⟩ := decompressStream_ok h
  exact ⟨recompressStream_ok mk d p h1 params (hest _ _ _ h2) hdr h3 body h4, (write_parse d p h1).2⟩

/-- both verify settings return the same result (Ok with the same r, or both fail) -/
theorem verify_same (est : Array Nat → List Block → R Params) (mk : Params → Pred H)
    (hest : ∀ pl bl q, est pl bl = .ok q → EstimatorRange q)
    (d : List UInt8) :
    decompressStream est mk true d = decompressStream est mk false d := by
  unfold decompressStream
  cases hp : parse d with
  | error e => rfl
  | ok p =>
    simp only [ok_bind]
    cases he : est p.plain p.blocks with
    | error e => rfl
    | ok params =>
      simp only [ok_bind]
      cases hw : writeParams params with
      | error e => rfl
      | ok hdr =>
        simp only [ok_bind]
        cases hb : encStream (mk params) p.plain p.blocks p.eofPadding with
        | error e => rfl
        | ok body =>
          simp only [ok_bind, if_true, Bool.false_eq_true, if_false,
            verifyStream_ok mk d p hp params (hest _ _ _ he) hdr hw body hb]

/-- the result depends only on D[..size]: replacing or removing what follows changes nothing -/
theorem decompress_prefix (est : Array Nat → List Block → R Params) (mk : Params → Pred H)
    (verify : Bool) (d : List UInt8) (r : StreamResult)
    (h : decompressStream est mk verify d = .ok r) (x : List UInt8) :
    decompressStream est mk verify (d.take r.size ++ x) = .ok r := by
  have h0 := h
  obtain ⟨p, params, hdr, body, h1, h2, h3, h4, rfl⟩ := decompressStream_ok h
  have hk : p.consumed d ≤ d.length := (write_parse d p h1).2
  have htake : (d.take (p.consumed d) ++ x).take (p.consumed d) = d.take (p.consumed d) := by
    rw [List.take_append_of_le_length (by rw [List.length_take]; omega), List.take_take]
    simp
  simp only [decompressStream, h1, ok_bind, h2, h3, h4] at h0
  simp only [decompressStream, parse_prefix d p h1 x, ok_bind, h2, h3, h4, consumed_prefix d p h1 x, htake]
  exact h0

end Preflate.Proofs
