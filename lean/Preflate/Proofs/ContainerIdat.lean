/- C01 helpers: IDAT parse / recreate, IdatContents serialisation. -/
import Preflate.Proofs.ContainerVarint
namespace Preflate.Proofs
open Preflate

/-- the PNG bytes of a run of IDAT chunks with the given data parts -/
def idatWire (crc : Bytes → Nat) (ds : List Bytes) : Bytes :=
  ds.flatMap fun d => be32 d.length ++ idatTag ++ d ++ be32 (crc (idatTag ++ d))

theorem idatWire_cons (crc : Bytes → Nat) (d : Bytes) (ds : List Bytes) :
    idatWire crc (d :: ds) =
      be32 d.length ++ idatTag ++ d ++ be32 (crc (idatTag ++ d)) ++ idatWire crc ds := by
  simp [idatWire]

theorem drop_split (s : Bytes) (p n : Nat) : s.drop p = (s.drop p).take n ++ s.drop (p + n) := by
  rw [← List.drop_drop, List.take_append_drop]

theorem lt256_take_drop (s : Bytes) (hb : ∀ b ∈ s, b < 256) (p n : Nat) :
    ∀ b ∈ (s.drop p).take n, b < 256 :=
  fun b h => hb b (List.mem_of_mem_drop (List.mem_of_mem_take h))

theorem idatChunks_spec (crc : Bytes → Nat) (s : Bytes) (hb : ∀ b ∈ s, b < 256) :
    ∀ (fuel pos : Nat) (payload : Bytes) (sizes : List Nat) (payload' : Bytes) (sizes' : List Nat)
      (pos' : Nat),
      idatChunks crc s fuel pos payload sizes = .ok (payload', sizes', pos') → pos ≤ s.length →
      ∃ ds : List Bytes, payload' = payload ++ ds.flatten ∧ sizes' = sizes ++ ds.map List.length ∧
        s.drop pos = idatWire crc ds ++ s.drop pos' ∧ pos' = pos + (idatWire crc ds).length ∧
        pos' ≤ s.length ∧ ∀ d ∈ ds, d.length ≠ 0 ∧ d.length < 2 ^ 32 := by
  intro fuel
  induction fuel with
  | zero => intro _ _ _ _ _ _ h; simp [idatChunks] at h
  | succ fuel ih =>
    intro pos payload sizes payload' sizes' pos' h hpos
    have hnil : (.ok (payload, sizes, pos) : R _) = .ok (payload', sizes', pos') →
        ∃ ds : List Bytes, payload' = payload ++ ds.flatten ∧
        sizes' = sizes ++ ds.map List.length ∧
        s.drop pos = idatWire crc ds ++ s.drop pos' ∧ pos' = pos + (idatWire crc ds).length ∧
        pos' ≤ s.length ∧ ∀ d ∈ ds, d.length ≠ 0 ∧ d.length < 2 ^ 32 := by
      intro h
      injection h with h
      injection h with h1 h
      injection h with h2 h3
      subst h1 h2 h3
      exact ⟨[], by simp, by simp, by simp [idatWire], by simp [idatWire], hpos,
        by simp⟩
    rw [idatChunks] at h
    split at h
    · rename_i h12
      simp only at h
      split at h
      · exact hnil h
      · rename_i hcond
        split at h
        · exact hnil h
        · rename_i hlen0
          split at h
          · exact hnil h
          · rename_i hcrc
            have hty : (s.drop (pos + 4)).take 4 = idatTag := by
              apply Classical.byContradiction; intro hne; exact hcond (Or.inl hne)
            have hfit : pos + ofBe32 ((s.drop pos).take 4) + 12 ≤ s.length := by
              apply Classical.byContradiction; intro hne; exact hcond (Or.inr (by omega))
            have hcrc' : crc ((s.drop (pos + 4)).take 4 ++
                (s.drop (pos + 8)).take (ofBe32 ((s.drop pos).take 4))) =
                ofBe32 ((s.drop (pos + ofBe32 ((s.drop pos).take 4) + 8)).take 4) := by
              apply Classical.byContradiction; intro hne; exact hcrc hne
            generalize hL : ofBe32 ((s.drop pos).take 4) = L at *
            obtain ⟨ds, hp, hsz, hdrop, hpos', hle, hds⟩ :=
              ih _ _ _ _ _ _ h (by omega)
            have hchunklen : ((s.drop (pos + 8)).take L).length = L := by
              simp only [List.length_take, List.length_drop]; omega
            have h4a : ((s.drop pos).take 4).length = 4 := by
              simp only [List.length_take, List.length_drop]; omega
            have h4b : ((s.drop (pos + L + 8)).take 4).length = 4 := by
              simp only [List.length_take, List.length_drop]; omega
            have hbe1 : be32 L = (s.drop pos).take 4 := by
              rw [← hL]; exact be32_ofBe32 _ h4a (lt256_take_drop s hb _ _)
            have hbe2 : be32 (crc (idatTag ++ (s.drop (pos + 8)).take L)) =
                (s.drop (pos + L + 8)).take 4 := by
              rw [← hty, hcrc']; exact be32_ofBe32 _ h4b (lt256_take_drop s hb _ _)
            refine ⟨(s.drop (pos + 8)).take L :: ds, ?_, ?_, ?_, ?_, hle, ?_⟩
            · rw [hp]; simp
            · rw [hsz, List.map_cons, hchunklen]; simp
            · rw [idatWire_cons, hchunklen, hbe1, hbe2, ← hty]
              have k1 := drop_split s pos 4
              have k2 := drop_split s (pos + 4) 4
              have k3 := drop_split s (pos + 8) L
              have k4 := drop_split s (pos + L + 8) 4
              have e1 : pos + 4 + 4 = pos + 8 := by omega
              have e2 : pos + 8 + L = pos + L + 8 := by omega
              have e3 : pos + L + 8 + 4 = pos + L + 12 := by omega
              rw [e1] at k2; rw [e2] at k3; rw [e3, hdrop] at k4
              conv => lhs; rw [k1, k2, k3, k4]
              simp only [List.append_assoc]
            · rw [idatWire_cons, hpos']
              simp only [List.length_append, c_be32_length, hchunklen]
              simp [idatTag]; omega
            · intro d hd
              rcases List.mem_cons.mp hd with rfl | hd
              · rw [hchunklen]
                refine ⟨hlen0, ?_⟩
                rw [← hL]; exact ofBe32_lt _ (lt256_take_drop s hb _ _)
              · exact hds d hd
    · exact hnil h

theorem throw_bind {α β} (e : Fail) (f : α → R β) : ((throw e : R α) >>= f) = .error e := rfl

theorem idatEmit_wire (crc : Bytes → Nat) : ∀ (ds : List Bytes) (pre contents : Bytes) (idx : Nat),
    contents = pre ++ ds.flatten → idx = pre.length →
    idatEmit crc contents idx (ds.map List.length) = .ok (idatWire crc ds) := by
  intro ds
  induction ds with
  | nil => intro _ _ _ _ _; simp [idatEmit, idatWire]
  | cons d ds ih =>
    intro pre contents idx hc hi
    have hlen : ¬ idx + d.length > contents.length := by
      subst hc hi; simp
    have hcont : (contents.drop idx).take d.length = d := by
      subst hc hi; simp
    have hrec := ih (pre ++ d) contents (idx + d.length) (by subst hc; simp) (by subst hi; simp)
    simp only [List.map_cons, idatEmit, hlen, if_false, hcont, hrec, c_bind_ok, idatWire_cons]

theorem length_flatten_le_wire (crc : Bytes → Nat) (ds : List Bytes) :
    ds.flatten.length ≤ (idatWire crc ds).length := by
  induction ds with
  | nil => simp [idatWire]
  | cons d ds ih => rw [idatWire_cons]; simp only [List.flatten_cons, List.length_append]; omega

theorem mem_flatten_mem_wire (crc : Bytes → Nat) (ds : List Bytes) (b : Nat) :
    b ∈ ds.flatten → b ∈ idatWire crc ds := by
  induction ds with
  | nil => simp
  | cons d ds ih =>
    rw [idatWire_cons]
    simp only [List.flatten_cons, List.mem_append]
    rintro (h | h)
    · exact Or.inl (Or.inl (Or.inr h))
    · exact Or.inr (ih h)

theorem parseIdat_spec (crc : Bytes → Nat) (s : Bytes) (hb : ∀ b ∈ s, b < 256)
    (hs : s.length < 2 ^ 32) (c : IdatContents) (pl : Bytes)
    (h : parseIdat crc s = .ok (c, pl)) :
    c.totalChunkLength ≤ s.length ∧ (∀ x ∈ c.chunkSizes, x ≠ 0 ∧ x < 2 ^ 32) ∧
    c.zlibHeader.length = 2 ∧ c.adler < 2 ^ 32 ∧
    ∀ c' : IdatContents, c'.chunkSizes = c.chunkSizes → c'.zlibHeader = c.zlibHeader →
      c'.adler = c.adler → recreateIdat crc c' pl = .ok (s.take c.totalChunkLength) := by
  unfold parseIdat at h
  split at h
  · rw [throw_bind] at h; cases h
  · cases hc : idatChunks crc s (s.length + 1) 0 [] [] with
    | error e => rw [hc] at h; cases h
    | ok x =>
      obtain ⟨payload, sizes, pos⟩ := x
      rw [hc, c_bind_ok] at h
      simp only at h
      split at h
      · rw [throw_bind] at h; cases h
      · rename_i hlen6
        injection h with h
        injection h with h1 h2
        obtain ⟨ds, hp, hsz, hdrop, hpos', hle, hds⟩ :=
          idatChunks_spec crc s hb _ _ _ _ _ _ _ hc (Nat.zero_le _)
        simp only [List.nil_append, List.drop_zero, Nat.zero_add] at hp hsz hdrop hpos'
        have hbp : ∀ b ∈ payload, b < 256 := by
          intro b hb'
          apply hb
          rw [hdrop]
          rw [hp] at hb'
          exact List.mem_append_left _ (mem_flatten_mem_wire crc ds b hb')
        subst h1 h2
        simp only
        refine ⟨hle, ?_, ?_, ?_, ?_⟩
        · intro x hx
          rw [hsz] at hx
          obtain ⟨d, hd, rfl⟩ := List.mem_map.mp hx
          exact hds d hd
        · simp only [List.length_take]; omega
        · exact ofBe32_lt _ (fun b hb' => hbp b (List.mem_of_mem_drop hb'))
        · intro c' e1 e2 e3
          have hsum : c'.chunkSizes.sum = payload.length := by
            rw [e1, hsz, hp, List.length_flatten]
          have hwl := length_flatten_le_wire crc ds
          rw [← hp] at hwl
          have hbe : be32 c'.adler = payload.drop (payload.length - 4) := by
            rw [e3]
            exact be32_ofBe32 _ (by simp only [List.length_drop]; omega)
              (fun b hb' => hbp b (List.mem_of_mem_drop hb'))
          have hcontents : c'.zlibHeader ++ (payload.drop 2).take (payload.length - 6) ++
              be32 c'.adler = payload := by
            rw [e2, hbe]
            have k1 := drop_split payload 2 (payload.length - 6)
            have e : 2 + (payload.length - 6) = payload.length - 4 := by omega
            rw [e] at k1
            rw [List.append_assoc, ← k1, List.take_append_drop]
          have htake : s.take pos = idatWire crc ds := by
            rw [hdrop, hpos', ← hpos', List.take_left']
            exact hpos'.symm
          unfold recreateIdat
          have hne : ¬ (c'.chunkSizes.sum % 4294967296 ≠
              ((payload.drop 2).take (payload.length - 6)).length + 6) := by
            rw [hsum, Nat.mod_eq_of_lt (by omega)]
            simp only [List.length_take, List.length_drop]; omega
          rw [if_neg hne, hcontents, htake, e1, hsz]
          exact idatEmit_wire crc ds [] payload 0 (by simpa using hp) rfl
theorem length_le_flatMap_varint (sizes : List Nat) : sizes.length ≤ (sizes.flatMap varint).length := by
  induction sizes with
  | nil => simp
  | cons x xs ih =>
    have := varint_length_pos x
    simp only [List.flatMap_cons, List.length_append, List.length_cons]; omega

theorem readSizes_write : ∀ (sizes : List Nat) (fuel : Nat) (rest : Bytes),
    (∀ x ∈ sizes, x ≠ 0 ∧ x < 2 ^ 32) → sizes.length + 1 ≤ fuel →
    readSizes fuel (sizes.flatMap varint ++ varint 0 ++ rest) = .ok (sizes, rest) := by
  intro sizes
  induction sizes with
  | nil =>
    intro fuel rest _ hf
    obtain ⟨f, rfl⟩ : ∃ f, fuel = f + 1 := ⟨fuel - 1, by simp at hf; omega⟩
    simp only [List.flatMap_nil, List.nil_append, readSizes,
      varint_lt 0 (by omega) rest, c_bind_ok, if_true]
  | cons x xs ih =>
    intro fuel rest hx hf
    obtain ⟨f, rfl⟩ : ∃ f, fuel = f + 1 := ⟨fuel - 1, by simp at hf; omega⟩
    have hx0 := hx x (by simp)
    have hrec := ih f rest (fun y hy => hx y (by simp [hy])) (by simp at hf; omega)
    simp only [List.flatMap_cons, List.append_assoc, readSizes,
      varint_lt x hx0.2 _, c_bind_ok, if_neg hx0.1]
    rw [← List.append_assoc, hrec]
    rfl

theorem c_ofBe32_be32 (v : Nat) (h : v < 2 ^ 32) : ofBe32 (be32 v) = v := by
  simp only [be32, ofBe32]; omega

theorem readIdatContents_write (c : IdatContents) (rest : Bytes)
    (hsz : ∀ x ∈ c.chunkSizes, x ≠ 0 ∧ x < 2 ^ 32) (hh : c.zlibHeader.length = 2)
    (ha : c.adler < 2 ^ 32) :
    ∃ c', readIdatContents (writeIdatContents c ++ rest) = .ok (c', rest) ∧
      c'.chunkSizes = c.chunkSizes ∧ c'.zlibHeader = c.zlibHeader ∧ c'.adler = c.adler := by
  have h1 : writeIdatContents c ++ rest =
      c.chunkSizes.flatMap varint ++ varint 0 ++ (c.zlibHeader ++ (be32 c.adler ++ rest)) := by
    simp [writeIdatContents]
  have hfuel : c.chunkSizes.length + 1 ≤ (writeIdatContents c ++ rest).length + 1 := by
    have := length_le_flatMap_varint c.chunkSizes
    rw [h1]; simp only [List.length_append]; omega
  have hr : readSizes ((writeIdatContents c ++ rest).length + 1) (writeIdatContents c ++ rest) =
      .ok (c.chunkSizes, c.zlibHeader ++ (be32 c.adler ++ rest)) := by
    rw [h1] at hfuel ⊢
    exact readSizes_write c.chunkSizes _ _ hsz hfuel
  unfold readIdatContents
  rw [hr, c_bind_ok]
  simp only
  rw [takeExact_append' 2 _ _ hh, c_bind_ok]
  simp only
  rw [takeExact_append' 4 _ _ (c_be32_length _), c_bind_ok]
  exact ⟨_, rfl, rfl, rfl, c_ofBe32_be32 _ ha⟩
end Preflate.Proofs
