/-
The concrete oracle `libOracle` (Model/Library.lean): what `Oracle.verified` amounts to for it.
Everything here is a composition of the stream-level theorems (C02Public, C05Public, C10, PlainLimit).
-/
import Preflate.Model.Library
import Preflate.Props.C02Public
import Preflate.Props.C05Public
import Preflate.Props.C10
import Preflate.Proofs.PlainLimit
import Preflate.Proofs.ContainerChunks
namespace Preflate.Proofs
open Preflate

theorem toU8_ofU8 (l : List UInt8) : toU8 (ofU8 l) = l := by
  induction l with
  | nil => rfl
  | cons a l ih =>
    simp only [toU8, ofU8, List.map_cons, List.map_map] at ih ⊢
    rw [ih, UInt8.ofNat_toNat]

theorem length_toU8 (d : Bytes) : (toU8 d).length = d.length := by simp [toU8]

theorem length_ofU8 (d : List UInt8) : (ofU8 d).length = d.length := by simp [ofU8]

/-- on bytes, the conversion to `UInt8` and back is the identity -/
theorem ofU8_toU8 (d : Bytes) (hb : ∀ b ∈ d, b < 256) : ofU8 (toU8 d) = d := by
  induction d with
  | nil => rfl
  | cons a d ih =>
    have ha : a < 256 := hb a (List.mem_cons_self ..)
    have ih := ih (fun b h => hb b (List.mem_cons_of_mem _ h))
    simp only [toU8, ofU8, List.map_cons, List.map_map] at ih ⊢
    rw [ih]
    congr 1
    show (UInt8.ofNat a).toNat = a
    rw [UInt8.toNat_ofNat']
    exact Nat.mod_eq_of_lt ha

theorem ofU8_take (n : Nat) (l : List UInt8) : ofU8 (l.take n) = (ofU8 l).take n := by
  simp [ofU8, List.map_take]

/-- the byte-level `decompress_deflate_stream` model ends in Ok or Err on every input below 512 MiB:
    the analysis ends in Ok or Err (`public_outcomes`), every operation it emits is well formed
    (`analysis_facts`), hence the bool coder accepts them (`bytes_roundtrip`) -/
theorem decompressBytes_outcomes (d : List UInt8) (hd : d.length < 2 ^ 61) :
    (∃ x, decompressBytes Est.estimate Chains.pred false d = .ok x) ∨
      decompressBytes Est.estimate Chains.pred false d = .error .err := by
  rcases public_outcomes false d with ⟨r, h⟩ | h
  · obtain ⟨hwf, _⟩ := analysis_facts Est.estimate Chains.pred chains_pred_bounded d hd
      (estimate_in_range_parsed d) r h
    obtain ⟨_, bytes, _, he, _⟩ := Preflate.bytes_roundtrip r.corr hwf
    left
    exact ⟨(r.plain, bytes, r.size, r.params), by
      simp only [decompressBytes, h, he, bind, Except.bind, Bool.false_eq_true, if_false]⟩
  · right
    simp only [decompressBytes, h, bind, Except.bind]

/-- a successful byte-level analysis: consumed size within the input, plaintext within an `i32` -/
theorem decompressBytes_bounds (verify : Bool) (d : List UInt8) (plain : Array Nat) (bytes : Array UInt8)
    (n : Nat) (q : Params)
    (h : decompressBytes Est.estimate Chains.pred verify d = .ok (plain, bytes, n, q)) :
    n ≤ d.length ∧ plain.size ≤ 2147483647 := by
  obtain ⟨r, h1, _, rfl, rfl, rfl, _⟩ := decompressBytes_ok h
  refine ⟨(public_pair_exact false d r h1).2, ?_⟩
  obtain ⟨p, params, hdr, body, hp, _, _, _, rfl⟩ := decompressStream_ok h1
  exact parse_plain_lt d p hp

theorem libAnalyze_ok (d : Bytes) (r : Res) (h : libOracle.analyze d = .ok r) :
    ∃ plain bytes q, decompressBytes Est.estimate Chains.pred false (toU8 d) = .ok (plain, bytes, r.size, q) ∧
      r = ⟨plain.toList, ofU8 bytes.toList, r.size⟩ := by
  change libAnalyze d = .ok r at h
  unfold libAnalyze at h
  cases hx : decompressBytes Est.estimate Chains.pred false (toU8 d) with
  | error e => rw [hx] at h; cases h
  | ok x =>
    obtain ⟨plain, bytes, n, q⟩ := x
    rw [hx] at h
    simp only [bind, Except.bind, Except.ok.injEq] at h
    subst h
    exact ⟨plain, bytes, q, rfl, rfl⟩

/-- reconstruction from what the analysis returned: exactly the consumed prefix -/
theorem libRecompress_analyzed (d : Bytes) (hd : d.length < 2 ^ 61) (plain : Array Nat)
    (bytes : Array UInt8) (n : Nat) (q : Params)
    (h : decompressBytes Est.estimate Chains.pred false (toU8 d) = .ok (plain, bytes, n, q)) :
    libOracle.recompress plain.toList (ofU8 bytes.toList) = .ok (ofU8 ((toU8 d).take n)) := by
  show libRecompress _ _ = _
  unfold libRecompress
  rw [toU8_ofU8, Array.toArray_toList, Array.toArray_toList,
    public_bytes_exact false (toU8 d) plain bytes n q h (by rw [length_toU8]; exact hd)]
  rfl

theorem lib_verified_of_error (d : Bytes) (e : Fail)
    (h : decompressBytes Est.estimate Chains.pred false (toU8 d) = .error e) :
    libOracle.analyze d = .error e ∧ libOracle.verified d = .error e := by
  have ha : libOracle.analyze d = .error e := by
    show libAnalyze d = _
    simp only [libAnalyze, h, bind, Except.bind]
  refine ⟨ha, ?_⟩
  unfold Oracle.verified
  rw [ha]
  rfl

theorem lib_verified_of_ok (d : Bytes) (hd : d.length < 2 ^ 61) (plain : Array Nat)
    (bytes : Array UInt8) (n : Nat) (q : Params)
    (h : decompressBytes Est.estimate Chains.pred false (toU8 d) = .ok (plain, bytes, n, q)) :
    libOracle.analyze d = .ok ⟨plain.toList, ofU8 bytes.toList, n⟩ ∧
    libOracle.verified d =
      if ofU8 ((toU8 d).take n) = d.take n then .ok ⟨plain.toList, ofU8 bytes.toList, n⟩
      else .error .err := by
  have hn := (decompressBytes_bounds false _ plain bytes n q h).1
  rw [length_toU8] at hn
  have ha : libOracle.analyze d = .ok ⟨plain.toList, ofU8 bytes.toList, n⟩ := by
    show libAnalyze d = _
    simp only [libAnalyze, h, bind, Except.bind]
  refine ⟨ha, ?_⟩
  have hr := libRecompress_analyzed d hd plain bytes n q h
  unfold Oracle.verified
  rw [ha, c_bind_ok]
  simp only
  rw [hr, c_bind_ok]
  simp only [Nat.not_lt.mpr hn, if_false]

/-- WHAT THE SCANNER'S ACCEPTANCE TEST IS for the concrete oracle, on any candidate below 512 MiB:
    rejected with Err, or the analysis returned Ok and the result is accepted iff the candidate's
    consumed prefix consists of bytes (always the case for a slice of a file) -/
theorem lib_verified_eq (d : Bytes) (hd : d.length < 2 ^ 61) :
    libOracle.verified d = .error .err ∨
    ∃ plain bytes n q,
      decompressBytes Est.estimate Chains.pred false (toU8 d) = .ok (plain, bytes, n, q) ∧
      n ≤ d.length ∧ plain.size ≤ 2147483647 ∧
      libOracle.verified d =
        if ofU8 ((toU8 d).take n) = d.take n then .ok ⟨plain.toList, ofU8 bytes.toList, n⟩
        else .error .err := by
  rcases decompressBytes_outcomes (toU8 d) (by rw [length_toU8]; exact hd) with ⟨⟨plain, bytes, n, q⟩, h⟩ | h
  · right
    obtain ⟨hn, hp⟩ := decompressBytes_bounds false _ plain bytes n q h
    rw [length_toU8] at hn
    exact ⟨plain, bytes, n, q, h, hn, hp, (lib_verified_of_ok d hd plain bytes n q h).2⟩
  · left
    exact (lib_verified_of_error d _ h).2

/-- the acceptance test of the concrete oracle does not panic (candidates below 512 MiB) -/
theorem lib_no_panic_lt (d : Bytes) (hd : d.length < 2 ^ 61) (m : String) :
    libOracle.verified d ≠ .error (.panic m) := by
  rcases lib_verified_eq d hd with h | ⟨plain, bytes, n, q, _, _, _, h⟩
  · rw [h]; intro hc; cases hc
  · rw [h]; split <;> (intro hc; cases hc)

/-- … nor does it run out of any loop bound of the model -/
theorem lib_no_fuel_lt (d : Bytes) (hd : d.length < 2 ^ 61) :
    libOracle.verified d ≠ .error .fuel := by
  rcases lib_verified_eq d hd with h | ⟨plain, bytes, n, q, _, _, _, h⟩
  · rw [h]; intro hc; cases hc
  · rw [h]; split <;> (intro hc; cases hc)

theorem verified_analyze (o : Oracle) (d : Bytes) (r : Res) (h : o.verified d = .ok r) :
    o.analyze d = .ok r := by
  unfold Oracle.verified at h
  cases ha : o.analyze d with
  | error e => rw [ha] at h; cases h
  | ok r' =>
    rw [ha, c_bind_ok] at h
    cases hr : o.recompress r'.plain r'.corr with
    | error e => rw [hr] at h; cases h
    | ok back =>
      rw [hr, c_bind_ok] at h
      by_cases hsz : r'.size > d.length
      · simp only [hsz, if_true] at h
        split at h <;> (rw [throw_bind] at h; cases h)
      · simp only [hsz, if_false] at h
        split at h
        · injection h with h; rw [h]
        · cases h

/-- the plaintext of an accepted stream fits an `i32` (the parser's 2 GiB guard), whatever the
    candidate; in particular it fits the chunk's u32 length field -/
theorem lib_plain_size (d : Bytes) (r : Res) (h : libOracle.verified d = .ok r) :
    r.plain.length ≤ 2147483647 := by
  obtain ⟨plain, bytes, q, h1, h2⟩ := libAnalyze_ok d r (verified_analyze _ d r h)
  rw [h2]
  exact (decompressBytes_bounds false _ plain bytes r.size q h1).2

/-- on a byte candidate below 512 MiB the reconstruction check always passes: the concrete
    oracle accepts exactly when the analysis returns Ok (what `verify = true` would also return,
    `public_bytes_verify_same`) -/
theorem lib_verified_bytes (d : Bytes) (hb : ∀ b ∈ d, b < 256) (hd : d.length < 2 ^ 61) :
    libOracle.verified d = libOracle.analyze d := by
  cases hx : decompressBytes Est.estimate Chains.pred false (toU8 d) with
  | error e =>
    obtain ⟨h1, h2⟩ := lib_verified_of_error d e hx
    rw [h1, h2]
  | ok x =>
    obtain ⟨plain, bytes, n, q⟩ := x
    obtain ⟨h1, h2⟩ := lib_verified_of_ok d hd plain bytes n q hx
    rw [h1, h2, ofU8_take, ofU8_toU8 d hb, if_pos rfl]

end Preflate.Proofs
