/-
Locality of the parser (C02: "the result depends only on D[..compressed_size]").

Every primitive of the model parser is LOCAL: if it succeeds on `bs` leaving `rest`, then
`bs = pre ++ rest` and on `pre ++ rest'` it returns the same value leaving `rest'` — for any `rest'`
(with the same length modulo 8 where the primitive looks at the byte alignment, and with any fuel
above `pre.length` where the primitive is a fuel-bounded loop). Symbol decoding is local because,
for a length vector that passed the validity check, canonical matching is the tree walk
(`decodeSymTree_spec`), and the tree walk reads bit by bit.
-/
import Preflate.Proofs.Deflate
import Preflate.Proofs.HuffTree
namespace Preflate.Proofs
open Preflate Preflate.Gen
set_option linter.unusedSimpArgs false
set_option linter.unusedVariables false

theorem readBits_app {n v : Nat} (hv : v < 2 ^ n) (rest : Bits) :
    readBits n (bitsOfNat n v ++ rest) = .ok (v, rest) := by
  induction n generalizing v with
  | zero =>
    have : v = 0 := by simpa using hv
    subst this
    simp [bitsOfNat, readBits]
  | succ n ih =>
    have h2 : v / 2 < 2 ^ n := by rw [Nat.pow_succ] at hv; omega
    simp only [bitsOfNat, List.cons_append, readBits, ih h2]
    have : (if (v % 2 == 1) = true then 1 else 0) + 2 * (v / 2) = v := by
      by_cases h : v % 2 = 1 <;> simp [h] <;> omega
    rw [this]

theorem readBits_loc {n : Nat} {bs : Bits} {v : Nat} {rest : Bits}
    (h : readBits n bs = .ok (v, rest)) :
    ∃ pre, bs = pre ++ rest ∧ pre.length = n ∧ ∀ rest', readBits n (pre ++ rest') = .ok (v, rest') := by
  obtain ⟨e, hv⟩ := readBits_ok h
  exact ⟨bitsOfNat n v, e, by simp, fun rest' => readBits_app hv rest'⟩

theorem walkTree_cons (t : Array Int) (fuel : Nat) (node : Int) (b : Bool) (bs : Bits) :
    walkTree t (fuel + 1) node (b :: bs) =
      if node + (if b then 1 else 0) < 0 ∨ (node + (if b then 1 else 0)).toNat ≥ t.size then
        .error (.panic "decode_symbol: index out of bounds")
      else if t.getD (node + (if b then 1 else 0)).toNat 0 < 0 then
        .ok ((0 - (t.getD (node + (if b then 1 else 0)).toNat 0 + 1)).toNat, bs)
      else walkTree t fuel (t.getD (node + (if b then 1 else 0)).toNat 0) bs := rfl

theorem walkTree_loc (t : Array Int) : ∀ (fuel : Nat) (node : Int) (bs : Bits) (s : Nat) (rest : Bits),
    walkTree t fuel node bs = .ok (s, rest) →
    ∃ pre, bs = pre ++ rest ∧ 0 < pre.length ∧
      ∀ fuel' rest', pre.length < fuel' → walkTree t fuel' node (pre ++ rest') = .ok (s, rest') := by
  intro fuel
  induction fuel with
  | zero => intro node bs s rest h; simp [walkTree] at h
  | succ fuel ih =>
    intro node bs s rest h
    cases bs with
    | nil => simp [walkTree] at h
    | cons b bs =>
      rw [walkTree_cons] at h
      generalize hi : node + (if b then 1 else 0) = i at h
      by_cases hidx : i < 0 ∨ i.toNat ≥ t.size
      · rw [if_pos hidx] at h; simp at h
      · rw [if_neg hidx] at h
        by_cases hneg : t.getD i.toNat 0 < 0
        · rw [if_pos hneg] at h
          simp only [Except.ok.injEq, Prod.mk.injEq] at h
          obtain ⟨rfl, rfl⟩ := h
          refine ⟨[b], rfl, by simp, ?_⟩
          intro fuel' rest' hf
          obtain ⟨f, rfl⟩ : ∃ f, fuel' = f + 1 := ⟨fuel' - 1, by omega⟩
          rw [List.cons_append, List.nil_append, walkTree_cons, hi, if_neg hidx, if_pos hneg]
        · rw [if_neg hneg] at h
          obtain ⟨pre, e, hp, hall⟩ := ih _ _ _ _ h
          refine ⟨b :: pre, by rw [e]; rfl, by simp, ?_⟩
          intro fuel' rest' hf
          obtain ⟨f, rfl⟩ : ∃ f, fuel' = f + 1 := ⟨fuel' - 1, by simp at hf; omega⟩
          rw [List.cons_append, walkTree_cons, hi, if_neg hidx, if_neg hneg]
          exact hall f rest' (by simp at hf; omega)

theorem decodeSym_loc {l : List Nat} (hv : validLengths l = true) {bs : Bits} {s : Nat} {rest : Bits}
    (h : decodeSym (codeTable l) bs = .ok (s, rest)) :
    ∃ pre, bs = pre ++ rest ∧ 0 < pre.length ∧
      ∀ rest', decodeSym (codeTable l) (pre ++ rest') = .ok (s, rest') := by
  have hc := complete_of_valid hv
  have ht := treeOK_blocks hc
  rw [← decodeSymTree_spec hc ht] at h
  unfold decodeSymTree at h
  obtain ⟨pre, e, hp, hall⟩ := walkTree_loc _ _ _ _ _ _ h
  refine ⟨pre, e, hp, fun rest' => ?_⟩
  rw [← decodeSymTree_spec hc ht]
  unfold decodeSymTree
  exact hall _ rest' (by simp; omega)

theorem mkTable_valid {l : List Nat} {t : List (Bits × Nat)} (h : mkTable l = .ok t) :
    t = codeTable l ∧ validLengths l = true := by
  unfold mkTable at h
  split at h
  · rename_i hv
    simp only [Except.ok.injEq] at h
    exact ⟨h.symm, hv⟩
  · simp at h

theorem readCodeLengths_loc : ∀ (n i : Nat) (acc : List Nat) (bs : Bits) (cl : List Nat) (rest : Bits),
    readCodeLengths n i acc bs = .ok (cl, rest) →
    ∃ pre, bs = pre ++ rest ∧ ∀ rest', readCodeLengths n i acc (pre ++ rest') = .ok (cl, rest') := by
  intro n
  induction n with
  | zero =>
    intro i acc bs cl rest h
    simp only [readCodeLengths, Except.ok.injEq, Prod.mk.injEq] at h
    obtain ⟨rfl, rfl⟩ := h
    exact ⟨[], rfl, fun _ => rfl⟩
  | succ n ih =>
    intro i acc bs cl rest h
    simp only [readCodeLengths, bind_eq_ok] at h
    obtain ⟨⟨v, bs1⟩, h1, h2⟩ := h
    simp only at h2
    obtain ⟨p1, e1, _, a1⟩ := readBits_loc h1
    obtain ⟨p2, e2, a2⟩ := ih _ _ _ _ _ h2
    refine ⟨p1 ++ p2, by rw [e1, e2, List.append_assoc], fun rest' => ?_⟩
    simp only [readCodeLengths, List.append_assoc, a1, ok_bind, a2]

theorem readRleItems_loc {cl : List Nat} (hv : validLengths cl = true) (total : Nat) :
    ∀ (fuel read : Nat) (bs : Bits) (items : List RleItem) (rest : Bits),
    readRleItems (codeTable cl) total fuel read bs = .ok (items, rest) →
    ∃ pre, bs = pre ++ rest ∧ ∀ fuel' rest', pre.length < fuel' →
      readRleItems (codeTable cl) total fuel' read (pre ++ rest') = .ok (items, rest') := by
  intro fuel
  induction fuel with
  | zero => intro read bs items rest h; simp [readRleItems] at h
  | succ fuel ih =>
    intro read bs items rest h
    rw [readRleItems] at h
    split at h
    · rename_i hlt
      simp only [bind_eq_ok] at h
      obtain ⟨⟨w, bs1⟩, h1, h2⟩ := h
      simp only at h2
      obtain ⟨p1, e1, hp1, a1⟩ := decodeSym_loc hv h1
      split at h2
      · rename_i hw
        simp only [bind_eq_ok] at h2
        obtain ⟨⟨its, bs2⟩, h3, h4⟩ := h2
        simp only [Except.ok.injEq, Prod.mk.injEq] at h4
        obtain ⟨rfl, rfl⟩ := h4
        obtain ⟨p2, e2, a2⟩ := ih _ _ _ _ h3
        refine ⟨p1 ++ p2, by rw [e1, e2, List.append_assoc], ?_⟩
        intro fuel' rest' hf
        obtain ⟨f, rfl⟩ : ∃ f, fuel' = f + 1 := ⟨fuel' - 1, by omega⟩
        rw [readRleItems]
        simp only [hlt, if_true, List.append_assoc, a1, ok_bind, hw,
          a2 f rest' (by simp at hf; omega)]
      · rename_i hw
        split at h2
        · rename_i hw2
          simp only [bind_eq_ok] at h2
          obtain ⟨⟨x, bs2⟩, h3, ⟨its, bs3⟩, h4, h5⟩ := h2
          simp only [Except.ok.injEq, Prod.mk.injEq] at h3 h4 h5
          obtain ⟨rfl, rfl⟩ := h5
          obtain ⟨p2, e2, _, a2⟩ := readBits_loc h3
          obtain ⟨p3, e3, a3⟩ := ih _ _ _ _ h4
          refine ⟨p1 ++ (p2 ++ p3), by rw [e1, e2, e3]; simp, ?_⟩
          intro fuel' rest' hf
          obtain ⟨f, rfl⟩ : ∃ f, fuel' = f + 1 := ⟨fuel' - 1, by omega⟩
          rw [readRleItems]
          simp only [hlt, if_true, List.append_assoc, a1, ok_bind, hw, if_false, hw2, a2,
            a3 f rest' (by simp at hf; omega)]
        · simp at h2
    · split at h
      · rename_i hnl heq
        simp only [Except.ok.injEq, Prod.mk.injEq] at h
        obtain ⟨rfl, rfl⟩ := h
        refine ⟨[], rfl, ?_⟩
        intro fuel' rest' hf
        obtain ⟨f, rfl⟩ : ∃ f, fuel' = f + 1 := ⟨fuel' - 1, by omega⟩
        rw [readRleItems, if_neg hnl, if_pos heq]
        rfl
      · simp at h

theorem readHeader_loc {bs : Bits} {hd : Header} {rest : Bits} (h : readHeader bs = .ok (hd, rest)) :
    ∃ pre, bs = pre ++ rest ∧ ∀ rest', readHeader (pre ++ rest') = .ok (hd, rest') := by
  simp only [readHeader, bind_eq_ok] at h
  obtain ⟨⟨a, bs1⟩, h1, ⟨b, bs2⟩, h2, ⟨c, bs3⟩, h3, ⟨cl, bs4⟩, h4, t, h5, ⟨items, bs5⟩, h6, h⟩ := h
  simp only [Except.ok.injEq, Prod.mk.injEq] at h2 h3 h4 h5 h6 h
  obtain ⟨rfl, rfl⟩ := h
  obtain ⟨rfl, hv⟩ := mkTable_valid h5
  obtain ⟨p1, e1, _, a1⟩ := readBits_loc h1
  obtain ⟨p2, e2, _, a2⟩ := readBits_loc h2
  obtain ⟨p3, e3, _, a3⟩ := readBits_loc h3
  obtain ⟨p4, e4, a4⟩ := readCodeLengths_loc _ _ _ _ _ _ h4
  obtain ⟨p5, e5, a5⟩ := readRleItems_loc hv _ _ _ _ _ _ h6
  refine ⟨p1 ++ (p2 ++ (p3 ++ (p4 ++ p5))), by rw [e1, e2, e3, e4, e5]; simp only [List.append_assoc], fun rest' => ?_⟩
  simp only [readHeader, List.append_assoc, a1, a2, a3, a4, ok_bind, h5,
    a5 ((p5 ++ rest').length + 1) rest' (by simp only [List.length_append]; omega)]

theorem decodeTokens_loc {ll dl : List Nat} (hl : validLengths ll = true) (hd : validLengths dl = true) :
    ∀ (fuel : Nat) (plain : Array Nat) (bs : Bits) (ts : List Token) (plain' : Array Nat) (rest : Bits),
    decodeTokens (codeTable ll) (codeTable dl) fuel plain bs = .ok (ts, plain', rest) →
    ∃ pre, bs = pre ++ rest ∧ 0 < pre.length ∧ ∀ fuel' rest', pre.length < fuel' →
      decodeTokens (codeTable ll) (codeTable dl) fuel' plain (pre ++ rest') = .ok (ts, plain', rest') := by
  intro fuel
  induction fuel with
  | zero => intro plain bs ts plain' rest h; simp [decodeTokens] at h
  | succ fuel ih =>
    intro plain bs ts plain' rest h
    rw [decodeTokens] at h
    have hg : ¬ plain.size > PLAIN_LIMIT := fun hc => by rw [if_pos hc] at h; cases h
    rw [if_neg hg] at h
    simp only [bind_eq_ok] at h
    obtain ⟨⟨sym, bs1⟩, h1, h⟩ := h
    simp only at h
    obtain ⟨p1, e1, hp1, a1⟩ := decodeSym_loc hl h1
    split at h
    · rename_i hs
      simp only [bind_eq_ok] at h
      obtain ⟨⟨ts2, pl2, bs2⟩, h2, h⟩ := h
      simp only [Except.ok.injEq, Prod.mk.injEq] at h
      obtain ⟨rfl, rfl, rfl⟩ := h
      obtain ⟨p2, e2, _, a2⟩ := ih _ _ _ _ _ h2
      refine ⟨p1 ++ p2, by rw [e1, e2, List.append_assoc], by simp; omega, ?_⟩
      intro fuel' rest' hf
      obtain ⟨f, rfl⟩ : ∃ f, fuel' = f + 1 := ⟨fuel' - 1, by omega⟩
      rw [decodeTokens, if_neg hg]
      simp only [List.append_assoc, a1, ok_bind, hs, if_true, a2 f rest' (by simp at hf; omega)]
    · rename_i hs
      split at h
      · rename_i hs2
        simp only [Except.ok.injEq, Prod.mk.injEq] at h
        obtain ⟨rfl, rfl, rfl⟩ := h
        refine ⟨p1, e1, hp1, ?_⟩
        intro fuel' rest' hf
        obtain ⟨f, rfl⟩ : ∃ f, fuel' = f + 1 := ⟨fuel' - 1, by omega⟩
        rw [decodeTokens, if_neg hg]
        simp only [a1, ok_bind, if_neg hs, if_pos hs2]
      · rename_i hs2
        split at h
        · simp only [throw_bind_eq_ok] at h
        · rename_i hlc
          simp only [bind_eq_ok] at h
          obtain ⟨⟨ex, bs2⟩, h2, ⟨dcode, bs3⟩, h3, h⟩ := h
          simp only at h3 h
          split at h
          · simp only [throw_bind_eq_ok] at h
          · rename_i hdc
            simp only [bind_eq_ok] at h
            obtain ⟨⟨dx, bs4⟩, h4, h⟩ := h
            simp only at h
            split at h
            · simp only [throw_bind_eq_ok] at h
            · rename_i hdist
              simp only [bind_eq_ok] at h
              obtain ⟨⟨ts2, pl2, bs5⟩, h5, h⟩ := h
              simp only [Except.ok.injEq, Prod.mk.injEq] at h
              obtain ⟨rfl, rfl, rfl⟩ := h
              obtain ⟨p2, e2, _, a2⟩ := readBits_loc h2
              obtain ⟨p3, e3, _, a3⟩ := decodeSym_loc hd h3
              obtain ⟨p4, e4, _, a4⟩ := readBits_loc h4
              obtain ⟨p5, e5, _, a5⟩ := ih _ _ _ _ _ h5
              refine ⟨p1 ++ (p2 ++ (p3 ++ (p4 ++ p5))), by rw [e1, e2, e3, e4, e5]; simp only [List.append_assoc],
                by simp; omega, ?_⟩
              intro fuel' rest' hf
              obtain ⟨f, rfl⟩ : ∃ f, fuel' = f + 1 := ⟨fuel' - 1, by omega⟩
              rw [decodeTokens, if_neg hg]
              simp only [List.append_assoc, a1, ok_bind, if_neg hs, if_neg hs2, if_neg hlc, a2, a3,
                if_neg hdc, a4, if_neg hdist, a5 f rest' (by simp at hf; omega)]

theorem readBytes_loc : ∀ (n : Nat) (bs : Bits) (data : List Nat) (rest : Bits),
    readBytes n bs = .ok (data, rest) →
    ∃ pre, bs = pre ++ rest ∧ ∀ rest', readBytes n (pre ++ rest') = .ok (data, rest') := by
  intro n
  induction n with
  | zero =>
    intro bs data rest h
    simp only [readBytes, Except.ok.injEq, Prod.mk.injEq] at h
    obtain ⟨rfl, rfl⟩ := h
    exact ⟨[], rfl, fun _ => rfl⟩
  | succ n ih =>
    intro bs data rest h
    simp only [readBytes, bind_eq_ok] at h
    obtain ⟨⟨b, bs1⟩, h1, ⟨r, bs2⟩, h2, h⟩ := h
    simp only [Except.ok.injEq, Prod.mk.injEq] at h2 h
    obtain ⟨rfl, rfl⟩ := h
    obtain ⟨p1, e1, _, a1⟩ := readBits_loc h1
    obtain ⟨p2, e2, a2⟩ := ih _ _ _ h2
    refine ⟨p1 ++ p2, by rw [e1, e2, List.append_assoc], fun rest' => ?_⟩
    simp only [readBytes, List.append_assoc, a1, ok_bind, a2]

theorem readBlock_loc {plain : Array Nat} {bs : Bits} {last : Bool} {b : Block} {plain' : Array Nat}
    {rest : Bits} (h : readBlock plain bs = .ok (last, b, plain', rest)) :
    ∃ pre, bs = pre ++ rest ∧ 0 < pre.length ∧ ∀ rest', rest'.length % 8 = rest.length % 8 →
      readBlock plain (pre ++ rest') = .ok (last, b, plain', rest') := by
  rw [readBlock] at h
  simp only [bind_eq_ok] at h
  obtain ⟨⟨lastN, bs1⟩, h1, ⟨mode, bs2⟩, h2, h⟩ := h
  simp only at h2 h
  obtain ⟨p1, e1, l1, a1⟩ := readBits_loc h1
  obtain ⟨p2, e2, l2, a2⟩ := readBits_loc h2
  split at h
  · -- stored
    rename_i hmode
    simp only [bind_eq_ok] at h
    obtain ⟨⟨pad, bs3⟩, h3, ⟨len, bs4⟩, h4, ⟨ilen, bs5⟩, h5, h⟩ := h
    simp only at h4 h5 h
    split at h
    · simp only [throw_bind_eq_ok] at h
    · rename_i hsum
      split at h
      · simp only [throw_bind_eq_ok] at h
      rename_i hg
      simp only [bind_eq_ok] at h
      obtain ⟨⟨data, bs6⟩, h6, h⟩ := h
      simp only [Except.ok.injEq, Prod.mk.injEq] at h
      obtain ⟨rfl, rfl, rfl, rfl⟩ := h
      obtain ⟨p3, e3, l3, a3⟩ := readBits_loc h3
      obtain ⟨p4, e4, l4, a4⟩ := readBits_loc h4
      obtain ⟨p5, e5, l5, a5⟩ := readBits_loc h5
      obtain ⟨p6, e6, a6⟩ := readBytes_loc _ _ _ _ h6
      refine ⟨p1 ++ (p2 ++ (p3 ++ (p4 ++ (p5 ++ p6)))), by rw [e1, e2, e3, e4, e5, e6]; simp only [List.append_assoc],
        by simp; omega, ?_⟩
      intro rest' hr
      have hlen : (p3 ++ (p4 ++ (p5 ++ (p6 ++ rest')))).length % 8 = bs2.length % 8 := by
        rw [e3, e4, e5, e6]
        simp only [List.length_append]
        omega
      rw [readBlock]
      simp only [List.append_assoc, a1, ok_bind, a2, if_pos hmode, hlen, a3, a4, a5, if_neg hsum, if_neg hg, a6]
  · split at h
    · -- fixed
      rename_i hm0 hmode
      simp only [bind_eq_ok] at h
      obtain ⟨lt, h3, dt, h4, ⟨ts, pl, bs3⟩, h5, h⟩ := h
      simp only [Except.ok.injEq, Prod.mk.injEq] at h
      obtain ⟨rfl, rfl, rfl, rfl⟩ := h
      obtain ⟨hlt, hv1⟩ := mkTable_valid h3
      obtain ⟨hdt, hv2⟩ := mkTable_valid h4
      rw [hlt, hdt] at h5
      obtain ⟨p3, e3, _, a3⟩ := decodeTokens_loc hv1 hv2 _ _ _ _ _ _ h5
      refine ⟨p1 ++ (p2 ++ p3), by rw [e1, e2, e3]; simp only [List.append_assoc], by simp; omega, ?_⟩
      intro rest' hr
      rw [readBlock]
      simp only [List.append_assoc, a1, ok_bind, a2, if_neg hm0, if_pos hmode, h3, h4, hlt, hdt,
        a3 ((p3 ++ rest').length + 1) rest' (by simp only [List.length_append]; omega)]
    · split at h
      · -- dynamic
        rename_i hm0 hm1 hmode
        simp only [bind_eq_ok] at h
        obtain ⟨⟨hd, bs3⟩, h3, ⟨ll, dl⟩, h4, lt, h5, dt, h6, ⟨ts, pl, bs4⟩, h7, h⟩ := h
        simp only [Except.ok.injEq, Prod.mk.injEq] at h4 h5 h6 h7 h
        obtain ⟨rfl, rfl, rfl, rfl⟩ := h
        obtain ⟨rfl, hv1⟩ := mkTable_valid h5
        obtain ⟨rfl, hv2⟩ := mkTable_valid h6
        obtain ⟨p3, e3, a3⟩ := readHeader_loc h3
        obtain ⟨p4, e4, _, a4⟩ := decodeTokens_loc hv1 hv2 _ _ _ _ _ _ h7
        refine ⟨p1 ++ (p2 ++ (p3 ++ p4)), by rw [e1, e2, e3, e4]; simp only [List.append_assoc], by simp; omega, ?_⟩
        intro rest' hr
        rw [readBlock]
        simp only [List.append_assoc, a1, ok_bind, a2, if_neg hm0, if_neg hm1, if_pos hmode, a3, h4,
          h5, h6, a4 ((p4 ++ rest').length + 1) rest' (by simp only [List.length_append]; omega)]
      · simp at h

theorem readBlocks_loc : ∀ (fuel : Nat) (plain : Array Nat) (bs : Bits) (blocks : List Block)
    (plain' : Array Nat) (rest : Bits),
    readBlocks fuel plain bs = .ok (blocks, plain', rest) →
    ∃ pre, bs = pre ++ rest ∧ ∀ fuel' rest', pre.length < fuel' → rest'.length % 8 = rest.length % 8 →
      readBlocks fuel' plain (pre ++ rest') = .ok (blocks, plain', rest') := by
  intro fuel
  induction fuel with
  | zero => intro plain bs blocks plain' rest h; simp [readBlocks] at h
  | succ fuel ih =>
    intro plain bs blocks plain' rest h
    rw [readBlocks] at h
    simp only [bind_eq_ok] at h
    obtain ⟨⟨last, b, pl, bs1⟩, h1, h⟩ := h
    simp only at h
    obtain ⟨p1, e1, hp1, a1⟩ := readBlock_loc h1
    split at h
    · rename_i hlast
      simp only [Except.ok.injEq, Prod.mk.injEq] at h
      obtain ⟨rfl, rfl, rfl⟩ := h
      refine ⟨p1, e1, ?_⟩
      intro fuel' rest' hf hr
      obtain ⟨f, rfl⟩ : ∃ f, fuel' = f + 1 := ⟨fuel' - 1, by omega⟩
      rw [readBlocks]
      simp only [a1 rest' hr, ok_bind, if_pos hlast]
    · rename_i hlast
      simp only [bind_eq_ok] at h
      obtain ⟨⟨r, pl2, bs2⟩, h2, h⟩ := h
      simp only [Except.ok.injEq, Prod.mk.injEq] at h
      obtain ⟨rfl, rfl, rfl⟩ := h
      obtain ⟨p2, e2, a2⟩ := ih _ _ _ _ _ h2
      refine ⟨p1 ++ p2, by rw [e1, e2, List.append_assoc], ?_⟩
      intro fuel' rest' hf hr
      obtain ⟨f, rfl⟩ : ∃ f, fuel' = f + 1 := ⟨fuel' - 1, by omega⟩
      rw [readBlocks]
      have hr1 : (p2 ++ rest').length % 8 = bs1.length % 8 := by
        rw [e2]; simp only [List.length_append]; omega
      simp only [List.append_assoc, a1 _ hr1, ok_bind, if_neg hlast,
        a2 f rest' (by simp at hf; omega) hr]

/-- the whole parser is local: it returns the same blocks, padding and plaintext whatever follows
    the bits it consumed (as long as what follows is byte aligned the same way) -/
theorem parseBits_loc {bs : Bits} {p : Parsed} (h : parseBits bs = .ok p) :
    ∃ pre, bs = pre ++ p.rest ∧ ∀ rest', rest'.length % 8 = p.rest.length % 8 →
      parseBits (pre ++ rest') = .ok { p with rest := rest' } := by
  simp only [parseBits, bind_eq_ok] at h
  obtain ⟨⟨blocks, plain, bs1⟩, h1, ⟨pad, bs2⟩, h2, h⟩ := h
  simp only [Except.ok.injEq] at h2 h
  subst h
  simp only
  obtain ⟨p1, e1, a1⟩ := readBlocks_loc _ _ _ _ _ _ h1
  obtain ⟨p2, e2, l2, a2⟩ := readBits_loc h2
  refine ⟨p1 ++ p2, by rw [e1, e2, List.append_assoc], ?_⟩
  intro rest' hr
  have hr1 : (p2 ++ rest').length % 8 = bs1.length % 8 := by
    rw [e2]; simp only [List.length_append]; omega
  simp only [parseBits, List.append_assoc, a1 ((p1 ++ (p2 ++ rest')).length + 1) (p2 ++ rest') (by simp only [List.length_append]; omega) hr1, ok_bind, hr1, a2]

end Preflate.Proofs
