/-
Abstract trees for the node array built by `combine`, and the specification of `countRec`
(`count_recursive`): it writes, for every leaf of the tree, its depth into `lens`.
-/
import Preflate.Proofs.HuffCalcTBase
namespace Preflate.HuffCalcT

inductive Tree where
  | leaf (sym : Nat)
  | node (l r : Tree)

namespace Tree

def height : Tree → Nat
  | leaf _ => 0
  | node l r => max l.height r.height + 1

def leaves : Tree → List Nat
  | leaf s => [s]
  | node l r => l.leaves ++ r.leaves

/-- what `count_recursive` does to `node_bit_len` -/
def write : Tree → Nat → Array Nat → Array Nat
  | leaf s, d, lens => lens.setIfInBounds s d
  | node l r, d, lens => r.write (d + 1) (l.write (d + 1) lens)

/-- sum of `f depth` over the leaves -/
def dsum (f : Nat → Nat) : Tree → Nat → Nat
  | leaf _, d => f d
  | node l r, d => l.dsum f (d + 1) + r.dsum f (d + 1)

@[simp] theorem size_write (t : Tree) (d : Nat) (lens : Array Nat) :
    (t.write d lens).size = lens.size := by
  induction t generalizing d lens with
  | leaf s => simp [write]
  | node l r ihl ihr => simp [write, ihl, ihr]

theorem write_not_mem (t : Tree) (d : Nat) (lens : Array Nat) (s : Nat) (hs : s ∉ t.leaves) :
    (t.write d lens)[s]? = lens[s]? := by
  induction t generalizing d lens with
  | leaf s' =>
    simp [leaves] at hs
    simp [write, Array.getElem?_setIfInBounds]
    intro h; omega
  | node l r ihl ihr =>
    simp [leaves] at hs
    simp [write, ihl _ _ hs.1, ihr _ _ hs.2]

/-- every entry after `write` is an old entry or a depth between `d` and `d + height` -/
theorem write_entry (t : Tree) (d : Nat) (lens : Array Nat) (i : Nat) (v : Nat)
    (h : (t.write d lens)[i]? = some v) : lens[i]? = some v ∨ (d ≤ v ∧ v ≤ d + t.height) := by
  induction t generalizing d lens v with
  | leaf s =>
    simp only [write, Array.getElem?_setIfInBounds] at h
    split at h
    · split at h
      · right; simp at h; simp [height]; omega
      · cases h
    · left; exact h
  | node l r ihl ihr =>
    simp only [write] at h
    rcases ihr _ _ _ h with h1 | h1
    · rcases ihl _ _ _ h1 with h2 | h2
      · left; exact h2
      · right; simp only [height]; omega
    · right; simp only [height]; omega

end Tree

/-- `NT nodes x t`: the node `x` (an element of the heap or of `nodes`) is the root of the abstract
tree `t`, all of whose inner nodes have their children stored in `nodes`. -/
inductive NT (nodes : Array Node) : Node → Tree → Prop
  | leaf {x : Node} {s : Nat} : x.leaf = some s → x.depth = 0 → NT nodes x (.leaf s)
  | node {x xl xr : Node} {tl tr : Tree} : x.leaf = none →
      nodes[x.left]? = some xl → nodes[x.right]? = some xr →
      NT nodes xl tl → NT nodes xr tr → x.depth = max xl.depth xr.depth + 1 →
      NT nodes x (.node tl tr)

theorem NT.push {nodes : Array Node} {x : Node} {t : Tree} (h : NT nodes x t) (y : Node) :
    NT (nodes.push y) x t := by
  induction h with
  | leaf h1 h2 => exact .leaf h1 h2
  | node h1 h2 h3 _ _ h6 ihl ihr =>
    refine .node h1 ?_ ?_ ihl ihr h6
    · rw [Array.getElem?_push]
      have : _ < nodes.size := (Array.getElem?_eq_some_iff.mp h2).1
      rw [if_neg (by omega)]; exact h2
    · rw [Array.getElem?_push]
      have : _ < nodes.size := (Array.getElem?_eq_some_iff.mp h3).1
      rw [if_neg (by omega)]; exact h3

theorem NT.height {nodes : Array Node} {x : Node} {t : Tree} (h : NT nodes x t) :
    t.height = x.depth := by
  induction h with
  | leaf h1 h2 => simp [Tree.height, h2]
  | node h1 h2 h3 _ _ h6 ihl ihr => simp [Tree.height, ihl, ihr, h6]

theorem NT.unique {nodes : Array Node} {x : Node} {t t' : Tree} (h : NT nodes x t)
    (h' : NT nodes x t') : t = t' := by
  induction h generalizing t' with
  | leaf h1 h2 =>
    cases h' with
    | leaf g1 g2 => rw [h1] at g1; cases g1; rfl
    | node g1 => rw [h1] at g1; cases g1
  | node h1 h2 h3 _ _ h6 ihl ihr =>
    cases h' with
    | leaf g1 g2 => rw [h1] at g1; cases g1
    | node g1 g2 g3 g4 g5 g6 =>
      rw [h2] at g2; cases g2
      rw [h3] at g3; cases g3
      rw [ihl g4, ihr g5]

/-- all leaf symbols of the tree occur as leaf entries of the array (or `x` itself is a leaf) -/
theorem NT.leaves_flat {nodes : Array Node} {x : Node} {t : Tree} (h : NT nodes x t) :
    ∀ s ∈ t.leaves, x.leaf = some s ∨ s ∈ nodes.toList.filterMap (·.leaf) := by
  induction h with
  | leaf h1 h2 => intro s hs; simp [Tree.leaves] at hs; left; rw [hs]; exact h1
  | @node x xl xr tl tr h1 h2 h3 _ _ h6 ihl ihr =>
    intro s hs
    simp only [Tree.leaves, List.mem_append] at hs
    right
    have memOf : ∀ (i : Nat) (y : Node), nodes[i]? = some y → y ∈ nodes.toList := by
      intro i y hy
      have := Array.getElem?_eq_some_iff.mp hy
      obtain ⟨hi, hy⟩ := this
      rw [← hy]; simp
    rcases hs with hs | hs
    · rcases ihl s hs with h | h
      · exact List.mem_filterMap.mpr ⟨xl, memOf _ _ h2, h⟩
      · exact h
    · rcases ihr s hs with h | h
      · exact List.mem_filterMap.mpr ⟨xr, memOf _ _ h3, h⟩
      · exact h

/-- `count_recursive` on a well-formed tree: no panic as long as the depth stays within `u8`,
no fuel problem as long as the budget exceeds the height. -/
theorem countRec_spec {nodes : Array Node} {x : Node} {t : Tree} (h : NT nodes x t) :
    ∀ (fuel idx d : Nat) (lens : Array Nat), nodes[idx]? = some x → d + t.height ≤ 255 →
      t.height < fuel → (∀ s ∈ t.leaves, s < lens.size) →
      countRec nodes fuel idx lens d = .ok (t.write d lens) := by
  induction h with
  | @leaf x s h1 h2 =>
    intro fuel idx d lens hidx hd hf hl
    obtain ⟨fuel, rfl⟩ : ∃ f, fuel = f + 1 := ⟨fuel - 1, by omega⟩
    have hs : s < lens.size := hl s (by simp [Tree.leaves])
    simp [countRec, aget_of_getElem? _ hidx, h1, Tree.write, aset_ok _ _ hs]
  | @node x xl xr tl tr h1 h2 h3 _ _ h6 ihl ihr =>
    intro fuel idx d lens hidx hd hf hl
    obtain ⟨fuel, rfl⟩ : ∃ f, fuel = f + 1 := ⟨fuel - 1, by omega⟩
    simp only [Tree.height] at hd hf
    simp only [Tree.leaves, List.mem_append] at hl
    have e1 := ihl fuel x.left (d + 1) lens h2 (by omega) (by omega) (fun s hs => hl s (Or.inl hs))
    have e2 := ihr fuel x.right (d + 1) (tl.write (d + 1) lens) h3 (by omega) (by omega)
      (fun s hs => by simpa using hl s (Or.inr hs))
    have hd' : ¬ (d + 1 > 255) := by omega
    simp [countRec, aget_of_getElem? _ hidx, h1, hd', e1, e2, Tree.write]

/-! ### sums over the written array -/

/-- `Σ f l` over a list -/
def wsum (f : Nat → Nat) (L : List Nat) : Nat := (L.map f).sum

theorem wsum_set (f : Nat → Nat) (L : List Nat) (i v : Nat) (hi : i < L.length) :
    wsum f (L.set i v) + f L[i] = wsum f L + f v := by
  induction L generalizing i with
  | nil => simp at hi
  | cons a L ih =>
    cases i with
    | zero => simp [wsum]; omega
    | succ i =>
      simp only [List.length_cons, Nat.add_lt_add_iff_right] at hi
      have := ih i hi
      simp only [wsum, List.set_cons_succ, List.map_cons, List.sum_cons, List.getElem_cons_succ] at this ⊢
      omega

theorem wsum_write (f : Nat → Nat) (hf : f 0 = 0) (t : Tree) (d : Nat) (lens : Array Nat)
    (hnd : t.leaves.Nodup) (hl : ∀ s ∈ t.leaves, s < lens.size ∧ lens[s]? = some 0) :
    wsum f (t.write d lens).toList = wsum f lens.toList + t.dsum f d := by
  induction t generalizing d lens with
  | leaf s =>
    obtain ⟨hs, hz⟩ := hl s (by simp [Tree.leaves])
    have := wsum_set f lens.toList s d (by simpa using hs)
    have hz' : lens.toList[s]'(by simpa using hs) = 0 := by
      have := Array.getElem?_eq_some_iff.mp hz
      obtain ⟨_, h⟩ := this
      simpa using h
    rw [hz', hf] at this
    simp only [Tree.write, Array.toList_setIfInBounds, Tree.dsum]
    omega
  | node l r ihl ihr =>
    simp only [Tree.leaves] at hnd hl
    have hnd' := List.nodup_append.mp hnd
    have e1 := ihl (d + 1) lens hnd'.1 (fun s hs => hl s (List.mem_append_left _ hs))
    have e2 := ihr (d + 1) (l.write (d + 1) lens) hnd'.2.1 (fun s hs => by
      have hsl : s ∉ l.leaves := fun hsl => hnd'.2.2 s hsl s hs rfl
      have := hl s (List.mem_append_right _ hs)
      rw [Tree.write_not_mem _ _ _ _ hsl]
      simpa using this)
    simp only [Tree.write, Tree.dsum, e2, e1]
    omega

/-- Kraft: the leaves at relative depth sum to the weight of the root -/
theorem dsum_kraft (t : Tree) (d : Nat) (hd : 1 ≤ d) (hh : d + t.height ≤ 255) :
    t.dsum (fun l => if l = 0 then 0 else 2 ^ (255 - l)) d = 2 ^ (255 - d) := by
  induction t generalizing d with
  | leaf s => simp [Tree.dsum]; omega
  | node l r ihl ihr =>
    simp only [Tree.height] at hh
    simp only [Tree.dsum]
    rw [ihl (d + 1) (by omega) (by omega), ihr (d + 1) (by omega) (by omega)]
    have : 255 - d = (255 - (d + 1)) + 1 := by omega
    rw [this, Nat.pow_succ]; omega

theorem dsum_count (t : Tree) (d : Nat) (hd : 1 ≤ d) :
    t.dsum (fun l => if 0 < l then 1 else 0) d = t.leaves.length := by
  induction t generalizing d with
  | leaf s => simp [Tree.dsum, Tree.leaves]; omega
  | node l r ihl ihr =>
    simp only [Tree.dsum, Tree.leaves, List.length_append]
    rw [ihl (d + 1) (by omega), ihr (d + 1) (by omega)]

theorem wsum_count (L : List Nat) :
    wsum (fun l => if 0 < l then 1 else 0) L = (L.filter (fun l => decide (0 < l))).length := by
  induction L with
  | nil => simp [wsum]
  | cons a L ih =>
    simp only [wsum, List.map_cons, List.sum_cons] at ih ⊢
    by_cases h : 0 < a <;> simp [h, ih] <;> omega

theorem wsum_replicate_zero (f : Nat → Nat) (hf : f 0 = 0) (n : Nat) :
    wsum f (List.replicate n 0) = 0 := by
  induction n with
  | zero => simp [wsum]
  | succ n ih => simp only [wsum, List.replicate_succ, List.map_cons, List.sum_cons] at ih ⊢; omega

end Preflate.HuffCalcT
