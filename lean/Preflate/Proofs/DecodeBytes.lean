/-
BYTE-LEVEL END TO END: `recompress_deflate_stream(plain_text, prediction_corrections: &[u8])` as it
really runs (Model/DecodeBytes.lean: the reconstruction code pulls its values out of a
`PredictionDecoderCabac` over a `VP8Reader`, on demand) returns exactly the bytes the parser consumed,
for whatever `decompress_deflate_stream` returned.

Layers (each its own file):
  (a) Proofs/DecodeBytesList.lean — the generic reconstruction functions at the list source ARE the
      existing list-consuming definitions (`decStreamS listSrc = decStream`, …);
  (c) Proofs/DecodeBytesSim.lean  — simulation, generic in two sources related by a relation the pops
      respect, for every generic function up to `decStreamS` and `readParamsS`;
  (b) Proofs/DecodeBytesRel.lean  — the relation `RelB` between a list of well-formed operations and a
      byte-decoder state, built from the step-wise invariants of the VP8 proof (`WInv`, `DInv`, `Final`,
      `get_spec`, `getBypass_spec`) and the per-operation decision lists of `encodeOps`; the three pops
      respect it (`srcSim_list_byte`); a fresh decoder over the encoder's bytes satisfies it
      (`relB_init`); codec-level corollary `decodeOpsBytes_rel`.
This file: the transfer theorem `recompressBytes_of_ops` and the main theorems.
-/
import Preflate.Proofs.DecodeBytesList
import Preflate.Proofs.DecodeBytesSim
import Preflate.Proofs.DecodeBytesRel
import Preflate.Proofs.EstimateRange
namespace Preflate.Proofs
open Preflate
set_option linter.unusedVariables false
set_option linter.unusedSimpArgs false

variable {H : Type}

/-- the parser's block loop returns at most `fuel` blocks -/
theorem readBlocks_length : ∀ (fuel : Nat) (plain : Array Nat) (bs : Bits)
    (r : List Block × Array Nat × Bits), readBlocks fuel plain bs = .ok r → r.1.length ≤ fuel := by
  intro fuel
  induction fuel with
  | zero => intro plain bs r h; cases h
  | succ n ih =>
    intro plain bs r h
    simp only [readBlocks] at h
    cases h1 : readBlock plain bs with
    | error e => rw [h1] at h; cases h
    | ok x =>
      obtain ⟨last, b, plain1, bs1⟩ := x
      rw [h1] at h
      simp only [bind, Except.bind] at h
      cases last with
      | true =>
        simp only [if_true] at h
        cases h
        simp
      | false =>
        simp only [Bool.false_eq_true, if_false] at h
        cases h2 : readBlocks n plain1 bs1 with
        | error e => rw [h2] at h; cases h
        | ok y =>
          obtain ⟨r', plain2, bs2⟩ := y
          rw [h2] at h
          cases h
          have := ih _ _ _ h2
          simp only [List.length_cons] at this ⊢
          omega

/-- a stream of fewer than 2^61 bytes has fewer than 2^64 blocks -/
theorem parse_blocks_length (d : List UInt8) (hd : d.length < 2 ^ 61) (p : Parsed)
    (hp : parse d = .ok p) : p.blocks.length ≤ 2 ^ 64 := by
  have hl := length_bytesToBits d
  unfold parse parseBits at hp
  cases h1 : readBlocks ((bytesToBits d).length + 1) #[] (bytesToBits d) with
  | error e => rw [h1] at hp; cases hp
  | ok x =>
    obtain ⟨blocks, plain, bs⟩ := x
    rw [h1] at hp
    simp only [bind, Except.bind] at hp
    have hlen := readBlocks_length _ _ _ _ h1
    cases h2 : readBits (bs.length % 8) bs with
    | error e => rw [h2] at hp; cases hp
    | ok y =>
      rw [h2] at hp
      cases hp
      simp only at hlen ⊢
      omega

/-- TRANSFER: if the list-level reconstruction of well-formed operations reads the parameters `rp`
    and the blocks `blocks` (fewer than 2^32) with padding `pad`, then the byte-level, demand-driven
    reconstruction over the encoded bytes reads the same parameters, blocks and padding. -/
theorem bytes_of_ops (mk : Params → Pred H) (plain : Array Nat) (ops : List Op)
    (hwf : ∀ o ∈ ops, o.WF) (bytes : Array UInt8) (he : encodeBytes ops = .ok bytes)
    (rp : Params) (rest : List Op) (h1 : readParams ops = .ok (rp, rest))
    (blocks : List Block) (pad : Nat) (rest' : List Op)
    (h2 : decStream (mk rp) plain rest = .ok (blocks, pad, rest')) (hlen : blocks.length ≤ 2 ^ 64) :
    ∃ st st', readParamsS byteSrc (BSt.init bytes) = .ok (rp, st) ∧
      decStreamS byteSrc (mk rp) plain st = .ok (blocks, pad, st') ∧ RelB bytes rest' st' := by
  have hS := srcSim_list_byte bytes
  have h0 := relB_init ops hwf bytes he
  rw [← readParamsS_list] at h1
  obtain ⟨y, hy, hq⟩ := readParamsS_sim hS ops (BSt.init bytes) h0 _ h1
  obtain ⟨rp', st⟩ := y
  obtain ⟨hrp, hr⟩ := hq
  dsimp only at hrp hr
  subst hrp
  rw [← decStreamS_list] at h2
  obtain ⟨st', hy2, hr2⟩ := decStreamS_sim hS (mk rp) plain rest st hr blocks pad rest' h2
    (fun _ => hlen)
  exact ⟨st, st', hy, hy2, hr2⟩

/-- `recompressBytes` on the encoded bytes = `recompressStream` on the operations, whenever the
    latter succeeds (well-formed operations, fewer than 2^32 blocks) -/
theorem recompressBytes_of_ops (mk : Params → Pred H) (plain : Array Nat) (ops : List Op)
    (hwf : ∀ o ∈ ops, o.WF) (bytes : Array UInt8) (he : encodeBytes ops = .ok bytes)
    (rp : Params) (rest : List Op) (h1 : readParams ops = .ok (rp, rest))
    (blocks : List Block) (pad : Nat) (rest' : List Op)
    (h2 : decStream (mk rp) plain rest = .ok (blocks, pad, rest')) (hlen : blocks.length ≤ 2 ^ 64) :
    recompressBytes mk plain bytes = writeStream blocks pad ∧
    recompressStream mk plain ops = writeStream blocks pad := by
  obtain ⟨st, st', e1, e2, _⟩ := bytes_of_ops mk plain ops hwf bytes he rp rest h1 blocks pad rest' h2 hlen
  constructor
  · show recompressBytesWithin (2 ^ 64) mk plain bytes = _
    unfold recompressBytesWithin
    show (do
      let (rp, st) ← readParamsS byteSrc (BSt.init bytes)
      let (blocks, pad, _) ← decStreamS byteSrc (mk rp) plain st
      writeStream blocks pad) = _
    simp only [e1, e2, bind, Except.bind]
  · simp only [recompressStream, h1, h2, bind, Except.bind]

/-- the byte-level verify block computes what the operation-level verify block computes -/
theorem verifyBytes_of_ops (mk : Params → Pred H) (params : Params) (plain : Array Nat) (ops : List Op)
    (hwf : ∀ o ∈ ops, o.WF) (bytes : Array UInt8) (he : encodeBytes ops = .ok bytes)
    (rp : Params) (rest : List Op) (h1 : readParams ops = .ok (rp, rest))
    (blocks : List Block) (pad : Nat) (rest' : List Op)
    (h2 : decStream (mk rp) plain rest = .ok (blocks, pad, rest')) (hlen : blocks.length ≤ 2 ^ 64)
    (expected : List UInt8) :
    verifyBytes mk params plain bytes expected = verifyStream mk params plain ops expected := by
  obtain ⟨st, st', e1, e2, _⟩ := bytes_of_ops mk plain ops hwf bytes he rp rest h1 blocks pad rest' h2 hlen
  simp only [verifyBytes, verifyStream, e1, h1, bind, Except.bind]
  split
  · rfl
  · simp only [e2, h2]

/-- everything a successful analysis provides, in one place -/
theorem analysis_facts (est : Array Nat → List Block → R Params) (mk : Params → Pred H)
    (hb : ∀ q, PredBounded (mk q)) (d : List UInt8) (hd : d.length < 2 ^ 61)
    (hest : ∀ p, parse d = .ok p → ∀ q, est p.plain p.blocks = .ok q → EstimatorRange q)
    (r : StreamResult) (h : decompressStream est mk false d = .ok r) :
    (∀ o ∈ r.corr, o.WF) ∧ ∃ rest blocks pad,
      readParams r.corr = .ok (r.params, rest) ∧
      decStream (mk r.params) r.plain rest = .ok (blocks, pad, []) ∧ blocks.length ≤ 2 ^ 64 ∧
      writeStream blocks pad = .ok (d.take r.size) := by
  obtain ⟨p, params, hdr, body, h1, h2, h3, h4, rfl⟩ := decompressStream_ok h
  have hl := length_bytesToBits d
  obtain ⟨hv, hpad⟩ := parse_valid_unbounded (bytesToBits d) p h1
  obtain ⟨ops, e1, e2, hwf1⟩ := readParams_writeParams params
    (estimatorRange_wf params (hest p h1 _ h2)) body
  rw [h3] at e1
  simp only [Except.ok.injEq] at e1
  subst e1
  have hwf2 := encStream_ops_wf' (mk params) (hb params) p.plain p.blocks p.eofPadding hv hpad
    (parse_tokenCountsSmall d p h1) body h4
  have hwf : ∀ o ∈ hdr ++ body, o.WF := by
    intro o ho
    rcases List.mem_append.mp ho with ho | ho
    · exact hwf1 o ho
    · exact hwf2 o ho
  have hdec := decStream_encStream (mk params) p.plain p.blocks p.eofPadding hv hpad body h4 []
  rw [List.append_nil] at hdec
  exact ⟨hwf, body, p.blocks, p.eofPadding, e2, hdec, parse_blocks_length d hd p h1, (write_parse d p h1).1⟩

/-- decomposition of a successful `decompressBytes` -/
theorem decompressBytes_ok {est : Array Nat → List Block → R Params} {mk : Params → Pred H}
    {verify : Bool} {d : List UInt8} {plain : Array Nat} {bytes : Array UInt8} {n : Nat} {q : Params}
    (h : decompressBytes est mk verify d = .ok (plain, bytes, n, q)) :
    ∃ r, decompressStream est mk false d = .ok r ∧ encodeBytes r.corr = .ok bytes ∧
      r.plain = plain ∧ r.size = n ∧ r.params = q ∧
      (verify = true → verifyBytes mk r.params r.plain bytes (d.take r.size) = .ok ()) := by
  unfold decompressBytes at h
  cases h1 : decompressStream est mk false d with
  | error e => rw [h1] at h; cases h
  | ok r =>
    rw [h1] at h
    simp only [bind, Except.bind] at h
    cases h2 : encodeBytes r.corr with
    | error e => rw [h2] at h; cases h
    | ok bytes' =>
      rw [h2] at h
      simp only at h
      cases verify with
      | false =>
        simp only [Bool.false_eq_true, if_false, Except.ok.injEq, Prod.mk.injEq] at h
        obtain ⟨rfl, rfl, rfl, rfl⟩ := h
        exact ⟨r, rfl, h2, rfl, rfl, rfl, fun hv => by cases hv⟩
      | true =>
        simp only [if_true] at h
        cases h3 : verifyBytes mk r.params r.plain bytes' (List.take r.size d) with
        | error e => rw [h3] at h; cases h
        | ok u =>
          rw [h3] at h
          simp only [Except.ok.injEq, Prod.mk.injEq] at h
          obtain ⟨rfl, rfl, rfl, rfl⟩ := h
          exact ⟨r, rfl, h2, rfl, rfl, rfl, fun _ => h3⟩

/-- **MAIN THEOREM.** For any estimator (in range on the parser's output for this input) and any
    bounded predictor family: whenever the model of `decompress_deflate_stream(D, verify)` returns
    Ok(plain_text, prediction_corrections, compressed_size, parameters) — either verify setting, input
    below 512 MiB, plaintext below 2 GiB - 1 — the model of
    `recompress_deflate_stream(plain_text, prediction_corrections)`, which pulls every value out of the
    VP8 reader over the correction BYTES as the reconstruction asks for it, returns exactly
    D[..compressed_size]. -/
theorem recompressBytes_decompressBytes (est : Array Nat → List Block → R Params) (mk : Params → Pred H)
    (hb : ∀ q, PredBounded (mk q)) (verify : Bool) (d : List UInt8)
    (hest : ∀ p, parse d = .ok p → ∀ q, est p.plain p.blocks = .ok q → EstimatorRange q)
    (plain : Array Nat) (bytes : Array UInt8) (n : Nat) (q : Params)
    (h : decompressBytes est mk verify d = .ok (plain, bytes, n, q))
    (hd : d.length < 2 ^ 61) :
    recompressBytes mk plain bytes = .ok (d.take n) := by
  obtain ⟨r, h1, h2, rfl, rfl, rfl, _⟩ := decompressBytes_ok h
  obtain ⟨hwf, rest, blocks, pad, e1, e2, e3, e4⟩ := analysis_facts est mk hb d hd hest r h1
  rw [(recompressBytes_of_ops mk r.plain r.corr hwf bytes h2 r.params rest e1 blocks pad [] e2 e3).1]
  exact e4

/-- the byte-level verify block passes whenever the analysis succeeded: both verify settings of
    `decompressBytes` return the same result -/
theorem decompressBytes_verify_same (est : Array Nat → List Block → R Params) (mk : Params → Pred H)
    (hb : ∀ q, PredBounded (mk q)) (d : List UInt8) (hd : d.length < 2 ^ 61)
    (hest : ∀ p, parse d = .ok p → ∀ q, est p.plain p.blocks = .ok q → EstimatorRange q)
    (plain : Array Nat) (bytes : Array UInt8) (n : Nat) (q : Params) :
    decompressBytes est mk true d = .ok (plain, bytes, n, q) ↔
    decompressBytes est mk false d = .ok (plain, bytes, n, q) := by
  constructor
  · intro h
    obtain ⟨r, h1, h2, rfl, rfl, rfl, _⟩ := decompressBytes_ok h
    simp only [decompressBytes, h1, h2, bind, Except.bind, Bool.false_eq_true, if_false]
  · intro h
    obtain ⟨r, h1, h2, rfl, rfl, rfl, _⟩ := decompressBytes_ok h
    obtain ⟨hwf, rest, blocks, pad, e1, e2, e3, e4⟩ := analysis_facts est mk hb d hd hest r h1
    have hv := verifyBytes_of_ops mk r.params r.plain r.corr hwf bytes h2 r.params rest e1 blocks pad [] e2 e3
      (d.take r.size)
    have hvs : verifyStream mk r.params r.plain r.corr (d.take r.size) = .ok () := by
      simp only [verifyStream, e1, e2, e4, bind, Except.bind, ne_eq, not_true_eq_false, if_false]
    simp only [decompressBytes, h1, h2, bind, Except.bind, if_true, hv, hvs]

/-- `decompressBytes` (verification from the BYTES) = `decompressStream` (verification from the
    operations) followed by `encodeBytes`, with the same verify setting -/
theorem decompressBytes_iff_stream (est : Array Nat → List Block → R Params) (mk : Params → Pred H)
    (hb : ∀ q, PredBounded (mk q)) (verify : Bool) (d : List UInt8) (hd : d.length < 2 ^ 61)
    (hest : ∀ p, parse d = .ok p → ∀ q, est p.plain p.blocks = .ok q → EstimatorRange q)
    (plain : Array Nat) (bytes : Array UInt8) (n : Nat) (q : Params) :
    decompressBytes est mk verify d = .ok (plain, bytes, n, q) ↔
    ∃ r, decompressStream est mk verify d = .ok r ∧ encodeBytes r.corr = .ok bytes ∧
      r.plain = plain ∧ r.size = n ∧ r.params = q := by
  have hvs : decompressStream est mk verify d = decompressStream est mk false d := by
    cases verify
    · rfl
    · exact verify_same' est mk d hest
  rw [hvs]
  constructor
  · intro h
    obtain ⟨r, h1, h2, e1, e2, e3, _⟩ := decompressBytes_ok h
    exact ⟨r, h1, h2, e1, e2, e3⟩
  · rintro ⟨r, h1, h2, rfl, rfl, rfl⟩
    have hf : decompressBytes est mk false d = .ok (r.plain, bytes, r.size, r.params) := by
      simp only [decompressBytes, h1, h2, bind, Except.bind, Bool.false_eq_true, if_false]
    cases verify
    · exact hf
    · exact (decompressBytes_verify_same est mk hb d hd hest _ _ _ _).2 hf

/-- layer (b), codec level, at the API of `encodeBytes`: the byte-driven decoder, asked for the kinds of
    a well-formed operation list over the bytes that list encodes to, returns the list -/
theorem decodeOpsBytes_encodeBytes (ops : List Op) (hwf : ∀ o ∈ ops, o.WF) (bytes : Array UInt8)
    (he : encodeBytes ops = .ok bytes) :
    ∃ s', decodeOpsBytes (ops.map Op.kind) (BSt.init bytes) = .ok (ops, s') ∧ s'.dc = 0 := by
  obtain ⟨s', e1, e2⟩ := decodeOpsBytes_rel bytes ops _ (relB_init ops hwf bytes he)
  exact ⟨s', e1, e2.2.1⟩

/-! ### a smaller bound on the block loop (what the driver runs) -/

theorem decTokS_within (n m : Nat) (P : Pred H) (plain : Array Nat) (s : PState H) (a : BSt) :
    decTokS (byteSrcWithin n) P plain s a = decTokS (byteSrcWithin m) P plain s a := rfl

theorem decToksS_within (n m : Nat) (P : Pred H) (plain : Array Nat) (bs : Nat) :
    ∀ (fuel : Nat) (s : PState H) (a : BSt),
      decToksS (byteSrcWithin n) P plain bs fuel s a = decToksS (byteSrcWithin m) P plain bs fuel s a := by
  intro fuel
  induction fuel with
  | zero => intro s a; rfl
  | succ k ih => intro s a; simp only [decToksS, decTokS_within n m, ih]

theorem decLdTreesS_within (n m : Nat) : ∀ (fuel : Nat) (syms : List Nat) (prev : Option Nat) (a : BSt),
    decLdTreesS (byteSrcWithin n) fuel syms prev a = decLdTreesS (byteSrcWithin m) fuel syms prev a := by
  intro fuel
  induction fuel with
  | zero => intro syms prev a; rfl
  | succ k ih => intro syms prev a; simp only [decLdTreesS, ih]; rfl

theorem decTcLengthsS_within (n m : Nat) (tc : List Nat) : ∀ (k i : Nat) (acc : List Nat) (a : BSt),
    decTcLengthsS (byteSrcWithin n) tc k i acc a = decTcLengthsS (byteSrcWithin m) tc k i acc a := by
  intro k
  induction k with
  | zero => intro i acc a; rfl
  | succ k ih => intro i acc a; simp only [decTcLengthsS, ih]; rfl

theorem decTreeS_within (n m : Nat) (P : Pred H) (freq : List Nat × List Nat) (a : BSt) :
    decTreeS (byteSrcWithin n) P freq a = decTreeS (byteSrcWithin m) P freq a := by
  simp only [decTreeS, decLdTreesS_within n m, decTcLengthsS_within n m]; rfl

theorem decBlockS_within (n m : Nat) (P : Pred H) (plain : Array Nat) (s : PState H) (a : BSt) :
    decBlockS (byteSrcWithin n) P plain s a = decBlockS (byteSrcWithin m) P plain s a := by
  simp only [decBlockS, decToksS_within n m, decTreeS_within n m]; rfl

theorem decIsEofS_within (n m : Nat) (plain : Array Nat) (s : PState H) (a : BSt) :
    decIsEofS (byteSrcWithin n) plain s a = decIsEofS (byteSrcWithin m) plain s a := rfl

theorem decBlocksS_within (n m : Nat) (P : Pred H) (plain : Array Nat) :
    ∀ (fuel : Nat) (s : PState H) (a : BSt),
      decBlocksS (byteSrcWithin n) P plain fuel s a = decBlocksS (byteSrcWithin m) P plain fuel s a := by
  intro fuel
  induction fuel with
  | zero => intro s a; rfl
  | succ k ih => intro s a; simp only [decBlocksS, decBlockS_within n m, decIsEofS_within n m, ih]

theorem readParamsS_within (n m : Nat) (a : BSt) :
    readParamsS (byteSrcWithin n) a = readParamsS (byteSrcWithin m) a := rfl

/-- a larger bound on the block loop never changes an outcome other than "out of fuel" -/
theorem decStreamS_within (n m : Nat) (hnm : n ≤ m) (P : Pred H) (plain : Array Nat) (a : BSt)
    (h : decStreamS (byteSrcWithin n) P plain a ≠ .error .fuel) :
    decStreamS (byteSrcWithin m) P plain a = decStreamS (byteSrcWithin n) P plain a := by
  simp only [decStreamS] at h ⊢
  rw [decIsEofS_within m n]
  cases h1 : decIsEofS (byteSrcWithin n) plain (⟨P.init, none, 0, 0⟩ : PState H) a with
  | error e => rfl
  | ok x =>
    obtain ⟨isEof, a1⟩ := x
    rw [h1] at h
    simp only [bind, Except.bind] at h ⊢
    cases isEof with
    | true => rfl
    | false =>
      simp only [Bool.false_eq_true, if_false] at h ⊢
      have e1 : (byteSrcWithin m).blockFuel a1 = m := rfl
      have e2 : (byteSrcWithin n).blockFuel a1 = n := rfl
      rw [e2] at h
      have hne : decBlocksS (byteSrcWithin n) P plain n (⟨P.init, none, 0, 0⟩ : PState H) a1 ≠ .error .fuel := by
        intro he; rw [he] at h; exact h rfl
      rw [e1, e2, decBlocksS_within m n, decBlocksS_mono (byteSrcWithin n) P plain n m _ a1 hnm hne]
      rfl

/-- the budgeted run the driver executes IS `recompressBytes` whenever it answers (Ok, Err or panic —
    anything but "out of fuel") -/
theorem recompressBytesWithin_eq (n : Nat) (hn : n ≤ 2 ^ 64) (mk : Params → Pred H) (plain : Array Nat)
    (bytes : Array UInt8) (h : recompressBytesWithin n mk plain bytes ≠ .error .fuel) :
    recompressBytes mk plain bytes = recompressBytesWithin n mk plain bytes := by
  unfold recompressBytes
  unfold recompressBytesWithin at h ⊢
  rw [readParamsS_within (2 ^ 64) n]
  cases h1 : readParamsS (byteSrcWithin n) (BSt.init bytes) with
  | error e => rfl
  | ok x =>
    obtain ⟨rp, st⟩ := x
    rw [h1] at h
    simp only [bind, Except.bind] at h ⊢
    have hne : decStreamS (byteSrcWithin n) (mk rp) plain st ≠ .error .fuel := by
      intro he; rw [he] at h; exact h rfl
    rw [decStreamS_within n (2 ^ 64) hn (mk rp) plain st hne]

/-- CONCRETE: the modelled estimator `Est.estimate` and the executable predictor family `Chains.pred`;
    no hypothesis left on either -/
theorem public_bytes_exact (verify : Bool) (d : List UInt8)
    (plain : Array Nat) (bytes : Array UInt8) (n : Nat) (q : Params)
    (h : decompressBytes Est.estimate Chains.pred verify d = .ok (plain, bytes, n, q))
    (hd : d.length < 2 ^ 61) :
    recompressBytes Chains.pred plain bytes = .ok (d.take n) :=
  recompressBytes_decompressBytes Est.estimate Chains.pred chains_pred_bounded verify d
    (estimate_in_range_parsed d) plain bytes n q h hd

/-- CONCRETE: both verify settings of the byte-level public function return the same result -/
theorem public_bytes_verify_same (d : List UInt8) (hd : d.length < 2 ^ 61)
    (plain : Array Nat) (bytes : Array UInt8) (n : Nat) (q : Params) :
    decompressBytes Est.estimate Chains.pred true d = .ok (plain, bytes, n, q) ↔
    decompressBytes Est.estimate Chains.pred false d = .ok (plain, bytes, n, q) :=
  decompressBytes_verify_same Est.estimate Chains.pred chains_pred_bounded d hd
    (estimate_in_range_parsed d) plain bytes n q

end Preflate.Proofs
