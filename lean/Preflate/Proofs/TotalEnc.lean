/-
C05: producing corrections for a valid stream has no panic path (whatever the predictor answers).
-/
import Preflate.Proofs.Total
import Preflate.Proofs.Predict
namespace Preflate.Proofs
open Preflate

variable {H : Type}

/-- the failure is not a panic -/
def NP (e : Fail) : Prop := ∀ m, e ≠ .panic m

theorem NP.err : NP .err := fun _ h => by cases h

theorem Post.npErr {α : Type} {Q : α → Prop} : Post NP Q (.error .err : R α) := .error _ NP.err

-- ---------------------------------------------------------------------------------------------
-- tokens

theorem hopsWalk_np (plain : Array Nat) (pos maxDist len target : Nat) :
    ∀ (cands : List Nat) (hops maxChain : Nat),
      Post NP (fun _ => True) (hopsWalk plain pos maxDist len target cands hops maxChain) := by
  intro cands
  induction cands with
  | nil => intro hops maxChain; exact Post.npErr
  | cons d rest ih =>
    intro hops maxChain
    rw [hopsWalk]
    split
    · exact Post.npErr
    · simp only
      split
      · split
        · exact .ok _ trivial
        · exact Post.npErr
      · split
        · exact Post.npErr
        · exact ih _ _

theorem calcHops_np (P : Pred H) (plain : Array Nat) (s : PState H) (len dist : Nat) :
    Post NP (fun _ => True) (calcHops P plain s len dist) := by
  unfold calcHops
  split
  · exact Post.npErr
  · exact hopsWalk_np _ _ _ _ _ _ _ _

theorem encRefTail_np (P : Pred H) (plain : Array Nat) (ops0 : List Op) (plen pdist : Nat) (s2 : PState H)
    (len dist : Nat) (irr : Bool) :
    Post NP (fun _ => True) (encRefTail P plain ops0 plen pdist s2 len dist irr) := by
  unfold encRefTail
  simp only
  split
  · refine Post.bind (calcHops_np P plain s2 len dist) (fun _ h => h) ?_
    intro _ _
    exact .ok _ trivial
  · split
    · refine Post.bind (calcHops_np P plain s2 len dist) (fun _ h => h) ?_
      intro _ _
      exact .ok _ trivial
    · exact .ok _ trivial

theorem repredict_np (P : Pred H) (plain : Array Nat)
    (hP : ∀ s m, P.repredictTok plain s ≠ .error (.panic m)) (s : PState H) :
    Post NP (fun _ => True) (P.repredictTok plain s) := by
  cases h : P.repredictTok plain s with
  | ok a => exact .ok _ trivial
  | error e => exact .error _ (fun m hm => hP s m (by rw [h, hm]))

theorem encTok_np (P : Pred H) (plain : Array Nat)
    (hP : ∀ s m, P.repredictTok plain s ≠ .error (.panic m)) (s : PState H) (t : Token) :
    Post NP (fun _ => True) (encTok P plain s t) := by
  unfold encTok
  rcases hp : P.predictTok plain s with ⟨pt, pend⟩
  simp only
  cases t with
  | lit b => exact .ok _ trivial
  | ref len dist irr =>
    simp only
    refine Post.bind (Q := fun _ => True) ?_ (fun _ h => h) ?_
    · cases pt with
      | lit =>
        refine Post.bind (repredict_np P plain hP _) (fun _ h => h) ?_
        intro _ _
        exact .ok _ trivial
      | ref l d => exact .ok _ trivial
    · intro ⟨ops0, plen, pdist, s2⟩ _
      exact encRefTail_np P plain ops0 plen pdist s2 len dist irr

theorem encToks_np (P : Pred H) (plain : Array Nat)
    (hP : ∀ s m, P.repredictTok plain s ≠ .error (.panic m)) :
    ∀ (ts : List Token) (s : PState H), Post NP (fun _ => True) (encToks P plain s ts) := by
  intro ts
  induction ts with
  | nil => intro s; exact .ok _ trivial
  | cons t ts ih =>
    intro s
    rw [encToks]
    refine Post.bind (encTok_np P plain hP s t) (fun _ h => h) ?_
    intro ⟨a, s1⟩ _
    refine Post.bind (ih s1) (fun _ h => h) ?_
    intro ⟨b, s2⟩ _
    exact .ok _ trivial

-- ---------------------------------------------------------------------------------------------
-- dynamic header

theorem encLdTrees_np : ∀ (items : List RleItem) (syms : List Nat) (prev : Option Nat),
    (items.map itemSpan).sum = syms.length → Post NP (fun _ => True) (encLdTrees syms prev items) := by
  intro items
  induction items with
  | nil => intro syms prev _; exact .ok _ trivial
  | cons it rest ih =>
    intro syms prev hs
    simp only [List.map_cons, List.sum_cons] at hs
    rw [encLdTrees]
    split
    · exact Post.npErr
    · split
      · omega
      · simp only
        refine Post.bind (ih (syms.drop (itemSpan it)) _ (by rw [List.length_drop]; omega))
          (fun _ h => h) ?_
        intro r _
        exact .ok _ trivial

theorem encTree_np (P : Pred H) (h : Header) (hv : HeaderValid h) (freq : List Nat × List Nat) :
    Post NP (fun _ => True) (encTree P h freq) := by
  unfold encTree
  generalize P.calcBitLengths freq.1 15 = bl0
  generalize P.calcBitLengths freq.2 15 = dl0
  simp only
  generalize hbl1 : (if bl0.length ≠ h.numLiterals then resizeTo bl0 h.numLiterals else bl0) = bl1
  generalize hdl1 : (if dl0.length ≠ h.numDist then resizeTo dl0 h.numDist else dl0) = dl1
  have hbl1len : bl1.length = h.numLiterals := by
    subst hbl1; split
    · exact Tree.resizeTo_length _ _
    · omega
  have hdl1len : dl1.length = h.numDist := by
    subst hdl1; split
    · exact Tree.resizeTo_length _ _
    · omega
  have hsum : (h.items.map itemSpan).sum = (bl1 ++ dl1).length := by
    rw [List.length_append, hbl1len, hdl1len]; exact hv.items_sum
  have hn : ¬ ((h.items.map itemSpan).sum ≠ (bl1 ++ dl1).length) := by omega
  rw [if_neg hn]
  refine Post.bind (encLdTrees_np h.items (bl1 ++ dl1) none hsum) (fun _ h => h) ?_
  intro c _
  exact .ok _ trivial

-- ---------------------------------------------------------------------------------------------
-- blocks

theorem encTokBlock_np (P : Pred H) (plain : Array Nat)
    (hP : ∀ s m, P.repredictTok plain s ≠ .error (.panic m)) (s : PState H) (btn : Nat)
    (ts : List Token) (last : Bool) (tree : R (List Op)) (hn : ts.length < 2 ^ 32 - 1)
    (ht : Post NP (fun _ => True) tree) :
    Post NP (fun _ => True) (encTokBlock P plain s btn ts last tree) := by
  unfold encTokBlock
  simp only
  have hn' : ¬ (ts.length ≥ 2 ^ 32) := by omega
  rw [if_neg hn']
  refine Post.bind (encToks_np P plain hP ts s) (fun _ h => h) ?_
  intro ⟨tokOps, s1⟩ _
  refine Post.bind ht (fun _ h => h) ?_
  intro treeOps _
  exact .ok _ trivial

theorem encBlock_np (P : Pred H) (plain : Array Nat)
    (hP : ∀ s m, P.repredictTok plain s ≠ .error (.panic m)) (s : PState H) (b : Block) (last : Bool)
    (hv : ValidBlock plain s.pos b) :
    Post NP (fun _ => True) (encBlock P plain s b last) := by
  cases b with
  | stored pad data => exact .ok _ trivial
  | fixed ts =>
    rw [encBlock_fixed]
    exact encTokBlock_np P plain hP _ _ ts last _ hv.2 (.ok _ trivial)
  | dynamic h ts =>
    rw [encBlock_dynamic]
    exact encTokBlock_np P plain hP _ _ ts last _ hv.2.1 (encTree_np P h hv.2.2 _)

theorem encBlocks_post (P : Pred H) (plain : Array Nat)
    (hP : ∀ s m, P.repredictTok plain s ≠ .error (.panic m)) :
    ∀ (blocks : List Block) (s : PState H), ValidBlocks plain s.pos blocks →
      blocksEnd s.pos blocks = plain.size →
      Post NP (fun p => p.2.pos = plain.size) (encBlocks P plain s blocks) := by
  intro blocks
  induction blocks with
  | nil => intro s _ hend; exact .ok _ (by simpa [blocksEnd] using hend)
  | cons b rest ih =>
    intro s hv hend
    obtain ⟨hvb, hvr⟩ := hv
    have hlast : rest.isEmpty = true → blockEnd s.pos b = plain.size := by
      intro hb
      have : rest = [] := by simpa using hb
      subst this
      simpa [blocksEnd] using hend
    rw [encBlocks]
    simp only
    refine Post.bind (Post.and_ok (encBlock_np P plain hP s b rest.isEmpty hvb)
      (Q' := fun p => p.2.pos = blockEnd s.pos b) ?_) (fun _ h => h) ?_
    · intro ⟨a, s1⟩ ha
      exact (decBlock_encBlock P plain s b rest.isEmpty hvb hlast a s1 ha []).2.1
    · intro ⟨a, s1⟩ ⟨_, hp1⟩
      simp only at hp1 ⊢
      refine Post.bind (ih s1 (by rw [hp1]; exact hvr) (by rw [hp1]; simpa [blocksEnd] using hend))
        (fun _ h => h) ?_
      intro ⟨r, s2⟩ h2
      exact .ok _ h2

theorem encStream_post (P : Pred H) (plain : Array Nat) (blocks : List Block) (pad : Nat)
    (hv : StreamValid plain blocks)
    (hP : ∀ s m, P.repredictTok plain s ≠ .error (.panic m)) :
    Post NP (fun _ => True) (encStream P plain blocks pad) := by
  obtain ⟨_, hvb, hend⟩ := hv
  unfold encStream
  simp only
  refine Post.bind (encBlocks_post P plain hP blocks ⟨P.init, none, 0, 0⟩ hvb hend) (fun _ h => h) ?_
  intro ⟨ops, s⟩ hpos
  simp only at hpos ⊢
  have he : ¬ ((!s.eof plain) = true) := by simp [PState.eof, hpos]
  rw [if_neg he]
  exact .ok _ trivial

end Preflate.Proofs
