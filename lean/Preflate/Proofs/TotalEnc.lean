/-
C05: producing corrections for a valid stream has no panic path (whatever the predictor answers).
-/
import Preflate.Proofs.Total
import Preflate.Proofs.Predict
namespace Preflate.Proofs
set_option linter.unusedSectionVars false
open Preflate

variable {H : Type}

/-- the failure is not a panic -/
def NP (e : Fail) : Prop := ∀ m, e ≠ .panic m

theorem NP.err : NP .err := fun _ h => by cases h

/-- The lemmas below are generic in the class `E` of failures that are tolerated, as long as it
    contains `Err(PreflateError)`: `NP` (anything but a panic) gives "no panic path", `(· = .err)` gives
    "Err is the ONLY failure" (no panic and no exhausted loop bound). -/
structure Tol (E : Fail → Prop) : Prop where
  err : E .err

theorem Tol.np : Tol NP := ⟨NP.err⟩
theorem Tol.onlyErr : Tol (· = .err) := ⟨rfl⟩

theorem Post.npErr {E : Fail → Prop} (hE : Tol E) {α : Type} {Q : α → Prop} : Post E Q (.error .err : R α) :=
  .error _ hE.err

variable {E : Fail → Prop} (hE : Tol E)
include hE

-- ---------------------------------------------------------------------------------------------
-- tokens

theorem hopsWalk_np (plain : Array Nat) (pos maxDist len target : Nat) :
    ∀ (cands : List Nat) (hops maxChain : Nat),
      Post E (fun _ => True) (hopsWalk plain pos maxDist len target cands hops maxChain) := by
  intro cands
  induction cands with
  | nil => intro hops maxChain; exact (Post.npErr hE)
  | cons d rest ih =>
    intro hops maxChain
    rw [hopsWalk]
    split
    · exact (Post.npErr hE)
    · simp only
      split
      · split
        · exact .ok _ trivial
        · exact (Post.npErr hE)
      · split
        · exact (Post.npErr hE)
        · exact ih _ _

theorem calcHops_np (P : Pred H) (plain : Array Nat) (s : PState H) (len dist : Nat) :
    Post E (fun _ => True) (calcHops P plain s len dist) := by
  unfold calcHops
  split
  · exact (Post.npErr hE)
  · exact hopsWalk_np hE _ _ _ _ _ _ _ _

theorem encRefTail_np (P : Pred H) (plain : Array Nat) (ops0 : List Op) (plen pdist : Nat) (s2 : PState H)
    (len dist : Nat) (irr : Bool) :
    Post E (fun _ => True) (encRefTail P plain ops0 plen pdist s2 len dist irr) := by
  unfold encRefTail
  simp only
  split
  · refine Post.bind (calcHops_np hE P plain s2 len dist) (fun _ h => h) ?_
    intro _ _
    exact .ok _ trivial
  · split
    · refine Post.bind (calcHops_np hE P plain s2 len dist) (fun _ h => h) ?_
      intro _ _
      exact .ok _ trivial
    · exact .ok _ trivial

theorem repredict_np (P : Pred H) (plain : Array Nat)
    (hP : ∀ s e, P.repredictTok plain s = .error e → E e) (s : PState H) :
    Post E (fun _ => True) (P.repredictTok plain s) := by
  cases h : P.repredictTok plain s with
  | ok a => exact .ok _ trivial
  | error e => exact .error _ (hP s e h)

theorem encTok_np (P : Pred H) (plain : Array Nat)
    (hP : ∀ s e, P.repredictTok plain s = .error e → E e) (s : PState H) (t : Token) :
    Post E (fun _ => True) (encTok P plain s t) := by
  unfold encTok
  rcases hp : P.predictTok plain s with ⟨pt, pend⟩
  simp only
  cases t with
  | lit b => exact .ok _ trivial
  | ref len dist irr =>
    simp only
    refine Post.bind (Q := fun _ => True) ?_ (fun _ h => h) ?_
    · cases pt with
      | lit =>
        refine Post.bind (repredict_np hE P plain hP _) (fun _ h => h) ?_
        intro _ _
        exact .ok _ trivial
      | ref l d => exact .ok _ trivial
    · intro ⟨ops0, plen, pdist, s2⟩ _
      exact encRefTail_np hE P plain ops0 plen pdist s2 len dist irr

theorem encToks_np (P : Pred H) (plain : Array Nat)
    (hP : ∀ s e, P.repredictTok plain s = .error e → E e) :
    ∀ (ts : List Token) (s : PState H), Post E (fun _ => True) (encToks P plain s ts) := by
  intro ts
  induction ts with
  | nil => intro s; exact .ok _ trivial
  | cons t ts ih =>
    intro s
    rw [encToks]
    refine Post.bind (encTok_np hE P plain hP s t) (fun _ h => h) ?_
    intro ⟨a, s1⟩ _
    refine Post.bind (ih s1) (fun _ h => h) ?_
    intro ⟨b, s2⟩ _
    exact .ok _ trivial

-- ---------------------------------------------------------------------------------------------
-- dynamic header

theorem encLdTrees_np : ∀ (items : List RleItem) (syms : List Nat) (prev : Option Nat),
    (items.map itemSpan).sum = syms.length → Post E (fun _ => True) (encLdTrees syms prev items) := by
  intro items
  induction items with
  | nil => intro syms prev _; exact .ok _ trivial
  | cons it rest ih =>
    intro syms prev hs
    simp only [List.map_cons, List.sum_cons] at hs
    rw [encLdTrees]
    split
    · exact (Post.npErr hE)
    · split
      · omega
      · simp only
        refine Post.bind (ih (syms.drop (itemSpan it)) _ (by rw [List.length_drop]; omega))
          (fun _ h => h) ?_
        intro r _
        exact .ok _ trivial

theorem encTree_np (P : Pred H) (h : Header) (hv : HeaderValid h) (freq : List Nat × List Nat) :
    Post E (fun _ => True) (encTree P h freq) := by
  unfold encTree
  generalize P.calcBitLengths freq.1 15 = bl0
  generalize P.calcBitLengths freq.2 15 = dl0
  simp only
  generalize hbl1 : (if bl0.length ≠ h.numLiterals then resizeTo bl0 h.numLiterals else bl0) = bl1
  generalize hdl1 : (if dl0.length ≠ h.numDist then resizeTo dl0 h.numDist else dl0) = dl1
  have hbl1len : bl1.length = h.numLiterals := by
    subst hbl1; split
    · exact Tree.resizeTo_length _ _
    · omega
  have hdl1len : dl1.length = h.numDist := by
    subst hdl1; split
    · exact Tree.resizeTo_length _ _
    · omega
  have hsum : (h.items.map itemSpan).sum = (bl1 ++ dl1).length := by
    rw [List.length_append, hbl1len, hdl1len]; exact hv.items_sum
  have hn : ¬ ((h.items.map itemSpan).sum ≠ (bl1 ++ dl1).length) := by omega
  rw [if_neg hn]
  refine Post.bind (encLdTrees_np hE h.items (bl1 ++ dl1) none hsum) (fun _ h => h) ?_
  intro c _
  exact .ok _ trivial

-- ---------------------------------------------------------------------------------------------
-- blocks

theorem encTokBlock_np (P : Pred H) (plain : Array Nat)
    (hP : ∀ s e, P.repredictTok plain s = .error e → E e) (s : PState H) (btn : Nat)
    (ts : List Token) (last : Bool) (tree : R (List Op)) (hn : ts.length < 2 ^ 32 - 1)
    (ht : Post E (fun _ => True) tree) :
    Post E (fun _ => True) (encTokBlock P plain s btn ts last tree) := by
  unfold encTokBlock
  simp only
  have hn' : ¬ (ts.length ≥ 2 ^ 32) := by omega
  rw [if_neg hn']
  refine Post.bind (encToks_np hE P plain hP ts s) (fun _ h => h) ?_
  intro ⟨tokOps, s1⟩ _
  refine Post.bind ht (fun _ h => h) ?_
  intro treeOps _
  exact .ok _ trivial

theorem encBlock_np (P : Pred H) (plain : Array Nat)
    (hP : ∀ s e, P.repredictTok plain s = .error e → E e) (s : PState H) (b : Block) (last : Bool)
    (hv : ValidBlock plain s.pos b) :
    Post E (fun _ => True) (encBlock P plain s b last) := by
  cases b with
  | stored pad data => exact .ok _ trivial
  | fixed ts =>
    rw [encBlock_fixed]
    exact encTokBlock_np hE P plain hP _ _ ts last _ hv.2 (.ok _ trivial)
  | dynamic h ts =>
    rw [encBlock_dynamic]
    exact encTokBlock_np hE P plain hP _ _ ts last _ hv.2.1 (encTree_np hE P h hv.2.2 _)

theorem encBlocks_post (P : Pred H) (plain : Array Nat)
    (hP : ∀ s e, P.repredictTok plain s = .error e → E e) :
    ∀ (blocks : List Block) (s : PState H), ValidBlocks plain s.pos blocks →
      blocksEnd s.pos blocks = plain.size →
      Post E (fun p => p.2.pos = plain.size) (encBlocks P plain s blocks) := by
  intro blocks
  induction blocks with
  | nil => intro s _ hend; exact .ok _ (by simpa [blocksEnd] using hend)
  | cons b rest ih =>
    intro s hv hend
    obtain ⟨hvb, hvr⟩ := hv
    have hlast : rest.isEmpty = true → blockEnd s.pos b = plain.size := by
      intro hb
      have : rest = [] := by simpa using hb
      subst this
      simpa [blocksEnd] using hend
    rw [encBlocks]
    simp only
    refine Post.bind (Post.and_ok (encBlock_np hE P plain hP s b rest.isEmpty hvb)
      (Q' := fun p => p.2.pos = blockEnd s.pos b) ?_) (fun _ h => h) ?_
    · intro ⟨a, s1⟩ ha
      exact (decBlock_encBlock P plain s b rest.isEmpty hvb hlast a s1 ha []).2.1
    · intro ⟨a, s1⟩ ⟨_, hp1⟩
      simp only at hp1 ⊢
      refine Post.bind (ih s1 (by rw [hp1]; exact hvr) (by rw [hp1]; simpa [blocksEnd] using hend))
        (fun _ h => h) ?_
      intro ⟨r, s2⟩ h2
      exact .ok _ h2

theorem encStream_post (P : Pred H) (plain : Array Nat) (blocks : List Block) (pad : Nat)
    (hv : StreamValid plain blocks)
    (hP : ∀ s e, P.repredictTok plain s = .error e → E e) :
    Post E (fun _ => True) (encStream P plain blocks pad) := by
  obtain ⟨_, hvb, hend⟩ := hv
  unfold encStream
  simp only
  refine Post.bind (encBlocks_post hE P plain hP blocks ⟨P.init, none, 0, 0⟩ hvb hend) (fun _ h => h) ?_
  intro ⟨ops, s⟩ hpos
  simp only at hpos ⊢
  have he : ¬ ((!s.eof plain) = true) := by simp [PState.eof, hpos]
  rw [if_neg he]
  exact .ok _ trivial

end Preflate.Proofs
