/-
C05: the parser is total. A small Hoare-style predicate over `R`: `Post E Q x` says that `x` either
succeeds with a value satisfying `Q` or fails with a failure satisfying `E`.
-/
import Preflate.Model.Deflate
import Preflate.Proofs.Tables
namespace Preflate.Proofs
open Preflate

/-- NOTE: an inductive predicate rather than a definition by cases: `whnf` stops at it, so tactics
    that normalise the goal never start evaluating the parser. -/
inductive Post {α : Type} (E : Fail → Prop) (Q : α → Prop) : R α → Prop
  | ok (a : α) : Q a → Post E Q (.ok a)
  | error (e : Fail) : E e → Post E Q (.error e)

theorem Post.ok_iff {α : Type} {E : Fail → Prop} {Q : α → Prop} {a : α} :
    Post E Q (.ok a) ↔ Q a := ⟨fun h => by cases h; assumption, Post.ok a⟩

theorem Post.error_iff {α : Type} {E : Fail → Prop} {Q : α → Prop} {e : Fail} :
    Post E Q (.error e : R α) ↔ E e := ⟨fun h => by cases h; assumption, Post.error e⟩

theorem Post.bind {α β : Type} {E E' : Fail → Prop} {Q : α → Prop} {Q' : β → Prop} {x : R α}
    {f : α → R β} (hx : Post E Q x) (hE : ∀ e, E e → E' e) (hf : ∀ a, Q a → Post E' Q' (f a)) :
    Post E' Q' (x >>= f) := by
  cases hx with
  | error e h => exact .error e (hE e h)
  | ok a h => exact hf a h

theorem Post.mono {α : Type} {E E' : Fail → Prop} {Q Q' : α → Prop} {x : R α}
    (hx : Post E Q x) (hE : ∀ e, E e → E' e) (hQ : ∀ a, Q a → Q' a) : Post E' Q' x := by
  cases hx with
  | error e h => exact .error e (hE e h)
  | ok a h => exact .ok a (hQ a h)

theorem Post.and_ok {α : Type} {E : Fail → Prop} {Q Q' : α → Prop} {x : R α}
    (hx : Post E Q x) (h : ∀ a, x = .ok a → Q' a) : Post E (fun a => Q a ∧ Q' a) x := by
  cases hx with
  | error e he => exact .error e he
  | ok a ha => exact .ok a ⟨ha, h a rfl⟩

/-- the failure is `Err`, or running out of fuel in a situation `F` -/
def EF (F : Prop) (e : Fail) : Prop := e = .err ∨ (e = .fuel ∧ F)

theorem EF.mono {F F' : Prop} (h : F → F') (e : Fail) : EF F e → EF F' e := by
  rintro (h1 | ⟨h1, h2⟩)
  · exact Or.inl h1
  · exact Or.inr ⟨h1, h h2⟩

theorem EF.err {F : Prop} : EF F .err := Or.inl rfl

theorem Post.err {α : Type} {F : Prop} {Q : α → Prop} : Post (EF F) Q (.error .err : R α) :=
  .error _ EF.err

theorem Post.fuel {α : Type} {F : Prop} {Q : α → Prop} (h : F) : Post (EF F) Q (.error .fuel : R α) :=
  .error _ (Or.inr ⟨rfl, h⟩)

theorem EF.false {F : Prop} (e : Fail) : EF False e → EF F e := EF.mono False.elim e

-- ---------------------------------------------------------------------------------------------
-- primitives

theorem readBits_post (n : Nat) (bs : Bits) :
    Post (EF False) (fun p => p.2.length + n = bs.length) (readBits n bs) := by
  induction n generalizing bs with
  | zero => exact .ok _ rfl
  | succ n ih =>
    cases bs with
    | nil => exact Post.err
    | cons b bs =>
      have := ih bs
      simp only [readBits]
      cases h : readBits n bs with
      | error e => rw [h] at this; exact .error _ (Post.error_iff.mp this)
      | ok p =>
        rw [h] at this
        obtain ⟨v, rest⟩ := p
        have := Post.ok_iff.mp this
        refine .ok _ ?_
        simp only [List.length_cons] at this ⊢
        omega

theorem decodeSym_post (t : List (Bits × Nat)) (bs : Bits) :
    Post (EF False) (fun p => p.2.length ≤ bs.length) (decodeSym t bs) := by
  unfold decodeSym
  split
  · refine .ok _ ?_
    simp only [List.length_drop]; omega
  · exact Post.err

theorem length_codeBits (l : List Nat) (s : Nat) : (codeBits l s).length = l.getD s 0 := by
  simp [codeBits]

/-- every code of a code table is non-empty, so decoding a symbol consumes at least one bit -/
theorem decodeSym_post' (l : List Nat) (bs : Bits) :
    Post (EF False) (fun p => p.2.length < bs.length) (decodeSym (codeTable l) bs) := by
  have hg := decodeSym_post (codeTable l) bs
  cases h : decodeSym (codeTable l) bs with
  | error e => rw [h] at hg; exact .error _ (Post.error_iff.mp hg)
  | ok p =>
    obtain ⟨s, rest⟩ := p
    refine .ok _ ?_
    show rest.length < bs.length
    unfold decodeSym at h
    split at h
    · rename_i c s' hf
      simp only [Except.ok.injEq, Prod.mk.injEq] at h
      obtain ⟨rfl, rfl⟩ := h
      have hp0 := List.find?_some hf
      have hp := isPrefix_eq hp0
      have hm := List.mem_of_find?_eq_some hf
      simp only [codeTable, List.mem_filterMap, List.mem_range] at hm
      obtain ⟨a, ha, hm⟩ := hm
      split at hm
      · simp at hm
      · rename_i hne
        simp only [Option.some.injEq, Prod.mk.injEq] at hm
        obtain ⟨rfl, rfl⟩ := hm
        have hl := congrArg List.length hp
        simp only [List.length_append, length_codeBits] at hl ⊢
        omega
    · simp at h

theorem mkTable_post (l : List Nat) : Post (EF False) (fun t => t = codeTable l) (mkTable l) := by
  unfold mkTable
  split
  · exact .ok _ rfl
  · exact Post.err

theorem readBytes_post (n : Nat) (bs : Bits) :
    Post (EF False) (fun p => p.2.length ≤ bs.length) (readBytes n bs) := by
  induction n generalizing bs with
  | zero => exact .ok _ (Nat.le_refl _)
  | succ n ih =>
    rw [readBytes]
    refine Post.bind (readBits_post 8 bs) (fun _ h => h) ?_
    intro ⟨b, bs1⟩ h1
    refine Post.bind (ih bs1) (fun _ h => h) ?_
    intro ⟨r, bs2⟩ h2
    refine .ok _ ?_
    simp only at h1 h2 ⊢
    omega

theorem readCodeLengths_post (n i : Nat) (acc : List Nat) (bs : Bits) :
    Post (EF False) (fun p => p.2.length ≤ bs.length) (readCodeLengths n i acc bs) := by
  induction n generalizing i acc bs with
  | zero => exact .ok _ (Nat.le_refl _)
  | succ n ih =>
    rw [readCodeLengths]
    refine Post.bind (readBits_post 3 bs) (fun _ h => h) ?_
    intro ⟨v, bs1⟩ h1
    refine Post.mono (ih _ _ bs1) (fun _ h => h) ?_
    intro ⟨cl, bs2⟩ h2
    simp only at h1 h2 ⊢
    omega

-- ---------------------------------------------------------------------------------------------
-- dynamic header

theorem expandItems_cons_length (k d : Nat) (items : List RleItem) (prev : Nat) :
    ∃ prev', (expandItems (⟨k, d⟩ :: items) prev).length =
      (if k = 0 then 1 else d) + (expandItems items prev').length := by
  simp only [expandItems]
  split
  · exact ⟨d, by simp; omega⟩
  · split <;> exact ⟨prev, by simp⟩

theorem readRleItems_post (cl : List Nat) (total : Nat) : ∀ (fuel read : Nat) (bs : Bits),
    Post (EF (fuel ≤ bs.length))
      (fun p => p.2.length ≤ bs.length ∧ ∀ prev, read + (expandItems p.1 prev).length = total)
      (readRleItems (codeTable cl) total fuel read bs) := by
  intro fuel
  induction fuel with
  | zero => intro read bs; exact Post.fuel (Nat.zero_le _)
  | succ fuel ih =>
    intro read bs
    rw [readRleItems]
    split
    · refine Post.bind (decodeSym_post' cl bs) EF.false ?_
      intro ⟨w, bs1⟩ h1
      simp only at h1 ⊢
      split
      · refine Post.bind (ih (read + 1) bs1) (EF.mono (by omega)) ?_
        intro ⟨items, bs2⟩ ⟨h2, h3⟩
        simp only at h2 h3
        refine .ok _ ⟨by simp only; omega, ?_⟩
        intro prev
        obtain ⟨prev', hp⟩ := expandItems_cons_length 0 w items prev
        have := h3 prev'
        simp only [if_true] at hp
        simp only [hp]; omega
      · split
        · rename_i hw15 hw18
          generalize treeCodeAdjust w = ta
          obtain ⟨sub, nbits⟩ := ta
          simp only
          refine Post.bind (readBits_post nbits bs1) EF.false ?_
          intro ⟨x, bs2⟩ h2
          simp only at h2 ⊢
          refine Post.bind (ih (read + (x + sub)) bs2) (EF.mono (by omega)) ?_
          intro ⟨items, bs3⟩ ⟨h3, h4⟩
          simp only at h3 h4
          refine .ok _ ⟨by simp only; omega, ?_⟩
          intro prev
          obtain ⟨prev', hp⟩ := expandItems_cons_length w (x + sub) items prev
          have := h4 prev'
          rw [if_neg (by omega)] at hp
          simp only [hp]; omega
        · exact Post.err
    · split
      · refine .ok _ ⟨Nat.le_refl _, ?_⟩
        intro prev
        simp only [expandItems, List.length_nil]; omega
      · exact Post.err

theorem readHeader_post (bs : Bits) :
    Post (EF False)
      (fun p => p.2.length ≤ bs.length ∧ p.1.numLiterals ≤ (expandItems p.1.items 0).length)
      (readHeader bs) := by
  unfold readHeader
  refine Post.bind (readBits_post 5 bs) (fun _ h => h) ?_
  intro ⟨a, bs1⟩ h1
  refine Post.bind (readBits_post 5 bs1) (fun _ h => h) ?_
  intro ⟨b, bs2⟩ h2
  refine Post.bind (readBits_post 4 bs2) (fun _ h => h) ?_
  intro ⟨c, bs3⟩ h3
  refine Post.bind (readCodeLengths_post _ _ _ bs3) (fun _ h => h) ?_
  intro ⟨cl, bs4⟩ h4
  refine Post.bind (mkTable_post cl) (fun _ h => h) ?_
  intro t ht
  subst ht
  refine Post.bind (readRleItems_post cl _ _ 0 bs4) (EF.mono (by omega)) ?_
  intro ⟨items, bs5⟩ ⟨h5, h6⟩
  simp only at h1 h2 h3 h4 h5 h6
  have := h6 0
  exact .ok _ ⟨by simp only; omega, by simp only; omega⟩

theorem litDistLengths_post (h : Header) (hh : h.numLiterals ≤ (expandItems h.items 0).length) :
    Post (EF False) (fun _ => True) (litDistLengths h) := by
  simp only [litDistLengths, hh, if_true]
  exact .ok _ trivial

-- ---------------------------------------------------------------------------------------------
-- tokens

theorem decodeTokens_post (ll : List Nat) (dt : List (Bits × Nat)) : ∀ (fuel : Nat) (plain : Array Nat) (bs : Bits),
    Post (EF (fuel ≤ bs.length)) (fun p => p.2.2.length ≤ bs.length)
      (decodeTokens (codeTable ll) dt fuel plain bs) := by
  intro fuel
  induction fuel with
  | zero => intro plain bs; exact Post.fuel (Nat.zero_le _)
  | succ fuel ih =>
    intro plain bs
    rw [decodeTokens]
    split
    · exact Post.err
    refine Post.bind (decodeSym_post' ll bs) EF.false ?_
    intro ⟨sym, bs1⟩ h1
    simp only at h1 ⊢
    split
    · refine Post.bind (ih _ bs1) (EF.mono (by omega)) ?_
      intro ⟨ts, plain', bs2⟩ h2
      simp only at h2 ⊢
      refine .ok _ ?_
      show bs2.length ≤ bs.length
      omega
    · split
      · refine .ok _ ?_
        show bs1.length ≤ bs.length
        omega
      · by_cases hl : sym - Gen.NONLEN_CODE_COUNT ≥ Gen.LEN_CODE_COUNT
        · rw [if_pos hl]
          exact Post.err
        · rw [if_neg hl]
          refine Post.bind (readBits_post _ bs1) EF.false ?_
          intro ⟨ex, bs2⟩ h2
          simp only at h2 ⊢
          refine Post.bind (decodeSym_post dt bs2) EF.false ?_
          intro ⟨dcode, bs3⟩ h3
          simp only at h3 ⊢
          by_cases hd : dcode ≥ Gen.DIST_CODE_COUNT
          · rw [if_pos hd]
            exact Post.err
          · rw [if_neg hd]
            refine Post.bind (readBits_post _ bs3) EF.false ?_
            intro ⟨dx, bs4⟩ h4
            simp only at h4 ⊢
            split
            · exact Post.err
            · refine Post.bind (ih _ bs4) (EF.mono (by omega)) ?_
              intro ⟨ts, plain', bs5⟩ h5
              simp only at h5 ⊢
              refine .ok _ ?_
              show bs5.length ≤ bs.length
              omega

-- ---------------------------------------------------------------------------------------------
-- blocks

theorem readBlock_post (plain : Array Nat) (bs : Bits) :
    Post (EF False) (fun p => p.2.2.2.length < bs.length) (readBlock plain bs) := by
  unfold readBlock
  refine Post.bind (readBits_post 1 bs) (fun _ h => h) ?_
  intro ⟨last, bs1⟩ h1
  refine Post.bind (readBits_post 2 bs1) (fun _ h => h) ?_
  intro ⟨mode, bs2⟩ h2
  simp only at h1 h2 ⊢
  split
  · refine Post.bind (readBits_post _ bs2) (fun _ h => h) ?_
    intro ⟨pad, bs3⟩ h3
    refine Post.bind (readBits_post 16 bs3) (fun _ h => h) ?_
    intro ⟨len, bs4⟩ h4
    refine Post.bind (readBits_post 16 bs4) (fun _ h => h) ?_
    intro ⟨ilen, bs5⟩ h5
    simp only at h3 h4 h5 ⊢
    by_cases hc : len + ilen ≠ 65535
    · rw [if_pos hc]
      exact Post.err
    · rw [if_neg hc]
      split
      · exact Post.err
      refine Post.bind (readBytes_post len bs5) (fun _ h => h) ?_
      intro ⟨data, bs6⟩ h6
      simp only at h6 ⊢
      refine .ok _ ?_
      show bs6.length < bs.length
      omega
  · split
    · generalize fixedLitLengths = fll
      generalize fixedDistLengths = fdl
      refine Post.bind (mkTable_post fll) (fun _ h => h) ?_
      intro lt hlt
      subst hlt
      refine Post.bind (mkTable_post fdl) (fun _ h => h) ?_
      intro dt _
      refine Post.bind (decodeTokens_post fll dt _ plain bs2) (EF.mono (by omega)) ?_
      intro ⟨ts, plain', bs3⟩ h3
      simp only at h3 ⊢
      refine .ok _ ?_
      show bs3.length < bs.length
      omega
    · split
      · refine Post.bind (readHeader_post bs2) (fun _ h => h) ?_
        intro ⟨h, bs3⟩ ⟨h3, hh⟩
        simp only at h3 hh ⊢
        refine Post.bind (litDistLengths_post h hh) (fun _ h => h) ?_
        intro ⟨ll, dl⟩ _
        simp only
        refine Post.bind (mkTable_post ll) (fun _ h => h) ?_
        intro lt hlt
        subst hlt
        refine Post.bind (mkTable_post dl) (fun _ h => h) ?_
        intro dt _
        refine Post.bind (decodeTokens_post ll dt _ plain bs3) (EF.mono (by omega)) ?_
        intro ⟨ts, plain', bs4⟩ h4
        simp only at h4 ⊢
        refine .ok _ ?_
        show bs4.length < bs.length
        omega
      · exact Post.err

theorem readBlocks_post : ∀ (fuel : Nat) (plain : Array Nat) (bs : Bits),
    Post (EF (fuel ≤ bs.length)) (fun _ => True) (readBlocks fuel plain bs) := by
  intro fuel
  induction fuel with
  | zero => intro plain bs; exact Post.fuel (Nat.zero_le _)
  | succ fuel ih =>
    intro plain bs
    rw [readBlocks]
    refine Post.bind (readBlock_post plain bs) EF.false ?_
    intro ⟨last, b, plain', bs1⟩ h1
    simp only at h1 ⊢
    split
    · exact .ok _ trivial
    · refine Post.bind (ih plain' bs1) (EF.mono (by omega)) ?_
      intro ⟨r, plain'', bs2⟩ _
      exact .ok _ trivial

theorem parseBits_post (bs : Bits) : Post (EF False) (fun _ => True) (parseBits bs) := by
  unfold parseBits
  refine Post.bind (readBlocks_post _ #[] bs) (EF.mono (by omega)) ?_
  intro ⟨blocks, plain, bs1⟩ _
  refine Post.bind (readBits_post _ bs1) (fun _ h => h) ?_
  intro ⟨pad, bs2⟩ _
  exact .ok _ trivial

theorem parseBits_error (bs : Bits) (e : Fail) (h : parseBits bs = .error e) : e = .err := by
  have := parseBits_post bs
  rw [h] at this
  rcases Post.error_iff.mp this with h1 | ⟨_, h2⟩
  · exact h1
  · exact h2.elim

end Preflate.Proofs
