/-
The parser's side of `WellFormed`: whatever `parseBits` returns satisfies the conjuncts that
`WellFormed` adds to `StreamValid` (`BlocksCoded`), with the bit offsets the writer will be at.
-/
import Preflate.Proofs.ParseWriteBase
namespace Preflate.Proofs
open Preflate Preflate.Gen
set_option linter.unusedSimpArgs false
set_option linter.unusedVariables false

theorem idx_getD {l : List Nat} {i v : Nat} {site : String} (h : idx l i site = .ok v) :
    l.getD i 0 = v := by
  unfold idx at h
  split at h
  · rename_i v' hv
    simp only [Except.ok.injEq] at h
    subst h
    simp [List.getD, hv]
  · simp at h

theorem lenCode_of {c ex : Nat} (hc : c < 29) (hex : ex < 2 ^ lengthExtra c) :
    lenCode (3 + lengthBase c + ex) (3 + lengthBase c + ex == 258 && c != 28) = c := by
  by_cases hirr : (3 + lengthBase c + ex == 258 && c != 28) = true
  · rw [hirr]
    have := length_irregular hc hex (by simpa using hirr)
    simp [lenCode, LEN_CODE_COUNT, this.1]
  · have hq := length_regular hc hex (by simpa using hirr)
    have hf : (3 + lengthBase c + ex == 258 && c != 28) = false := by simpa using hirr
    rw [hf]
    unfold quantizeLength at hq
    rw [if_neg (by simp only [MIN_MATCH]; omega)] at hq
    simpa [lenCode] using idx_getD hq

theorem distCode_of {c dx : Nat} (hc : c < 30) (hdx : dx < 2 ^ distExtra c) :
    distCode (1 + distBase c + dx) = c := by
  have hq := dist_quantize hc hdx
  unfold quantizeDistance at hq
  rw [if_neg (by omega)] at hq
  unfold distCode
  split
  · rename_i h
    rw [if_pos h] at hq
    exact idx_getD hq
  · rename_i h
    rw [if_neg h] at hq
    exact idx_getD hq

-- ---------------------------------------------------------------------------------------------
-- tokens

theorem decodeTokens_coded (ll dl : List Nat) {fuel : Nat} {plain : Array Nat} {bs : Bits}
    {ts : List Token} {plain' : Array Nat} {rest : Bits}
    (h : decodeTokens (codeTable ll) (codeTable dl) fuel plain bs = .ok (ts, plain', rest)) :
    (∀ t ∈ ts, TokCoded ll dl t) ∧ ll.getD 256 0 ≠ 0 ∧
      bs.length = tokensBits ll dl ts + rest.length := by
  have hcl := codeBits_length
  induction fuel generalizing plain bs ts with
  | zero => simp [decodeTokens] at h
  | succ fuel ih =>
    rw [decodeTokens] at h
    rw [if_neg (fun hc => by rw [if_pos hc] at h; cases h)] at h
    simp only [bind_eq_ok] at h
    obtain ⟨⟨sym, bs1⟩, h1, h⟩ := h
    simp only at h
    obtain ⟨e1, hsym⟩ := decodeSym_ok h1
    have hne := decodeSym_ne h1
    have l1 := congrArg List.length e1
    simp only [List.length_append, hcl] at l1
    split at h
    · rename_i hlit
      simp only [bind_eq_ok] at h
      obtain ⟨⟨ts', pl, bs2⟩, h2, h⟩ := h
      simp only [Except.ok.injEq, Prod.mk.injEq] at h
      obtain ⟨rfl, rfl, rfl⟩ := h
      obtain ⟨a, b, c⟩ := ih h2
      refine ⟨?_, b, by simp only [tokensBits, tokenBits]; omega⟩
      intro t ht
      rcases List.mem_cons.mp ht with rfl | ht
      · exact ⟨hlit, hne⟩
      · exact a t ht
    · split at h
      · simp only [Except.ok.injEq, Prod.mk.injEq] at h
        obtain ⟨rfl, rfl, rfl⟩ := h
        rename_i hs
        subst hs
        exact ⟨fun _ ht => absurd ht List.not_mem_nil, hne, by simp only [tokensBits]; omega⟩
      · split at h
        · simp only [throw_bind_eq_ok] at h
        · simp only [bind_eq_ok] at h
          obtain ⟨⟨ex, bs2⟩, h2, h⟩ := h
          simp only [bind_eq_ok] at h
          obtain ⟨⟨dc, bs3⟩, h3, h⟩ := h
          simp only at h
          split at h
          · simp only [throw_bind_eq_ok] at h
          · simp only [bind_eq_ok] at h
            obtain ⟨⟨dx, bs4⟩, h4, h⟩ := h
            simp only at h
            split at h
            · simp only [throw_bind_eq_ok] at h
            · simp only [bind_eq_ok] at h
              obtain ⟨⟨ts', pl, bs5⟩, h5, h⟩ := h
              simp only [Except.ok.injEq, Prod.mk.injEq] at h
              obtain ⟨rfl, rfl, rfl⟩ := h
              obtain ⟨a, b, c⟩ := ih h5
              obtain ⟨e2, hex⟩ := readBits_ok h2
              obtain ⟨e3, hdc⟩ := decodeSym_ok h3
              have hdne := decodeSym_ne h3
              obtain ⟨e4, hdx⟩ := readBits_ok h4
              have l2 := readBits_len h2
              have l3 := congrArg List.length e3
              have l4 := readBits_len h4
              simp only [List.length_append, hcl] at l3
              rename_i hn1 hn2 hc hdc' hpl
              simp only [NONLEN_CODE_COUNT, LEN_CODE_COUNT, DIST_CODE_COUNT, MIN_MATCH, ge_iff_le,
                Nat.not_le, Nat.reduceSub] at *
              have hlc := lenCode_of hc hex
              have hdcode := distCode_of hdc' hdx
              have hsym' : 257 + (sym - 257) = sym := by omega
              have hls : lenSym (3 + lengthBase (sym - 257) + ex)
                  (3 + lengthBase (sym - 257) + ex == 258 && sym - 257 != 28) = sym := by
                simp only [lenSym, NONLEN_CODE_COUNT, hlc, hsym']
              refine ⟨?_, b, ?_⟩
              · intro t ht
                rcases List.mem_cons.mp ht with rfl | ht
                · refine ⟨?_, ?_⟩
                  · rw [hls]; exact hne
                  · rw [hdcode]; exact hdne
                · exact a t ht
              · simp only [tokensBits, tokenBits, hls, hlc, hdcode]
                omega

-- ---------------------------------------------------------------------------------------------
-- dynamic headers

theorem readCodeLengths_len {n i : Nat} {acc : List Nat} {bs : Bits} {cl : List Nat} {rest : Bits}
    (h : readCodeLengths n i acc bs = .ok (cl, rest)) : bs.length = 3 * n + rest.length := by
  induction n generalizing i acc bs with
  | zero =>
    simp only [readCodeLengths, Except.ok.injEq, Prod.mk.injEq] at h
    obtain ⟨rfl, rfl⟩ := h
    simp
  | succ n ih =>
    simp only [readCodeLengths, bind_eq_ok] at h
    obtain ⟨⟨v, bs1⟩, h1, h2⟩ := h
    simp only at h2
    have := readBits_len h1
    have := ih h2
    omega

theorem readRleItems_coded (cl : List Nat) (total : Nat) {fuel read : Nat} {bs : Bits}
    {items : List RleItem} {rest : Bits}
    (h : readRleItems (codeTable cl) total fuel read bs = .ok (items, rest)) :
    (∀ it ∈ items, cl.getD (itemSym it) 0 ≠ 0) ∧
      bs.length = (items.map (itemBits cl)).sum + rest.length := by
  have hcl := codeBits_length
  induction fuel generalizing read bs items with
  | zero => simp [readRleItems] at h
  | succ fuel ih =>
    rw [readRleItems] at h
    split at h
    · simp only [bind_eq_ok] at h
      obtain ⟨⟨w, bs1⟩, h1, h2⟩ := h
      simp only at h2
      obtain ⟨e1, hw⟩ := decodeSym_ok h1
      have hne := decodeSym_ne h1
      have l1 := congrArg List.length e1
      simp only [List.length_append, hcl] at l1
      split at h2
      · simp only [bind_eq_ok] at h2
        obtain ⟨⟨items', bs2⟩, h3, h4⟩ := h2
        simp only [Except.ok.injEq, Prod.mk.injEq] at h4
        obtain ⟨rfl, rfl⟩ := h4
        obtain ⟨a, b⟩ := ih h3
        refine ⟨?_, ?_⟩
        · intro it hit
          rcases List.mem_cons.mp hit with rfl | hit
          · simpa [itemSym] using hne
          · exact a it hit
        · simp only [List.map_cons, List.sum_cons, itemBits, itemSym, if_true]
          omega
      · split at h2
        · rename_i hw15 hw18
          simp only [bind_eq_ok] at h2
          obtain ⟨⟨x, bs2⟩, h3, h4⟩ := h2
          simp only [bind_eq_ok] at h4
          obtain ⟨⟨items', bs3⟩, h5, h6⟩ := h4
          simp only [Except.ok.injEq, Prod.mk.injEq] at h6
          obtain ⟨rfl, rfl⟩ := h6
          obtain ⟨a, b⟩ := ih h5
          have l2 := readBits_len h3
          have hk : ¬ w = 0 := by omega
          refine ⟨?_, ?_⟩
          · intro it hit
            rcases List.mem_cons.mp hit with rfl | hit
            · simpa [itemSym, hk] using hne
            · exact a it hit
          · simp only [List.map_cons, List.sum_cons, itemBits, itemSym, hk, if_false]
            omega
        · simp at h2
    · split at h
      · simp only [Except.ok.injEq, Prod.mk.injEq] at h
        obtain ⟨rfl, rfl⟩ := h
        exact ⟨fun _ hit => absurd hit List.not_mem_nil, by simp⟩
      · simp at h

theorem readHeader_coded {bs : Bits} {h : Header} {rest : Bits} (hr : readHeader bs = .ok (h, rest)) :
    HeaderCoded h ∧ bs.length = headerBits h + rest.length := by
  simp only [readHeader, bind_eq_ok] at hr
  obtain ⟨⟨a, bs1⟩, h1, ⟨b, bs2⟩, h2, ⟨c, bs3⟩, h3, ⟨cl, bs4⟩, h4, t, h5, ⟨items, bs5⟩, h6, hr⟩ := hr
  simp only at h2 h3 h4 h5 h6 hr
  simp only [Except.ok.injEq, Prod.mk.injEq] at hr
  obtain ⟨rfl, rfl⟩ := hr
  obtain ⟨rfl, hv⟩ := mkTable_valid h5
  obtain ⟨hi, hl⟩ := readRleItems_coded _ _ h6
  have l1 := readBits_len h1
  have l2 := readBits_len h2
  have l3 := readBits_len h3
  have l4 := readCodeLengths_len h4
  exact ⟨⟨hv, hi⟩, by simp only [headerBits]; omega⟩

-- ---------------------------------------------------------------------------------------------
-- blocks

theorem readBytes_lt {n : Nat} {bs : Bits} {data : List Nat} {rest : Bits}
    (h : readBytes n bs = .ok (data, rest)) : ∀ x ∈ data, x < 256 := by
  induction n generalizing bs data with
  | zero =>
    simp only [readBytes, Except.ok.injEq, Prod.mk.injEq] at h
    obtain ⟨rfl, rfl⟩ := h
    exact fun _ hx => absurd hx List.not_mem_nil
  | succ n ih =>
    simp only [readBytes, bind_eq_ok] at h
    obtain ⟨⟨b, bs1⟩, h1, ⟨r, bs2⟩, h2, h⟩ := h
    simp only [Except.ok.injEq, Prod.mk.injEq] at h2 h
    obtain ⟨rfl, rfl⟩ := h
    obtain ⟨_, hb⟩ := readBits_ok h1
    intro x hx
    rcases List.mem_cons.mp hx with rfl | hx
    · exact hb
    · exact ih h2 x hx

theorem litDistLengths_ok {h : Header} {ll dl : List Nat} (hr : litDistLengths h = .ok (ll, dl)) :
    ll = litLens h ∧ dl = distLens h := by
  unfold litDistLengths at hr
  simp only at hr
  split at hr
  · simp only [Except.ok.injEq, Prod.mk.injEq] at hr
    exact ⟨hr.1.symm, hr.2.symm⟩
  · simp at hr

theorem readBlock_coded {plain : Array Nat} {bs : Bits} {last : Bool} {b : Block}
    {plain' : Array Nat} {rest : Bits} (off : Nat) (hoff : (off + bs.length) % 8 = 0)
    (h : readBlock plain bs = .ok (last, b, plain', rest)) :
    BlockCoded off plain.size b ∧ bs.length = blockBits off b + rest.length := by
  have hsz := (readBlock_valid h).2.1
  have hlim := (readBlock_limit h).2.2
  rw [readBlock] at h
  simp only [bind_eq_ok] at h
  obtain ⟨⟨lastN, bs1⟩, h1, ⟨mode, bs2⟩, h2, h⟩ := h
  simp only at h2 h
  have l1 := readBits_len h1
  have l2 := readBits_len h2
  split at h
  · -- stored
    simp only [bind_eq_ok] at h
    obtain ⟨⟨pad, bs3⟩, h3, ⟨len, bs4⟩, h4, ⟨ilen, bs5⟩, h5, h⟩ := h
    simp only at h4 h5 h
    split at h
    · simp only [throw_bind_eq_ok] at h
    · split at h
      · simp only [throw_bind_eq_ok] at h
      rename_i hg
      simp only [bind_eq_ok] at h
      obtain ⟨⟨data, bs6⟩, h6, h⟩ := h
      simp only [Except.ok.injEq, Prod.mk.injEq] at h
      obtain ⟨_, rfl, rfl, rfl⟩ := h
      have hpc : bs2.length % 8 = padCount (off + 3) := mod8_eq_padCount _ _ (by omega)
      rw [hpc] at h3
      obtain ⟨_, hpad⟩ := readBits_ok h3
      have l3 := readBits_len h3
      have l4 := readBits_len h4
      have l5 := readBits_len h5
      obtain ⟨e6, hdl⟩ := readBytes_ok h6
      have l6 := congrArg List.length e6
      simp only [List.length_append, length_flatMap_bytes] at l6
      exact ⟨⟨hpad, readBytes_lt h6, by omega⟩, by simp only [blockBits]; omega⟩
  · split at h
    · -- fixed
      simp only [bind_eq_ok] at h
      obtain ⟨lt, h3, dt, h4, ⟨ts, pl, bs3⟩, h5, h⟩ := h
      simp only [Except.ok.injEq, Prod.mk.injEq] at h
      obtain ⟨_, rfl, rfl, rfl⟩ := h
      rw [mkTable_ok h3, mkTable_ok h4] at h5
      obtain ⟨a, _, c⟩ := decodeTokens_coded _ _ h5
      have := hlim (by intro _ _ hh; cases hh)
      simp only [blockEnd] at hsz
      exact ⟨⟨a, by rw [← hsz]; exact this⟩, by simp only [blockBits]; omega⟩
    · split at h
      · -- dynamic
        simp only [bind_eq_ok] at h
        obtain ⟨⟨hd, bs3⟩, h3, ⟨ll, dl⟩, h4, lt, h5, dt, h6, ⟨ts, pl, bs4⟩, h7, h⟩ := h
        simp only [Except.ok.injEq, Prod.mk.injEq] at h4 h5 h6 h7 h
        obtain ⟨_, rfl, rfl, rfl⟩ := h
        obtain ⟨rfl, hv1⟩ := mkTable_valid h5
        obtain ⟨rfl, hv2⟩ := mkTable_valid h6
        obtain ⟨rfl, rfl⟩ := litDistLengths_ok h4
        obtain ⟨hc, l3⟩ := readHeader_coded h3
        obtain ⟨a, b, c⟩ := decodeTokens_coded _ _ h7
        have := hlim (by intro _ _ hh; cases hh)
        simp only [blockEnd] at hsz
        exact ⟨⟨hc, ⟨hv1, hv2, b, a⟩, by rw [← hsz]; exact this⟩,
          by simp only [blockBits]; omega⟩
      · simp at h

theorem readBlocks_coded {fuel : Nat} {plain : Array Nat} {bs : Bits} {blocks : List Block}
    {plain' : Array Nat} {rest : Bits} (off : Nat) (hoff : (off + bs.length) % 8 = 0)
    (h : readBlocks fuel plain bs = .ok (blocks, plain', rest)) :
    ∃ n, bs.length = n + rest.length ∧
      ∀ pad, pad < 2 ^ padCount (off + n) → BlocksCoded off plain.size blocks pad := by
  induction fuel generalizing plain bs blocks off with
  | zero => simp [readBlocks] at h
  | succ fuel ih =>
    rw [readBlocks] at h
    simp only [bind_eq_ok] at h
    obtain ⟨⟨last, b, pl, bs1⟩, h1, h⟩ := h
    simp only at h
    obtain ⟨hc, hl⟩ := readBlock_coded off hoff h1
    have hsz := (readBlock_valid h1).2.1
    split at h
    · simp only [Except.ok.injEq, Prod.mk.injEq] at h
      obtain ⟨rfl, rfl, rfl⟩ := h
      exact ⟨blockBits off b, hl, fun pad hp => ⟨hc, hp⟩⟩
    · simp only [bind_eq_ok] at h
      obtain ⟨⟨r, pl2, bs2⟩, h2, h⟩ := h
      simp only [Except.ok.injEq, Prod.mk.injEq] at h
      obtain ⟨rfl, rfl, rfl⟩ := h
      obtain ⟨n, hn, hall⟩ := ih (off + blockBits off b) (by omega) h2
      refine ⟨blockBits off b + n, by omega, fun pad hp => ⟨hc, ?_⟩⟩
      rw [← hsz]
      exact hall pad (by rw [Nat.add_assoc]; exact hp)

theorem parseBits_coded (bs : Bits) (hlen : bs.length % 8 = 0) (p : Parsed)
    (h : parseBits bs = .ok p) : BlocksCoded 0 0 p.blocks p.eofPadding := by
  simp only [parseBits, bind_eq_ok] at h
  obtain ⟨⟨blocks, plain, bs1⟩, h1, ⟨pad, bs2⟩, h2, h⟩ := h
  simp only [Except.ok.injEq] at h2 h
  subst h
  simp only
  obtain ⟨n, hn, hall⟩ := readBlocks_coded 0 (by omega) h1
  have hpc : bs1.length % 8 = padCount n := mod8_eq_padCount _ _ (by omega)
  rw [hpc] at h2
  obtain ⟨_, hpad⟩ := readBits_ok h2
  have := hall pad (by rw [Nat.zero_add]; exact hpad)
  simpa using this

end Preflate.Proofs
