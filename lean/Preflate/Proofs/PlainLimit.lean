/-
The plain-text size limit of the reader (deflate_reader.rs `check_plain_text_size`).

The reader refuses to go on once the plain text is longer than `PLAIN_LIMIT = i32::MAX - 65535`;
the check sits at the top of every iteration of the token loop (so also before the end-of-block
symbol is fetched) and before the bytes of a stored block are read. Consequences, for EVERY input:

* a Huffman block leaves at most `PLAIN_LIMIT` bytes of plain text (its last iteration, the one
  that fetches the end-of-block symbol, passed the check and adds nothing);
* a stored block starts at `≤ PLAIN_LIMIT` and adds `len ≤ 65535` bytes;
* so the plain text of an accepted stream has at most `PLAIN_LIMIT + 65535 = 2^31 - 1` bytes. The
  bound is NOT strict: a stored block of 65535 bytes that starts at exactly `PLAIN_LIMIT` is
  accepted and ends at exactly `2^31 - 1` (`readBlock_limit_reached`);
* every token adds at least one byte, so a Huffman block has at most `PLAIN_LIMIT` tokens — below
  `2^31 - 1`, which is what the token-count correction needs (`TokenCountsSmall`), and below
  `2^32 - 1`, which is what `ValidBlock` needs: `parse_valid` holds without the input-size
  hypothesis.
-/
import Preflate.Proofs.Expands
import Preflate.Proofs.Prefix
import Preflate.Model.PredBounded
namespace Preflate.Proofs
open Preflate Preflate.Gen
set_option linter.unusedSimpArgs false

theorem plain_limit_val : PLAIN_LIMIT = 2147418112 := rfl
theorem plain_limit_step : PLAIN_LIMIT + 65535 = 2147483647 := rfl
theorem plain_limit_i32 : PLAIN_LIMIT + 65535 = 2 ^ 31 - 1 := by decide

-- ---------------------------------------------------------------------------------------------
-- tokens

/-- one Huffman block: the plain text it leaves passed the check, and every token added at least
    one byte (no hypothesis on the code tables) -/
theorem decodeTokens_limit (lt dt : List (Bits × Nat)) {fuel : Nat} {plain : Array Nat} {bs : Bits}
    {ts : List Token} {plain' : Array Nat} {rest : Bits}
    (h : decodeTokens lt dt fuel plain bs = .ok (ts, plain', rest)) :
    plain'.size ≤ PLAIN_LIMIT ∧ plain.size + ts.length ≤ plain'.size := by
  induction fuel generalizing plain bs ts with
  | zero => simp [decodeTokens] at h
  | succ fuel ih =>
    rw [decodeTokens] at h
    have hg : ¬ plain.size > PLAIN_LIMIT := fun hc => by rw [if_pos hc] at h; cases h
    rw [if_neg hg] at h
    simp only [bind_eq_ok] at h
    obtain ⟨⟨sym, bs1⟩, h1, h⟩ := h
    simp only at h
    split at h
    · simp only [bind_eq_ok] at h
      obtain ⟨⟨ts', pl, bs2⟩, h2, h⟩ := h
      simp only [Except.ok.injEq, Prod.mk.injEq] at h
      obtain ⟨rfl, rfl, rfl⟩ := h
      obtain ⟨a, b⟩ := ih h2
      have hsz1 : (plain.push sym).size = plain.size + 1 := by simp
      rw [hsz1] at b
      exact ⟨a, by simp only [List.length_cons]; omega⟩
    · split at h
      · simp only [Except.ok.injEq, Prod.mk.injEq] at h
        obtain ⟨rfl, rfl, rfl⟩ := h
        exact ⟨by omega, by simp⟩
      · split at h
        · simp only [throw_bind_eq_ok] at h
        · simp only [bind_eq_ok] at h
          obtain ⟨⟨ex, bs2⟩, h2, h⟩ := h
          simp only [bind_eq_ok] at h
          obtain ⟨⟨dc, bs3⟩, h3, h⟩ := h
          simp only at h
          split at h
          · simp only [throw_bind_eq_ok] at h
          · simp only [bind_eq_ok] at h
            obtain ⟨⟨dx, bs4⟩, h4, h⟩ := h
            simp only at h
            split at h
            · simp only [throw_bind_eq_ok] at h
            · simp only [bind_eq_ok] at h
              obtain ⟨⟨ts', pl, bs5⟩, h5, h⟩ := h
              simp only [Except.ok.injEq, Prod.mk.injEq] at h
              obtain ⟨rfl, rfl, rfl⟩ := h
              obtain ⟨a, b⟩ := ih h5
              obtain ⟨c1, _, _⟩ := copyRef_spec (1 + distBase dc + dx)
                (MIN_MATCH + lengthBase (sym - NONLEN_CODE_COUNT) + ex) plain
              rw [c1] at b
              simp only [MIN_MATCH] at b
              exact ⟨a, by simp only [List.length_cons]; omega⟩

-- ---------------------------------------------------------------------------------------------
-- blocks

/-- one block, from ANY starting plain text: it ends at no more than `PLAIN_LIMIT + 65535` bytes
    (a Huffman block at no more than `PLAIN_LIMIT`), and has at most `PLAIN_LIMIT` tokens -/
theorem readBlock_limit {plain : Array Nat} {bs : Bits} {last : Bool} {b : Block} {plain' : Array Nat}
    {rest : Bits} (h : readBlock plain bs = .ok (last, b, plain', rest)) :
    plain'.size ≤ PLAIN_LIMIT + 65535 ∧ (blockTokens b).length ≤ PLAIN_LIMIT ∧
      ((∀ pad data, b ≠ .stored pad data) → plain'.size ≤ PLAIN_LIMIT) := by
  rw [readBlock] at h
  simp only [bind_eq_ok] at h
  obtain ⟨⟨lastN, bs1⟩, h1, ⟨mode, bs2⟩, h2, h⟩ := h
  simp only at h2 h
  split at h
  · -- stored
    simp only [bind_eq_ok] at h
    obtain ⟨⟨pad, bs3⟩, h3, ⟨len, bs4⟩, h4, ⟨ilen, bs5⟩, h5, h⟩ := h
    simp only at h4 h5 h
    split at h
    · simp only [throw_bind_eq_ok] at h
    · split at h
      · simp only [throw_bind_eq_ok] at h
      rename_i hg
      simp only [bind_eq_ok] at h
      obtain ⟨⟨data, bs6⟩, h6, h⟩ := h
      simp only [Except.ok.injEq, Prod.mk.injEq] at h
      obtain ⟨_, rfl, rfl, rfl⟩ := h
      obtain ⟨_, hlen16⟩ := readBits_ok h4
      obtain ⟨_, hdl⟩ := readBytes_ok h6
      have hp : (2:Nat) ^ 16 = 65536 := by decide
      rw [hp] at hlen16
      obtain ⟨p1, _, _⟩ := pushAll_spec data plain
      rw [plain_limit_val] at hg ⊢
      refine ⟨by omega, by simp [blockTokens], fun hn => absurd rfl (hn pad data)⟩
  · split at h
    · -- fixed
      simp only [bind_eq_ok] at h
      obtain ⟨lt, h3, dt, h4, ⟨ts, pl, bs3⟩, h5, h⟩ := h
      simp only [Except.ok.injEq, Prod.mk.injEq] at h
      obtain ⟨_, rfl, rfl, rfl⟩ := h
      obtain ⟨a, b⟩ := decodeTokens_limit _ _ h5
      exact ⟨Nat.le_trans a (Nat.le_add_right _ _), by simp only [blockTokens]; omega, fun _ => a⟩
    · split at h
      · -- dynamic
        simp only [bind_eq_ok] at h
        obtain ⟨⟨hd, bs3⟩, h3, ⟨ll, dl⟩, h4, lt, h5, dt, h6, ⟨ts, pl, bs4⟩, h7, h⟩ := h
        simp only [Except.ok.injEq, Prod.mk.injEq] at h4 h5 h6 h7 h
        obtain ⟨_, rfl, rfl, rfl⟩ := h
        obtain ⟨a, b⟩ := decodeTokens_limit _ _ h7
        exact ⟨Nat.le_trans a (Nat.le_add_right _ _), by simp only [blockTokens]; omega, fun _ => a⟩
      · simp at h

theorem readBlocks_limit {fuel : Nat} {plain : Array Nat} {bs : Bits} {blocks : List Block}
    {plain' : Array Nat} {rest : Bits}
    (h : readBlocks fuel plain bs = .ok (blocks, plain', rest)) :
    plain'.size ≤ PLAIN_LIMIT + 65535 ∧ ∀ b ∈ blocks, (blockTokens b).length ≤ PLAIN_LIMIT := by
  induction fuel generalizing plain bs blocks with
  | zero => simp [readBlocks] at h
  | succ fuel ih =>
    rw [readBlocks] at h
    simp only [bind_eq_ok] at h
    obtain ⟨⟨last, b, pl, bs1⟩, h1, h⟩ := h
    simp only at h
    obtain ⟨e1, e2, _⟩ := readBlock_limit h1
    split at h
    · simp only [Except.ok.injEq, Prod.mk.injEq] at h
      obtain ⟨rfl, rfl, rfl⟩ := h
      refine ⟨e1, ?_⟩
      intro b' hb'
      rw [List.mem_singleton.mp hb']
      exact e2
    · simp only [bind_eq_ok] at h
      obtain ⟨⟨r, pl2, bs2⟩, h2, h⟩ := h
      simp only [Except.ok.injEq, Prod.mk.injEq] at h
      obtain ⟨rfl, rfl, rfl⟩ := h
      obtain ⟨f1, f2⟩ := ih h2
      refine ⟨f1, ?_⟩
      intro b' hb'
      rcases List.mem_cons.mp hb' with rfl | hb'
      · exact e2
      · exact f2 b' hb'

-- ---------------------------------------------------------------------------------------------
-- the stream

theorem parseBits_limit (bs : Bits) (p : Parsed) (h : parseBits bs = .ok p) :
    p.plain.size ≤ PLAIN_LIMIT + 65535 ∧ ∀ b ∈ p.blocks, (blockTokens b).length ≤ PLAIN_LIMIT := by
  simp only [parseBits, bind_eq_ok] at h
  obtain ⟨⟨blocks, plain, bs1⟩, h1, ⟨pad, bs2⟩, h2, h⟩ := h
  simp only [Except.ok.injEq] at h2 h
  subst h
  exact readBlocks_limit h1

/-- the plain text of an accepted stream fits an `i32` -/
theorem parse_plain_lt (d : List UInt8) (p : Parsed) (h : parse d = .ok p) :
    p.plain.size ≤ 2147483647 :=
  (parseBits_limit _ p h).1

/-- the same, as the tightest bound in terms of the limit -/
theorem parse_plain_le_limit (d : List UInt8) (p : Parsed) (h : parse d = .ok p) :
    p.plain.size ≤ PLAIN_LIMIT + 65535 :=
  (parseBits_limit _ p h).1

/-- every block of an accepted stream has at most `PLAIN_LIMIT` tokens -/
theorem parse_tokens_le_limit (d : List UInt8) (p : Parsed) (h : parse d = .ok p) :
    ∀ b ∈ p.blocks, (blockTokens b).length ≤ PLAIN_LIMIT :=
  (parseBits_limit _ p h).2

/-- … hence fewer than `2^31 - 1` -/
theorem parse_tokens_lt (d : List UInt8) (p : Parsed) (h : parse d = .ok p) :
    ∀ b ∈ p.blocks, (blockTokens b).length < 2 ^ 31 - 1 := by
  intro b hb
  have := parse_tokens_le_limit d p h b hb
  have e : (2:Nat) ^ 31 - 1 = 2147483647 := by decide
  rw [e]
  simp only [PLAIN_LIMIT] at this
  omega

/-- the codec's hypothesis on token counts holds for whatever the parser accepts -/
theorem parse_tokenCountsSmall (d : List UInt8) (p : Parsed) (h : parse d = .ok p) :
    TokenCountsSmall p.blocks :=
  parse_tokens_lt d p h

/-- `parse_valid` without the input-size hypothesis: the token-count condition of `ValidBlock`
    (`< 2^32 - 1`) now follows from the limit -/
theorem parse_valid_unbounded (bs : Bits) (p : Parsed) (h : parseBits bs = .ok p) :
    StreamValid p.plain p.blocks ∧ p.eofPadding < 256 := by
  refine parse_valid_of_counts bs p h ?_
  intro b hb
  have := (parseBits_limit bs p h).2 b hb
  have e : (2:Nat) ^ 32 - 1 = 4294967295 := by decide
  rw [e]
  simp only [PLAIN_LIMIT] at this
  omega

-- ---------------------------------------------------------------------------------------------
-- the bound 2^31 - 1 is attained at the level of one block

theorem readBytes_app : ∀ (data : List Nat) (rest : Bits), (∀ x ∈ data, x < 256) →
    readBytes data.length (data.flatMap (bitsOfNat 8) ++ rest) = .ok (data, rest) := by
  intro data
  induction data with
  | nil => intro rest _; rfl
  | cons x r ih =>
    intro rest hx
    have h1 : x < 2 ^ 8 := hx x (by simp)
    simp only [List.length_cons, readBytes, List.flatMap_cons, List.append_assoc,
      readBits_app h1, ok_bind, ih rest (fun y hy => hx y (List.mem_cons_of_mem _ hy))]

theorem length_flatMap_bytes (data : List Nat) :
    (data.flatMap (bitsOfNat 8)).length = 8 * data.length := by
  induction data with
  | nil => rfl
  | cons x r ih =>
    simp only [List.flatMap_cons, List.length_append, length_bitsOfNat, ih, List.length_cons]
    omega

/-- a final stored block holding `data`, written after a multiple of 8 bits -/
def storedBits (data : List Nat) : Bits :=
  bitsOfNat 1 1 ++ (bitsOfNat 2 0 ++ (bitsOfNat 5 0 ++ (bitsOfNat 16 data.length ++
    (bitsOfNat 16 (65535 - data.length) ++ (data.flatMap (bitsOfNat 8) ++ [])))))

/-- a stored block that starts at a plain text that passes the check is accepted -/
theorem readBlock_stored_app (plain : Array Nat) (hs : plain.size ≤ PLAIN_LIMIT) (data : List Nat)
    (hd : ∀ x ∈ data, x < 256) (hn : data.length ≤ 65535) :
    readBlock plain (storedBits data) = .ok (true, .stored 0 data, pushAll plain data, []) := by
  have hb := readBytes_app data [] hd
  have hp : (2:Nat) ^ 16 = 65536 := by decide
  have hlen : (bitsOfNat 5 0 ++ (bitsOfNat 16 data.length ++ (bitsOfNat 16 (65535 - data.length) ++
      (data.flatMap (bitsOfNat 8) ++ [])))).length % 8 = 5 := by
    simp only [List.length_append, length_bitsOfNat, length_flatMap_bytes, List.length_nil]
    omega
  have hg : ¬ plain.size > PLAIN_LIMIT := by omega
  have hsum : ¬ (data.length + (65535 - data.length) ≠ 65535) := by omega
  rw [readBlock, storedBits]
  simp only [readBits_app (n := 1) (v := 1) (by decide), ok_bind,
    readBits_app (n := 2) (v := 0) (by decide), if_true, hlen,
    readBits_app (n := 5) (v := 0) (by decide),
    readBits_app (n := 16) (v := data.length) (by omega),
    readBits_app (n := 16) (v := 65535 - data.length) (by omega), if_neg hsum, if_neg hg, hb]
  rfl

/-- NOT strict: from a plain text of exactly `PLAIN_LIMIT` bytes (which passes the check) a stored
    block of 65535 bytes is accepted and leaves exactly `2^31 - 1` bytes -/
theorem readBlock_limit_reached (plain : Array Nat) (hs : plain.size = PLAIN_LIMIT) :
    ∃ bs b plain', readBlock plain bs = .ok (true, b, plain', []) ∧ plain'.size = 2147483647 := by
  have hl : (List.replicate 65535 0).length = 65535 := List.length_replicate ..
  have hd : ∀ x ∈ List.replicate 65535 0, x < 256 := by
    intro x hx
    rw [(List.mem_replicate.mp hx).2]
    decide
  refine ⟨_, _, _, readBlock_stored_app plain (Nat.le_of_eq hs) (List.replicate 65535 0) hd
    (Nat.le_of_eq hl), ?_⟩
  obtain ⟨p1, _, _⟩ := pushAll_spec (List.replicate 65535 0) plain
  rw [p1, hl, hs]
  exact plain_limit_step

end Preflate.Proofs
