/-
Layout of the array built by `buildTree` (calculate_huffman_code_tree):
level widths `width`, level start offsets `startOf`, and the content of every entry.
-/
import Preflate.Model.HuffTree
import Preflate.Proofs.Bits
namespace Preflate.Proofs
open Preflate
set_option linter.unusedSimpArgs false

/-- number of codes of length `b`; level 0 (the virtual root) has none -/
def cntP (l : List Nat) (b : Nat) : Nat := if b = 0 then 0 else countEq l b

/-- number of tree nodes at depth `b` (the `internal_nodes` counter of the Kraft loop) -/
def width (l : List Nat) : Nat → Nat
  | 0 => 1
  | b + 1 => (width l b - cntP l b) * 2

/-- sum of the widths of the `d` deepest levels 15, 14, …, 16 - d -/
def startD (l : List Nat) : Nat → Nat
  | 0 => 0
  | d + 1 => startD l d + width l (15 - d)

/-- array index at which the block of level `b` starts -/
def startOf (l : List Nat) (b : Nat) : Nat := startD l (15 - b)

theorem nextCode_succ (l : List Nat) (b : Nat) :
    nextCode l (b + 1) = (nextCode l b + cntP l b) * 2 := by
  simp [nextCode, cntP]

theorem cntP_pos (l : List Nat) {b : Nat} (h : 1 ≤ b) : cntP l b = countEq l b := by
  simp [cntP]; omega

/-- what the Kraft loop establishes -/
structure Complete (l : List Nat) : Prop where
  le : ∀ b, b ≤ 15 → cntP l b ≤ width l b
  top : width l 16 = 0
  lt16 : ∀ x ∈ l, x < 16

theorem kraftLoop_spec (l : List Nat) (fuel i : Nat) (hi : 1 ≤ i)
    (h : kraftLoop l fuel i (width l i) = true) :
    (∀ j, i ≤ j → j < i + fuel → cntP l j ≤ width l j) ∧ width l (i + fuel) = 0 := by
  induction fuel generalizing i with
  | zero =>
    simp only [kraftLoop, beq_iff_eq] at h
    exact ⟨fun j h1 h2 => by omega, by simpa using h⟩
  | succ fuel ih =>
    simp only [kraftLoop] at h
    split at h
    · simp at h
    · rename_i hlt
      have hw : width l (i + 1) = (width l i - countEq l i) * 2 := by
        simp [width, cntP_pos l hi]
      rw [← hw] at h
      obtain ⟨h1, h2⟩ := ih (i + 1) (by omega) h
      refine ⟨fun j hj1 hj2 => ?_, ?_⟩
      · by_cases hj : j = i
        · subst hj; rw [cntP_pos l hi]; omega
        · exact h1 j (by omega) (by omega)
      · rw [show i + (fuel + 1) = i + 1 + fuel by omega]; exact h2

theorem complete_of_valid {l : List Nat} (h : validLengths l = true) : Complete l := by
  simp only [validLengths, Bool.and_eq_true, List.all_eq_true, decide_eq_true_eq] at h
  obtain ⟨⟨_, hlt⟩, hk⟩ := h
  have hk' : kraftLoop l 15 1 (width l 1) = true := by
    simpa [width, cntP] using hk
  obtain ⟨h1, h2⟩ := kraftLoop_spec l 15 1 (by omega) hk'
  refine ⟨fun b hb => ?_, h2, hlt⟩
  by_cases hb0 : b = 0
  · subst hb0; simp [cntP]
  · exact h1 b (by omega) (by omega)

theorem width_succ (l : List Nat) (b : Nat) : width l (b + 1) = (width l b - cntP l b) * 2 := rfl

theorem startOf_eq (l : List Nat) {b : Nat} (hb : b < 15) :
    startOf l b = startOf l (b + 1) + width l (b + 1) := by
  unfold startOf
  rw [show 15 - b = (15 - (b + 1)) + 1 by omega, startD]
  congr 2; omega

theorem startOf_15 (l : List Nat) : startOf l 15 = 0 := rfl
theorem startOf_16 (l : List Nat) : startOf l 16 = 0 := rfl

theorem startD_mono (l : List Nat) (d k : Nat) : startD l d ≤ startD l (d + k) := by
  induction k with
  | zero => simp
  | succ k ih => rw [← Nat.add_assoc, startD]; omega

theorem startOf_le (l : List Nat) {b c : Nat} (h : b ≤ c) : startOf l c ≤ startOf l b := by
  unfold startOf
  have := startD_mono l (15 - c) ((15 - b) - (15 - c))
  rwa [show 15 - c + ((15 - b) - (15 - c)) = 15 - b by omega] at this

/-- the block of level `b` lies inside the array -/
theorem block_le (l : List Nat) {b : Nat} (h1 : 1 ≤ b) (h15 : b ≤ 15) :
    startOf l b + width l b ≤ startOf l 0 := by
  have := startOf_eq l (b := b - 1) (by omega)
  rw [show b - 1 + 1 = b by omega] at this
  rw [← this]; exact startOf_le l (by omega)

-- ---------------------------------------------------------------------------------------------
-- number of codes

/-- sum of the counts of the `d` largest lengths -/
def cntD (l : List Nat) : Nat → Nat
  | 0 => 0
  | d + 1 => cntD l d + cntP l (15 - d)

theorem cntD_startD {l : List Nat} (hc : Complete l) (d : Nat) (hd : d ≤ 15) :
    2 * cntD l d = startD l d + width l (16 - d) := by
  induction d with
  | zero => simp [cntD, startD, hc.top]
  | succ d ih =>
    have ih := ih (by omega)
    have hw : width l (16 - d) = (width l (15 - d) - cntP l (15 - d)) * 2 := by
      rw [show 16 - d = (15 - d) + 1 by omega, width_succ]
    have := hc.le (15 - d) (by omega)
    rw [show 16 - (d + 1) = 15 - d by omega]
    simp only [cntD, startD]
    omega

theorem filter_split (xs : List Nat) (a : Nat) (ha : a + 1 ≤ 15) :
    (xs.filter (fun x => decide (a + 1 < x ∧ x ≤ 15))).length + (xs.filter (· == a + 1)).length
      = (xs.filter (fun x => decide (a < x ∧ x ≤ 15))).length := by
  induction xs with
  | nil => simp
  | cons x xs ih =>
    simp only [List.filter_cons]
    by_cases h3 : x = a + 1
    · subst h3
      have h1 : decide (a + 1 < a + 1 ∧ a + 1 ≤ 15) = false := by
        rw [decide_eq_false_iff_not]; omega
      have h2 : decide (a < a + 1 ∧ a + 1 ≤ 15) = true := by
        rw [decide_eq_true_iff]; omega
      rw [h1, h2]
      simp only [if_true, beq_self_eq_true, if_false, List.length_cons, Bool.false_eq_true]
      omega
    · have h3' : (x == a + 1) = false := by simpa using h3
      rw [h3']
      by_cases h : a + 1 < x ∧ x ≤ 15
      · have h1 : decide (a + 1 < x ∧ x ≤ 15) = true := by rw [decide_eq_true_iff]; exact h
        have h2 : decide (a < x ∧ x ≤ 15) = true := by rw [decide_eq_true_iff]; omega
        rw [h1, h2]
        simp only [if_true, if_false, List.length_cons, Bool.false_eq_true]
        omega
      · have h1 : decide (a + 1 < x ∧ x ≤ 15) = false := by
          rw [decide_eq_false_iff_not]; exact h
        have h2 : decide (a < x ∧ x ≤ 15) = false := by rw [decide_eq_false_iff_not]; omega
        rw [h1, h2]
        simp only [if_true, if_false, List.length_cons, Bool.false_eq_true]
        omega

theorem cntD_filter (l : List Nat) (d : Nat) (hd : d ≤ 15) :
    cntD l d = (l.filter (fun x => decide (15 - d < x ∧ x ≤ 15))).length := by
  induction d with
  | zero =>
    simp only [cntD]
    rw [List.filter_eq_nil_iff.mpr]
    · rfl
    · intro x _; simp
  | succ d ih =>
    rw [cntD, ih (by omega), cntP_pos l (by omega), countEq]
    have := filter_split l (15 - (d + 1)) (by omega)
    rw [show 15 - (d + 1) + 1 = 15 - d by omega] at this
    exact this

/-- the array has exactly `(codes - 1) * 2` entries -/
theorem size_eq {l : List Nat} (hc : Complete l) :
    startOf l 0 = ((l.filter (· ≠ 0)).length - 1) * 2 := by
  have h1 := cntD_startD hc 15 (by omega)
  have h2 := cntD_filter l 15 (by omega)
  have h3 : (l.filter (fun x => decide (15 - 15 < x ∧ x ≤ 15))) = l.filter (· ≠ 0) := by
    apply List.filter_congr
    intro x hx
    have := hc.lt16 x hx
    by_cases hx0 : x = 0
    · simp [hx0]
    · simp [hx0]; omega
  rw [h3] at h2
  have hw : width l 1 = 2 := by simp [width, cntP]
  rw [show 16 - 15 = 1 by omega, hw] at h1
  unfold startOf
  simp only [Nat.sub_zero]
  omega

end Preflate.Proofs
