/-
C03 (RFC reading): the decoding tables of the two readings of a dynamic header.

If the library accepts both halves of ITS reading (complete codes) and zlib's rules accept both halves
of the RFC reading, then either
  (a) the literal/length tables are the same and every distance code zlib can decode is decoded
      identically by the library (`SubTable`), or
  (b) zlib's literal/length code is the single symbol 256 with the code `0`, and the library's table
      decodes the bit `0` as symbol 256 as well.
-/
import Preflate.Proofs.SpecRFCExpand
import Preflate.Proofs.SpecRFCKraft
namespace Preflate.Proofs.RFC
open Preflate SpecRFC Preflate.Proofs

/-- everything `t1` decodes, `t2` decodes to the same symbol with the same rest -/
def SubTable (t1 t2 : List (Bits × Nat)) : Prop :=
  ∀ bs x, decodeSym t1 bs = .ok x → decodeSym t2 bs = .ok x

theorem SubTable.refl (t : List (Bits × Nat)) : SubTable t t := fun _ _ h => h

theorem SubTable.nil (t : List (Bits × Nat)) : SubTable [] t := by
  intro bs x h
  simp [decodeSym] at h

theorem decodeSym_single {s : Nat} {bs : Bits} {x : Nat × Bits}
    (h : decodeSym [([false], s)] bs = .ok x) : ∃ rest, bs = false :: rest ∧ x = (s, rest) := by
  cases bs with
  | nil => simp [decodeSym, isPrefix] at h
  | cons b rest =>
    cases b with
    | true => simp [decodeSym, isPrefix] at h
    | false =>
      simp [decodeSym, isPrefix] at h
      exact ⟨rest, rfl, h.symm⟩

theorem tableFor_some {isDist : Bool} {l : List Nat} {t : List (Bits × Nat)}
    (h : tableFor isDist l = some t) :
    (isDist = false → l.getD 256 0 ≠ 0) ∧
    ((kraft l = 2 ^ 15 ∧ t = codeTable l) ∨
     (l.filter (· ≠ 0) = [1] ∧ t = [([false], l.findIdx (· ≠ 0))]) ∨
     (isDist = true ∧ t = [])) := by
  unfold tableFor at h
  split at h
  · simp at h
  · split at h
    · simp at h
    · rename_i h256
      refine ⟨fun hd h0 => h256 ⟨hd, h0⟩, ?_⟩
      split at h
      · rename_i hk
        simp only [Option.some.injEq] at h
        exact Or.inl ⟨hk, h.symm⟩
      · split at h
        · rename_i hf
          simp only [Option.some.injEq] at h
          exact Or.inr (Or.inl ⟨hf, h.symm⟩)
        · split at h
          · rename_i hz
            simp only [Option.some.injEq] at h
            exact Or.inr (Or.inr ⟨hz.1, h.symm⟩)
          · simp at h

theorem lt_length_of_getD_ne {l : List Nat} {i : Nat} (h : l.getD i 0 ≠ 0) : i < l.length := by
  apply Classical.byContradiction
  intro hn
  exact h (by simp [List.getD_eq_getElem?_getD, List.getElem?_eq_none (by omega : l.length ≤ i)])

/-- pointwise relation of the halves -/
theorem pw_take {C R : List Nat} (h : ∀ i, R.getD i 0 = C.getD i 0 ∨ R.getD i 0 = 0) (n : Nat) :
    ∀ i, (R.take n).getD i 0 = (C.take n).getD i 0 ∨ (R.take n).getD i 0 = 0 := by
  intro i
  rw [getD_take, getD_take]
  by_cases hi : i < n
  · simp only [hi, if_true]; exact h i
  · simp only [hi, if_false]; left; trivial

theorem pw_drop {C R : List Nat} (h : ∀ i, R.getD i 0 = C.getD i 0 ∨ R.getD i 0 = 0) (n : Nat) :
    ∀ i, (R.drop n).getD i 0 = (C.drop n).getD i 0 ∨ (R.drop n).getD i 0 = 0 := by
  intro i
  rw [getD_drop, getD_drop]
  exact h _

/-- the distance code: with identical literal/length halves, whatever zlib's distance table decodes the
    library's decodes identically -/
theorem dist_tables {C R : List Nat} (rel : Rel 0 C R) (n : Nat)
    (hsame : ∀ i, i < n → R.getD i 0 = C.getD i 0)
    (hvd : validLengths (C.drop n) = true) {dtr : List (Bits × Nat)}
    (h2 : tableFor true (R.drop n) = some dtr) : SubTable dtr (codeTable (C.drop n)) := by
  have hlen : (R.drop n).length = (C.drop n).length := by simp [rel.len]
  have hpw := pw_drop rel.pw n
  obtain ⟨_, hcase⟩ := tableFor_some h2
  rcases hcase with ⟨hk, rfl⟩ | ⟨hf, rfl⟩ | ⟨_, rfl⟩
  · rw [eq_of_kraft_eq _ _ hlen hpw (hk.trans (kraft_of_valid hvd).symm)]
    exact SubTable.refl _
  · obtain ⟨hj, hj1, hj0⟩ := single_of_filter _ 1 hf
    generalize (R.drop n).findIdx (· ≠ 0) = j at hj hj1 hj0
    intro bs x hx
    obtain ⟨rest, rfl, rfl⟩ := decodeSym_single hx
    have hcj : (C.drop n).getD j 0 = 1 := by
      rcases hpw j with h | h
      · rw [← h]; exact hj1
      · rw [hj1] at h; omega
    refine decodeSym_first_one hvd (by omega) hcj ?_ rest
    intro i hi hci
    -- position n + i differs: an extra 1-bit code before j
    have hri : (R.drop n).getD i 0 = 0 := hj0 i (by omega)
    rw [getD_drop] at hri hci
    obtain ⟨p, hp, hpd, hpc⟩ := rel.adj (n + i) (by omega)
    have hpn : n ≤ p := by
      apply Classical.byContradiction
      intro hlt
      exact hpd (hsame p (by omega))
    obtain ⟨i', rfl⟩ : ∃ i', p = n + i' := ⟨p - n, by omega⟩
    rw [hci] at hpc
    have hci' : (C.drop n).getD i' 0 = 1 := by rw [getD_drop]; exact hpc
    have hne : i' ≠ j := by
      intro he
      subst he
      rw [getD_drop] at hj1
      omega
    have hle := countEq_one_le hvd
    have hjl : j < (C.drop n).length := by omega
    have hci2 : (C.drop n).getD i 0 = 1 := by rw [getD_drop]; exact hci
    rcases hp with hp | hp
    · have := countEq_ge_three (C.drop n) 1 i' i j (by omega) hi hjl hci' hci2 hcj
      omega
    · have := countEq_ge_three (C.drop n) 1 i i' j (by omega) (by omega) hjl hci2 hci' hcj
      omega
  · exact SubTable.nil _

/-- the tables of the two readings of a dynamic header -/
theorem tables_rel (items : List RleItem) (hw : ∀ it ∈ items, it.kind = 16 → 2 ≤ it.data)
    (R : List Nat) (hR : expandRFC items = some R) (n : Nat)
    (hvl : validLengths ((expandItems items 0).take n) = true)
    (hvd : validLengths ((expandItems items 0).drop n) = true)
    {ltr dtr : List (Bits × Nat)}
    (h1 : tableFor false (R.take n) = some ltr) (h2 : tableFor true (R.drop n) = some dtr) :
    (ltr = codeTable ((expandItems items 0).take n) ∧
      SubTable dtr (codeTable ((expandItems items 0).drop n))) ∨
    (ltr = [([false], 256)] ∧
      ∀ rest, decodeSym (codeTable ((expandItems items 0).take n)) (false :: rest) = .ok (256, rest)) := by
  have rel := expand_rel items hw R hR
  generalize expandItems items 0 = C at rel hvl hvd ⊢
  have hlen : (R.take n).length = (C.take n).length := by simp [rel.len]
  have hpw := pw_take rel.pw n
  obtain ⟨h256, hcase⟩ := tableFor_some h1
  have h256 := h256 rfl
  rcases hcase with ⟨hk, rfl⟩ | ⟨hf, rfl⟩ | ⟨hd, _⟩
  · -- (a) complete: the literal/length halves are equal
    left
    have heq := eq_of_kraft_eq _ _ hlen hpw (hk.trans (kraft_of_valid hvl).symm)
    refine ⟨by rw [heq], ?_⟩
    have hsame : ∀ i, i < n → R.getD i 0 = C.getD i 0 := by
      intro i hi
      have := congrArg (fun l => l.getD i 0) heq
      simp only [getD_take, if_pos hi] at this
      exact this
    exact dist_tables rel n hsame hvd h2
  · -- (b) the single symbol 256
    right
    obtain ⟨hs, hs1, hs0⟩ := single_of_filter _ 1 hf
    have hs256 : (R.take n).findIdx (· ≠ 0) = 256 := by
      apply Classical.byContradiction
      intro hne
      exact h256 (hs0 256 (fun h => hne h.symm))
    rw [hs256] at hs hs1 hs0 ⊢
    refine ⟨rfl, fun rest => ?_⟩
    have hc256 : (C.take n).getD 256 0 = 1 := by
      rcases hpw 256 with h | h
      · rw [← h]; exact hs1
      · rw [hs1] at h; omega
    refine decodeSym_first_one hvl (by omega) hc256 ?_ rest
    intro i hi hci
    -- an extra code before 256 would repeat an explicit length at a still earlier position
    have hin : i < n := by
      apply Classical.byContradiction
      intro hn
      rw [getD_take, if_neg hn] at hci
      omega
    have hri : (R.take n).getD i 0 = 0 := hs0 i (by omega)
    rw [getD_take, if_pos hin] at hri hci
    rcases rel.src i (by omega) with h0 | ⟨e, he, he1, he2⟩
    · omega
    · have hre : (R.take n).getD e 0 = 0 := hs0 e (by omega)
      rw [getD_take, if_pos (by omega)] at hre
      omega
  · cases hd

end Preflate.Proofs.RFC
