/- C13 helper lemmas, layer 1: schedules, `readExact`, `writeAll`. -/
import Preflate.Model.IO
namespace Preflate.Proofs
open Preflate

theorem onlyShort_of_suffix {l l' : List IoEv} (h : l' <:+ l) (ho : OnlyShort l) : OnlyShort l' :=
  fun e he => ho e (h.subset he)

theorem bad_of_suffix {l l' : List IoEv} (h : l' <:+ l) (hb : ¬ OnlyShort l') : ¬ OnlyShort l :=
  fun ho => hb (onlyShort_of_suffix h ho)

theorem nozero_of_suffix {l l' : List IoEv} (h : l' <:+ l) (hz : IoEv.zero ∉ l) : IoEv.zero ∉ l' :=
  fun he => hz (h.subset he)

theorem onlyShort_nozero {l : List IoEv} (ho : OnlyShort l) : IoEv.zero ∉ l := by
  intro h
  obtain ⟨k, hk⟩ := ho _ h
  cases hk

theorem not_onlyShort_cons {e : IoEv} {l : List IoEv} (he : ∀ k, e ≠ .short k) : ¬ OnlyShort (e :: l) := by
  intro ho
  obtain ⟨k, hk⟩ := ho e (List.mem_cons_self)
  exact he k hk

/-- `read_exact` of `n` available bytes: delivers them, or fails with an ordinary error (which needs
    a non-`short` item in the schedule). -/
theorem readExactLoop_spec (fuel : Nat) : ∀ (n : Nat) (acc : Bytes) (s : Source),
    n ≤ s.data.length → IoEv.zero ∉ s.sched → n + s.sched.length < fuel →
    ∃ r s', readExactLoop fuel n acc s = (r, s') ∧ s'.sched <:+ s.sched ∧
      ((r = .ok (acc ++ s.data.take n) ∧ s'.data = s.data.drop n) ∨
       (r = .error .err ∧ ¬ OnlyShort s.sched)) := by
  induction fuel with
  | zero => intro n acc s _ _ hf; omega
  | succ fuel ih =>
    intro n acc s hn hz hf
    obtain ⟨data, sched⟩ := s
    simp only at hn hz hf
    unfold readExactLoop
    by_cases hn0 : n = 0
    · subst hn0
      exact ⟨.ok acc, ⟨data, sched⟩, by simp, List.suffix_refl _, .inl ⟨by simp, by simp⟩⟩
    · simp only [hn0, if_false]
      -- the generic "moved m bytes" step
      have step : ∀ (m : Nat) (rest : List IoEv), 1 ≤ m → m ≤ n → rest <:+ sched →
          rest.length ≤ sched.length →
          ∃ r s', (if (data.take m).isEmpty then ((.error .err, ⟨data.drop m, rest⟩) : R Bytes × Source)
              else readExactLoop fuel (n - (data.take m).length) (acc ++ data.take m) ⟨data.drop m, rest⟩) = (r, s') ∧
            s'.sched <:+ sched ∧
            ((r = .ok (acc ++ data.take n) ∧ s'.data = data.drop n) ∨
             (r = .error .err ∧ ¬ OnlyShort sched)) := by
        intro m rest hm1 hmn hsuf hlen
        have hne : (data.take m).isEmpty = false := by
          cases hd : data.take m with
          | nil =>
            have := congrArg List.length hd
            simp only [List.length_take, List.length_nil] at this; omega
          | cons a t => rfl
        have hlen' : (data.take m).length = m := by simp; omega
        rw [hne, hlen']
        simp only [Bool.false_eq_true, if_false]
        obtain ⟨r, s', he, hs', hcase⟩ := ih (n - m) (acc ++ data.take m) ⟨data.drop m, rest⟩
          (by simp; omega) (nozero_of_suffix hsuf hz) (by simp only; omega)
        refine ⟨r, s', he, hs'.trans hsuf, ?_⟩
        rcases hcase with ⟨rfl, hd⟩ | ⟨rfl, hb⟩
        · left
          refine ⟨?_, ?_⟩
          · simp only [List.append_assoc]
            congr 2
            have : n = m + (n - m) := by omega
            conv => rhs; rw [this, List.take_add]
          · simp only at hd
            rw [hd, List.drop_drop]
            congr 1; omega
        · right; exact ⟨rfl, bad_of_suffix hsuf hb⟩
      cases sched with
      | nil =>
        simp only [Source.read]
        exact step n [] (by omega) (Nat.le_refl _) (List.suffix_refl _) (Nat.le_refl _)
      | cons e rest =>
        cases e with
        | short k =>
          simp only [Source.read]
          exact step (min (max k 1) n) rest (by omega) (by omega) (List.suffix_cons _ _) (by simp)
        | interrupted =>
          simp only [Source.read]
          obtain ⟨r, s', he, hs', hcase⟩ := ih n acc ⟨data, rest⟩ hn
            (nozero_of_suffix (List.suffix_cons _ _) hz) (by simp at hf ⊢; omega)
          refine ⟨r, s', he, hs'.trans (List.suffix_cons _ _), ?_⟩
          rcases hcase with h | ⟨rfl, _⟩
          · exact .inl h
          · exact .inr ⟨rfl, not_onlyShort_cons (by intro k; simp)⟩
        | error =>
          simp only [Source.read]
          exact ⟨_, _, rfl, List.suffix_cons _ _, .inr ⟨rfl, not_onlyShort_cons (by intro k; simp)⟩⟩
        | zero => simp at hz

theorem readExact_spec (n : Nat) (s : Source) (hn : n ≤ s.data.length) (hz : IoEv.zero ∉ s.sched) :
    ∃ r s', readExact n s = (r, s') ∧ s'.sched <:+ s.sched ∧
      ((r = .ok (s.data.take n) ∧ s'.data = s.data.drop n) ∨
       (r = .error .err ∧ ¬ OnlyShort s.sched)) := by
  have := readExactLoop_spec (n + s.sched.length + 1) n [] s hn hz (by omega)
  simpa [readExact] using this

/-- `write_all`: everything is appended, or an ordinary error with a prefix appended. -/
theorem writeAllLoop_spec (fuel : Nat) : ∀ (buf : Bytes) (k : Sink),
    buf.length + k.sched.length < fuel →
    ∃ r k', writeAllLoop fuel buf k = (r, k') ∧ k'.sched <:+ k.sched ∧
      ((r = .ok () ∧ k'.out = k.out ++ buf) ∨
       (r = .error .err ∧ ¬ OnlyShort k.sched ∧ ∃ p, p <+: buf ∧ k'.out = k.out ++ p)) := by
  induction fuel with
  | zero => intro buf k hf; omega
  | succ fuel ih =>
    intro buf k hf
    obtain ⟨out, sched⟩ := k
    simp only at hf
    unfold writeAllLoop
    cases hb : buf with
    | nil => exact ⟨_, _, by simp, List.suffix_refl _, .inl ⟨rfl, by simp⟩⟩
    | cons b0 bt =>
      rw [← hb]
      have hbe : buf.isEmpty = false := by rw [hb]; rfl
      have hbl : 1 ≤ buf.length := by rw [hb]; simp
      simp only [hbe, Bool.false_eq_true, if_false]
      have step : ∀ (m : Nat) (rest : List IoEv), 1 ≤ m → m ≤ buf.length → rest <:+ sched →
          rest.length ≤ sched.length →
          ∃ r k', (if m = 0 then ((.error .err, ⟨out ++ buf.take m, rest⟩) : R Unit × Sink)
              else writeAllLoop fuel (buf.drop m) ⟨out ++ buf.take m, rest⟩) = (r, k') ∧
            k'.sched <:+ sched ∧
            ((r = .ok () ∧ k'.out = out ++ buf) ∨
             (r = .error .err ∧ ¬ OnlyShort sched ∧ ∃ p, p <+: buf ∧ k'.out = out ++ p)) := by
        intro m rest hm1 hmn hsuf hlen
        have hm0 : m ≠ 0 := by omega
        simp only [hm0, if_false]
        obtain ⟨r, k', he, hk', hcase⟩ := ih (buf.drop m) ⟨out ++ buf.take m, rest⟩
          (by simp only [List.length_drop]; omega)
        refine ⟨r, k', he, hk'.trans hsuf, ?_⟩
        rcases hcase with ⟨rfl, ho⟩ | ⟨rfl, hbad, p, hp, ho⟩
        · left
          refine ⟨rfl, ?_⟩
          simp only at ho
          rw [ho, List.append_assoc, List.take_append_drop]
        · right
          refine ⟨rfl, bad_of_suffix hsuf hbad, buf.take m ++ p, ?_, ?_⟩
          · obtain ⟨t, ht⟩ := hp
            refine ⟨t, ?_⟩
            rw [List.append_assoc, ht, List.take_append_drop]
          · simp only at ho
            rw [ho, List.append_assoc]
      cases sched with
      | nil =>
        simp only [Sink.write]
        have := step buf.length [] hbl (Nat.le_refl _) (List.suffix_refl _) (Nat.le_refl _)
        simpa using this
      | cons e rest =>
        cases e with
        | short n =>
          simp only [Sink.write]
          exact step (min (max n 1) buf.length) rest (by omega) (by omega) (List.suffix_cons _ _) (by simp)
        | interrupted =>
          simp only [Sink.write]
          obtain ⟨r, k', he, hk', hcase⟩ := ih buf ⟨out, rest⟩ (by simp at hf ⊢; omega)
          refine ⟨r, k', he, hk'.trans (List.suffix_cons _ _), ?_⟩
          rcases hcase with h | ⟨rfl, _, h⟩
          · exact .inl h
          · exact .inr ⟨rfl, not_onlyShort_cons (by intro k; simp), h⟩
        | error =>
          simp only [Sink.write]
          exact ⟨_, _, rfl, List.suffix_cons _ _,
            .inr ⟨rfl, not_onlyShort_cons (by intro k; simp), [], List.nil_prefix, by simp⟩⟩
        | zero =>
          simp only [Sink.write]
          exact ⟨_, _, rfl, List.suffix_cons _ _,
            .inr ⟨rfl, not_onlyShort_cons (by intro k; simp), [], List.nil_prefix, by simp⟩⟩

theorem writeAll_spec (buf : Bytes) (k : Sink) :
    ∃ r k', writeAll buf k = (r, k') ∧ k'.sched <:+ k.sched ∧
      ((r = .ok () ∧ k'.out = k.out ++ buf) ∨
       (r = .error .err ∧ ¬ OnlyShort k.sched ∧ ∃ p, p <+: buf ∧ k'.out = k.out ++ p)) :=
  writeAllLoop_spec _ buf k (by omega)

end Preflate.Proofs
