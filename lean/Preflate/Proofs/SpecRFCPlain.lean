/-
C03 (RFC reading): where the two readings of the header coincide, `SpecRFC` is `Spec`.

* a block that is not dynamic is read by the same code (`rfc_readBlock_eq_of_mode`, in `SpecRFCParse`);
* a dynamic block the library accepts, whose items read the same under both readings, is accepted by
  `SpecRFC` with the same result (`rfc_readBlock_of_ok`);
* a dynamic block `SpecRFC` accepts, whose items read the same and whose two codes are complete, is
  accepted by the library with the same result (`readBlock_of_rfc_ok`).
-/
import Preflate.Proofs.SpecRFCParse
namespace Preflate.Proofs.RFC
open Preflate SpecRFC Preflate.Proofs
set_option linter.unusedSimpArgs false

/-- the items of a dynamic block read the same under both readings: no repeat item follows a zero run
    with a different explicit length still pending, and no repeat item leads -/
def PlainItems : Block → Prop
  | .dynamic h _ => expandRFC h.items = some (expandItems h.items 0)
  | _ => True

/-- … and both codes are complete -/
def PlainComplete : Block → Prop
  | .dynamic h _ => expandRFC h.items = some (expandItems h.items 0) ∧
      validLengths ((expandItems h.items 0).take h.numLiterals) = true ∧
      validLengths ((expandItems h.items 0).drop h.numLiterals) = true
  | _ => True

theorem tableFor_of_valid {isDist : Bool} {l : List Nat} (hv : validLengths l = true)
    (h256 : isDist = false → l.getD 256 0 ≠ 0) : tableFor isDist l = some (codeTable l) := by
  unfold tableFor
  have hall : l.all (· ≤ 15) = true := by
    simp only [List.all_eq_true, decide_eq_true_eq]
    exact all_le_of_valid hv
  rw [if_neg (by simp only [hall, not_true_eq_false, not_false_eq_true]),
    if_neg (fun h => h256 h.1 h.2), if_pos (kraft_of_valid hv)]

theorem decodeSym_mem {t : List (Bits × Nat)} {bs : Bits} {s : Nat} {rest : Bits}
    (h : decodeSym t bs = .ok (s, rest)) : ∃ c, (c, s) ∈ t := by
  unfold decodeSym at h
  split at h
  · rename_i c s' hf
    simp only [Except.ok.injEq, Prod.mk.injEq] at h
    obtain ⟨rfl, _⟩ := h
    exact ⟨c, List.mem_of_find?_eq_some hf⟩
  · simp at h

/-- a block that was decoded ended with symbol 256, which therefore has a code -/
theorem decodeTokens_has_eob (ll : List Nat) (dt : List (Bits × Nat)) :
    ∀ (fuel : Nat) (plain : Array Nat) (bs : Bits) (X : List Token × Array Nat × Bits),
    decodeTokens (codeTable ll) dt fuel plain bs = .ok X → ll.getD 256 0 ≠ 0 := by
  intro fuel
  induction fuel with
  | zero => intro plain bs X h; simp [decodeTokens] at h
  | succ fuel ih =>
    intro plain bs X h
    rw [decodeTokens] at h
    have hg : ¬ plain.size > PLAIN_LIMIT := fun hc => by rw [if_pos hc] at h; cases h
    rw [if_neg hg] at h
    simp only [bind_eq_ok] at h
    obtain ⟨⟨sym, bs1⟩, h1, h⟩ := h
    simp only at h
    split at h
    · simp only [bind_eq_ok] at h
      obtain ⟨⟨ts2, pl2, bs2⟩, h2, h⟩ := h
      exact ih _ _ _ h2
    · split at h
      · rename_i _ hs2
        subst hs2
        obtain ⟨c, hc⟩ := decodeSym_mem h1
        exact (mem_codeTable hc).2.2
      · split at h
        · simp only [throw_bind_eq_ok] at h
        · simp only [bind_eq_ok] at h
          obtain ⟨⟨ex, bs2⟩, h2, ⟨dcode, bs3⟩, h3, h⟩ := h
          simp only at h3 h
          split at h
          · simp only [throw_bind_eq_ok] at h
          · simp only [bind_eq_ok] at h
            obtain ⟨⟨dx, bs4⟩, h4, h⟩ := h
            simp only at h
            split at h
            · simp only [throw_bind_eq_ok] at h
            · simp only [bind_eq_ok] at h
              obtain ⟨⟨ts2, pl2, bs5⟩, h5, h⟩ := h
              exact ih _ _ _ h5

theorem litDistRFC_of_plain {hd : Header}
    (hp : expandRFC hd.items = some (expandItems hd.items 0)) :
    SpecRFC.litDistLengths hd =
      if hd.numLiterals ≤ (expandItems hd.items 0).length then
        .ok ((expandItems hd.items 0).take hd.numLiterals, (expandItems hd.items 0).drop hd.numLiterals)
      else .error .err := by
  simp only [SpecRFC.litDistLengths, hp, optR, ok_bind]

/-- library accepts, items plain ⇒ `SpecRFC` accepts with the same result -/
theorem rfc_readBlock_of_ok (plain : Array Nat) (bs : Bits) (last : Bool) (b : Block)
    (pl : Array Nat) (rest : Bits) (h : readBlock plain bs = .ok (last, b, pl, rest))
    (hb : PlainItems b) : SpecRFC.readBlock plain bs = .ok (last, b, pl, rest) := by
  cases h1 : readBits 1 bs with
  | error e => simp [readBlock, h1, bind, Except.bind] at h
  | ok p1 =>
  obtain ⟨l, bs1⟩ := p1
  cases h2 : readBits 2 bs1 with
  | error e => simp [readBlock, h1, h2, bind, Except.bind] at h
  | ok p2 =>
  obtain ⟨m, bs2⟩ := p2
  by_cases hm : m ≠ 2
  · have hm' : ∀ l' bs1' m' bs2', readBits 1 bs = .ok (l', bs1') → readBits 2 bs1' = .ok (m', bs2') →
        m' ≠ 2 := by
      intro l' bs1' m' bs2' e1 e2
      rw [h1] at e1
      simp only [Except.ok.injEq, Prod.mk.injEq] at e1
      obtain ⟨rfl, rfl⟩ := e1
      rw [h2] at e2
      simp only [Except.ok.injEq, Prod.mk.injEq] at e2
      obtain ⟨rfl, rfl⟩ := e2
      exact hm
    rw [rfc_readBlock_eq_of_mode plain bs hm', h]
  · have hm : m = 2 := by omega
    subst hm
    rw [rfc_readBlock_unfold]
    rw [readBlock] at h
    simp only [h1, h2, ok_bind, show ¬ (2 = 0) by omega, show ¬ (2 = 1) by omega, if_false, if_true,
      bind_eq_ok] at h ⊢
    obtain ⟨⟨hd, bs3⟩, h3, ⟨ll, dl⟩, h4, lt, h5, dt, h6, ⟨ts, pl', bs4⟩, h7, h⟩ := h
    simp only [Except.ok.injEq, Prod.mk.injEq] at h4 h5 h6 h7 h
    obtain ⟨rfl, rfl, rfl, rfl⟩ := h
    simp only [PlainItems] at hb
    have hlen : hd.numLiterals ≤ (expandItems hd.items 0).length := by
      simp only [litDistLengths] at h4
      split at h4
      · assumption
      · simp at h4
    obtain ⟨rfl, rfl⟩ := litDist_ok h4
    obtain ⟨rfl, hvl⟩ := mkTable_valid h5
    obtain ⟨rfl, hvd⟩ := mkTable_valid h6
    have h256 := decodeTokens_has_eob _ _ _ _ _ _ h7
    refine ⟨(hd, bs3), h3, ((expandItems hd.items 0).take hd.numLiterals,
      (expandItems hd.items 0).drop hd.numLiterals), ?_,
      codeTable ((expandItems hd.items 0).take hd.numLiterals), ?_,
      codeTable ((expandItems hd.items 0).drop hd.numLiterals), ?_, (ts, pl', bs4), h7, rfl⟩
    · rw [litDistRFC_of_plain hb, if_pos hlen]
    · rw [tableFor_of_valid hvl (fun _ => h256)]; rfl
    · rw [tableFor_of_valid hvd (fun h => by cases h)]; rfl

/-- `SpecRFC` accepts, items plain and codes complete ⇒ the library accepts with the same result -/
theorem readBlock_of_rfc_ok (plain : Array Nat) (bs : Bits) (last : Bool) (b : Block)
    (pl : Array Nat) (rest : Bits) (h : SpecRFC.readBlock plain bs = .ok (last, b, pl, rest))
    (hb : PlainComplete b) : readBlock plain bs = .ok (last, b, pl, rest) := by
  cases h1 : readBits 1 bs with
  | error e => simp [rfc_readBlock_unfold, h1, bind, Except.bind] at h
  | ok p1 =>
  obtain ⟨l, bs1⟩ := p1
  cases h2 : readBits 2 bs1 with
  | error e => simp [rfc_readBlock_unfold, h1, h2, bind, Except.bind] at h
  | ok p2 =>
  obtain ⟨m, bs2⟩ := p2
  by_cases hm : m ≠ 2
  · have hm' : ∀ l' bs1' m' bs2', readBits 1 bs = .ok (l', bs1') → readBits 2 bs1' = .ok (m', bs2') →
        m' ≠ 2 := by
      intro l' bs1' m' bs2' e1 e2
      rw [h1] at e1
      simp only [Except.ok.injEq, Prod.mk.injEq] at e1
      obtain ⟨rfl, rfl⟩ := e1
      rw [h2] at e2
      simp only [Except.ok.injEq, Prod.mk.injEq] at e2
      obtain ⟨rfl, rfl⟩ := e2
      exact hm
    rw [← rfc_readBlock_eq_of_mode plain bs hm', h]
  · have hm : m = 2 := by omega
    subst hm
    rw [rfc_readBlock_unfold] at h
    rw [readBlock]
    simp only [h1, h2, ok_bind, show ¬ (2 = 0) by omega, show ¬ (2 = 1) by omega, if_false, if_true,
      bind_eq_ok] at h ⊢
    obtain ⟨⟨hd, bs3⟩, h3, ⟨ll, dl⟩, h4, lt, h5, dt, h6, ⟨ts, pl', bs4⟩, h7, h⟩ := h
    simp only [Except.ok.injEq, Prod.mk.injEq] at h4 h5 h6 h7 h
    obtain ⟨rfl, rfl, rfl, rfl⟩ := h
    simp only [PlainComplete] at hb
    obtain ⟨hp, hvl, hvd⟩ := hb
    rw [litDistRFC_of_plain hp] at h4
    split at h4
    · rename_i hlen
      simp only [Except.ok.injEq, Prod.mk.injEq] at h4
      obtain ⟨rfl, rfl⟩ := h4
      have h5 := optR_ok h5
      have h6 := optR_ok h6
      have h256 := (tableFor_some h5).1
      rw [tableFor_of_valid hvl h256] at h5
      rw [tableFor_of_valid hvd (fun h => by cases h)] at h6
      simp only [Option.some.injEq] at h5 h6
      subst h5 h6
      refine ⟨(hd, bs3), h3, ((expandItems hd.items 0).take hd.numLiterals,
      (expandItems hd.items 0).drop hd.numLiterals), ?_,
      codeTable ((expandItems hd.items 0).take hd.numLiterals), ?_,
      codeTable ((expandItems hd.items 0).drop hd.numLiterals), ?_, (ts, pl', bs4), h7, rfl⟩
      · simp only [litDistLengths, if_pos hlen]
      · simp only [mkTable, hvl, if_true]
      · simp only [mkTable, hvd, if_true]
    · simp at h4

theorem rfc_readBlocks_of_ok : ∀ (fuel : Nat) (plain : Array Nat) (bs : Bits) (blocks : List Block)
    (pl : Array Nat) (rest : Bits), readBlocks fuel plain bs = .ok (blocks, pl, rest) →
    (∀ b ∈ blocks, PlainItems b) → SpecRFC.readBlocks fuel plain bs = .ok (blocks, pl, rest) := by
  intro fuel
  induction fuel with
  | zero => intro plain bs blocks pl rest h; simp [readBlocks] at h
  | succ fuel ih =>
    intro plain bs blocks pl rest h hb
    rw [readBlocks] at h
    rw [SpecRFC.readBlocks]
    simp only [bind_eq_ok] at h ⊢
    obtain ⟨⟨last, b, pl1, bs1⟩, h1, h⟩ := h
    simp only at h
    split at h
    · rename_i hl
      simp only [Except.ok.injEq, Prod.mk.injEq] at h
      obtain ⟨rfl, rfl, rfl⟩ := h
      refine ⟨_, rfc_readBlock_of_ok _ _ _ _ _ _ h1 (hb b (by simp)), ?_⟩
      simp only [if_pos hl]
    · rename_i hl
      simp only [bind_eq_ok] at h
      obtain ⟨⟨r, pl2, bs2⟩, h2, h⟩ := h
      simp only [Except.ok.injEq, Prod.mk.injEq] at h
      obtain ⟨rfl, rfl, rfl⟩ := h
      refine ⟨_, rfc_readBlock_of_ok _ _ _ _ _ _ h1 (hb b (by simp)), ?_⟩
      simp only [if_neg hl, bind_eq_ok]
      exact ⟨_, ih _ _ _ _ _ h2 (fun x hx => hb x (by simp [hx])), rfl⟩

theorem readBlocks_of_rfc_ok : ∀ (fuel : Nat) (plain : Array Nat) (bs : Bits) (blocks : List Block)
    (pl : Array Nat) (rest : Bits), SpecRFC.readBlocks fuel plain bs = .ok (blocks, pl, rest) →
    (∀ b ∈ blocks, PlainComplete b) → readBlocks fuel plain bs = .ok (blocks, pl, rest) := by
  intro fuel
  induction fuel with
  | zero => intro plain bs blocks pl rest h; simp [SpecRFC.readBlocks] at h
  | succ fuel ih =>
    intro plain bs blocks pl rest h hb
    rw [SpecRFC.readBlocks] at h
    rw [readBlocks]
    simp only [bind_eq_ok] at h ⊢
    obtain ⟨⟨last, b, pl1, bs1⟩, h1, h⟩ := h
    simp only at h
    split at h
    · rename_i hl
      simp only [Except.ok.injEq, Prod.mk.injEq] at h
      obtain ⟨rfl, rfl, rfl⟩ := h
      refine ⟨_, readBlock_of_rfc_ok _ _ _ _ _ _ h1 (hb b (by simp)), ?_⟩
      simp only [if_pos hl]
    · rename_i hl
      simp only [bind_eq_ok] at h
      obtain ⟨⟨r, pl2, bs2⟩, h2, h⟩ := h
      simp only [Except.ok.injEq, Prod.mk.injEq] at h
      obtain ⟨rfl, rfl, rfl⟩ := h
      refine ⟨_, readBlock_of_rfc_ok _ _ _ _ _ _ h1 (hb b (by simp)), ?_⟩
      simp only [if_neg hl, bind_eq_ok]
      exact ⟨_, ih _ _ _ _ _ h2 (fun x hx => hb x (by simp [hx])), rfl⟩

theorem rfc_parseBits_of_ok (bs : Bits) (p : Parsed) (h : parseBits bs = .ok p)
    (hb : ∀ b ∈ p.blocks, PlainItems b) : SpecRFC.parseBits bs = .ok p := by
  simp only [parseBits, SpecRFC.parseBits, bind_eq_ok] at h ⊢
  obtain ⟨⟨blocks, plain, bs1⟩, h1, ⟨pad, bs2⟩, h2, h⟩ := h
  simp only [Except.ok.injEq] at h
  subst h
  exact ⟨_, rfc_readBlocks_of_ok _ _ _ _ _ _ h1 hb, _, h2, rfl⟩

theorem parseBits_of_rfc_ok (bs : Bits) (p : Parsed) (h : SpecRFC.parseBits bs = .ok p)
    (hb : ∀ b ∈ p.blocks, PlainComplete b) : parseBits bs = .ok p := by
  simp only [parseBits, SpecRFC.parseBits, bind_eq_ok] at h ⊢
  obtain ⟨⟨blocks, plain, bs1⟩, h1, ⟨pad, bs2⟩, h2, h⟩ := h
  simp only [Except.ok.injEq] at h
  subst h
  exact ⟨_, readBlocks_of_rfc_ok _ _ _ _ _ _ h1 hb, _, h2, rfl⟩

end Preflate.Proofs.RFC
