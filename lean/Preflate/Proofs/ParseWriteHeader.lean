/-
Completeness direction of C07, dynamic headers: `readHeader (writeHeader h ++ rest) = (h, rest)` for
every header that is `HeaderValid` and `HeaderCoded`.
-/
import Preflate.Proofs.ParseWriteBase
namespace Preflate.Proofs
open Preflate Preflate.Gen
set_option linter.unusedSimpArgs false
set_option linter.unusedVariables false

-- ---------------------------------------------------------------------------------------------
-- code length code lengths

/-- what `readCodeLengths` computes from the bits `writeCodeLengths cl` emits -/
def setOrder (cl : List Nat) : Nat → Nat → List Nat → List Nat
  | 0, _, acc => acc
  | n + 1, i, acc =>
      setOrder cl n (i + 1)
        (acc.set (TREE_CODE_ORDER_TABLE.getD i 0) (cl.getD (TREE_CODE_ORDER_TABLE.getD i 0) 0))

theorem getD_mem {l : List Nat} {i : Nat} (h : i < l.length) : l.getD i 0 ∈ l := by
  simp [List.getD, List.getElem?_eq_getElem h]

theorem getElem?_getD {l : List Nat} {i : Nat} (h : i < l.length) : l[i]? = some (l.getD i 0) := by
  simp [List.getD, List.getElem?_eq_getElem h]

theorem writeCodeLengths_read {cl : List Nat} (hlen : cl.length = 19) (hs : ∀ x ∈ cl, x < 8) :
    ∀ (n i : Nat), i + n ≤ 19 → ∃ w, writeCodeLengths cl n i = .ok w ∧ w.length = 3 * n ∧
      ∀ acc rest, readCodeLengths n i acc (w ++ rest) = .ok (setOrder cl n i acc, rest) := by
  intro n
  induction n with
  | zero => intro i _; exact ⟨[], rfl, rfl, fun _ _ => rfl⟩
  | succ n ih =>
    intro i hi
    obtain ⟨w, hw, hl, hr⟩ := ih (i + 1) (by omega)
    have ho := order_lt i (by omega)
    have hv : cl.getD (TREE_CODE_ORDER_TABLE.getD i 0) 0 < 2 ^ 3 :=
      hs _ (getD_mem (by omega))
    refine ⟨bitsOfNat 3 (cl.getD (TREE_CODE_ORDER_TABLE.getD i 0) 0) ++ w, ?_, ?_, ?_⟩
    · simp only [writeCodeLengths]
      rw [idx_ok _ _ _ (by rw [order_length]; omega)]
      simp only [ok_bind]
      rw [idx_ok _ _ _ (by omega)]
      simp only [ok_bind, emit_ok _ hv, hw]
    · simp only [List.length_append, length_bitsOfNat, hl]; omega
    · intro acc rest
      simp only [readCodeLengths, List.append_assoc, readBits_app hv, ok_bind, hr, setOrder]

theorem setOrder_spec (cl : List Nat) : ∀ (n i : Nat) (acc : List Nat), acc.length = 19 → i + n ≤ 19 →
    (setOrder cl n i acc).length = 19 ∧
    (∀ j, i ≤ j → j < i + n → (setOrder cl n i acc)[TREE_CODE_ORDER_TABLE.getD j 0]? =
      some (cl.getD (TREE_CODE_ORDER_TABLE.getD j 0) 0)) ∧
    (∀ p, (∀ j, i ≤ j → j < i + n → TREE_CODE_ORDER_TABLE.getD j 0 ≠ p) →
      (setOrder cl n i acc)[p]? = acc[p]?) := by
  intro n
  induction n with
  | zero =>
    intro i acc hacc _
    exact ⟨hacc, fun j h1 h2 => by omega, fun _ _ => rfl⟩
  | succ n ih =>
    intro i acc hacc hi
    rw [setOrder]
    obtain ⟨a, b, c⟩ := ih (i + 1) (acc.set (TREE_CODE_ORDER_TABLE.getD i 0)
      (cl.getD (TREE_CODE_ORDER_TABLE.getD i 0) 0)) (by simpa using hacc) (by omega)
    have ho := order_lt i (by omega)
    refine ⟨a, ?_, ?_⟩
    · intro j h1 h2
      by_cases hj : j = i
      · subst hj
        rw [c _ (fun j' hj1 hj2 hj => by
          have := order_inj j' j (by omega) (by omega) hj; omega)]
        rw [List.getElem?_set_self (by omega)]
      · exact b j (by omega) (by omega)
    · intro p hp
      rw [c p (fun j h1 h2 => hp j (by omega) (by omega))]
      rw [List.getElem?_set_ne (hp i (by omega) (by omega))]

theorem order_surj (p : Nat) (hp : p < 19) : ∃ j, j < 19 ∧ TREE_CODE_ORDER_TABLE.getD j 0 = p := by
  have := all_range (n := 19) (p := fun p => (List.range 19).any fun j =>
      decide (TREE_CODE_ORDER_TABLE.getD j 0 = p)) (by decide +kernel) p hp
  simp only [List.any_eq_true, List.mem_range, decide_eq_true_eq] at this
  exact this

theorem setOrder_eq {h : Header} (hv : HeaderValid h) :
    setOrder h.codeLengths h.numCodeLengths 0 (List.replicate 19 0) = h.codeLengths := by
  obtain ⟨a, b, c⟩ := setOrder_spec h.codeLengths h.numCodeLengths 0 (List.replicate 19 0)
    (by simp) (by have := hv.cl_hi; omega)
  apply List.ext_getElem?
  intro p
  by_cases hp : p < 19
  · obtain ⟨j, hj, rfl⟩ := order_surj p hp
    have hcl : h.codeLengths[TREE_CODE_ORDER_TABLE.getD j 0]? =
        some (h.codeLengths.getD (TREE_CODE_ORDER_TABLE.getD j 0) 0) :=
      getElem?_getD (by rw [hv.cl_len]; exact hp)
    by_cases hjn : j < h.numCodeLengths
    · rw [b j (by omega) (by omega), hcl]
    · rw [c _ (fun j' h1 h2 hj' => by
        have := order_inj j' j (by have := hv.cl_hi; omega) hj hj'; omega)]
      rw [hcl, hv.cl_unused j (by omega) hj]
      rw [List.getElem?_replicate, if_pos hp]
  · rw [List.getElem?_eq_none (by omega), List.getElem?_eq_none (by rw [hv.cl_len]; omega)]

-- ---------------------------------------------------------------------------------------------
-- run-length items

theorem writeRleItems_read {cl : List Nat} (hv : validLengths cl = true) :
    ∀ (items : List RleItem) (read total : Nat),
    (∀ it ∈ items,
      (it.kind = 0 ∧ it.data ≤ 15) ∨ (it.kind = 16 ∧ 3 ≤ it.data ∧ it.data ≤ 6) ∨
      (it.kind = 17 ∧ 3 ≤ it.data ∧ it.data ≤ 10) ∨ (it.kind = 18 ∧ 11 ≤ it.data ∧ it.data ≤ 138)) →
    (∀ it ∈ items, cl.getD (itemSym it) 0 ≠ 0) →
    read + (items.map itemSpan).sum = total →
    ∃ w, writeRleItems cl items = .ok w ∧ w.length = (items.map (itemBits cl)).sum ∧
      items.length ≤ w.length ∧
      ∀ rest fuel, w.length < fuel →
        readRleItems (codeTable cl) total fuel read (w ++ rest) = .ok (items, rest) := by
  intro items
  induction items with
  | nil =>
    intro read total _ _ hsum
    refine ⟨[], rfl, rfl, Nat.le_refl _, ?_⟩
    intro rest fuel hf
    obtain ⟨f, rfl⟩ : ∃ f, fuel = f + 1 := ⟨fuel - 1, by simp at hf; omega⟩
    have : read = total := by simpa using hsum
    subst this
    simp [readRleItems]
  | cons it items ih =>
    intro read total hk hc hsum
    obtain ⟨k, d⟩ := it
    have hk0 := hk ⟨k, d⟩ (by simp)
    have hc0 := hc ⟨k, d⟩ (by simp)
    simp only [List.map_cons, List.sum_cons] at hsum
    obtain ⟨w, hw, hl, hn, hr⟩ := ih (read + itemSpan ⟨k, d⟩) total
      (fun it hit => hk it (List.mem_cons_of_mem _ hit))
      (fun it hit => hc it (List.mem_cons_of_mem _ hit)) (by omega)
    simp only at hk0
    have hcl := codeBits_length cl
    rcases hk0 with ⟨rfl, hd⟩ | hk0
    · -- a code length
      simp only [itemSym, if_true] at hc0
      have hdl := lt_length_of_getD_ne hc0
      have hspan : itemSpan ⟨0, d⟩ = 1 := rfl
      rw [hspan] at hr hsum
      refine ⟨codeBits cl d ++ w, ?_, ?_, ?_, ?_⟩
      · simp only [writeRleItems, if_true, hdl, ok_bind, hw]
      · simp [itemBits, itemSym, hcl, hl]
      · simp only [List.length_append, List.length_cons, hcl]; omega
      · intro rest fuel hf
        simp only [List.length_append, hcl] at hf
        obtain ⟨f, rfl⟩ : ∃ f, fuel = f + 1 := ⟨fuel - 1, by omega⟩
        rw [readRleItems, if_pos (by omega)]
        simp only [List.append_assoc, decodeSym_code hv hc0, ok_bind, if_pos hd,
          hr rest f (by omega)]
    · -- a repeat item
      have hkk : k = 16 ∨ k = 17 ∨ k = 18 := by omega
      have hkne : ¬ k = 0 := by omega
      simp only [itemSym, if_neg hkne] at hc0
      have hkl := lt_length_of_getD_ne hc0
      have hspan : itemSpan ⟨k, d⟩ = d := by simp [itemSpan, hkne]
      rw [hspan] at hr hsum
      have hadj : (treeCodeAdjust k).1 ≤ d ∧ d - (treeCodeAdjust k).1 < 2 ^ (treeCodeAdjust k).2 := by
        rcases hk0 with ⟨rfl, h1, h2⟩ | ⟨rfl, h1, h2⟩ | ⟨rfl, h1, h2⟩
        · have e : treeCodeAdjust 16 = (3, 2) := rfl
          rw [e]; simp only; omega
        · have e : treeCodeAdjust 17 = (3, 3) := rfl
          rw [e]; simp only; omega
        · have e : treeCodeAdjust 18 = (11, 7) := rfl
          rw [e]; simp only; omega
      obtain ⟨ha1, ha2⟩ := hadj
      refine ⟨codeBits cl k ++ bitsOfNat (treeCodeAdjust k).2 (d - (treeCodeAdjust k).1) ++ w,
        ?_, ?_, ?_, ?_⟩
      · have hlt : ¬ (d < (treeCodeAdjust k).1) := by omega
        simp only [writeRleItems, hkne, if_false, hkl, not_true, ok_bind, hlt, emit_ok _ ha2, hw,
          pure_bind]
      · simp [itemBits, itemSym, hkne, hcl, hl]; omega
      · simp only [List.length_append, List.length_cons, hcl]; omega
      · intro rest fuel hf
        simp only [List.length_append, hcl] at hf
        obtain ⟨f, rfl⟩ : ∃ f, fuel = f + 1 := ⟨fuel - 1, by omega⟩
        have hd3 : 1 ≤ d := by omega
        rw [readRleItems, if_pos (by omega)]
        have e : d - (treeCodeAdjust k).1 + (treeCodeAdjust k).1 = d := by omega
        simp only [List.append_assoc, decodeSym_code hv hc0, ok_bind,
          if_neg (show ¬ k ≤ 15 by omega), if_pos (show k ≤ 18 by omega), readBits_app ha2, e,
          hr rest f (by omega)]

-- ---------------------------------------------------------------------------------------------
-- the header

theorem expandItems_length : ∀ (items : List RleItem) (prev : Nat),
    (expandItems items prev).length = (items.map itemSpan).sum := by
  intro items
  induction items with
  | nil => intro _; rfl
  | cons it items ih =>
    intro prev
    obtain ⟨k, d⟩ := it
    simp only [expandItems, List.map_cons, List.sum_cons, itemSpan]
    split
    · simp [ih]; omega
    · split <;> simp [ih]

theorem litDistLengths_eq {h : Header} (hv : HeaderValid h) :
    litDistLengths h = .ok (litLens h, distLens h) := by
  have : h.numLiterals ≤ (expandItems h.items 0).length := by
    rw [expandItems_length, hv.items_sum]; omega
  simp only [litDistLengths, this, if_true, litLens, distLens]

theorem writeHeader_read {h : Header} (hv : HeaderValid h) (hc : HeaderCoded h) :
    ∃ w, writeHeader h = .ok w ∧ w.length = headerBits h ∧
      ∀ rest, readHeader (w ++ rest) = .ok (h, rest) := by
  obtain ⟨numLit, numDist, numCl, cl, items⟩ := h
  have h1 := hv.lit_lo; have h2 := hv.lit_hi; have h3 := hv.dist_lo; have h4 := hv.dist_hi
  have h5 := hv.cl_lo; have h6 := hv.cl_hi
  simp only at h1 h2 h3 h4 h5 h6
  obtain ⟨w4, hw4, hl4, hr4⟩ := writeCodeLengths_read hv.cl_len hv.cl_small numCl 0 (by omega)
  obtain ⟨w6, hw6, hl6, _, hr6⟩ := writeRleItems_read hc.cl_valid items 0 (numLit + numDist)
    hv.items_kind hc.items_coded (by simpa using hv.items_sum)
  have p5 : (2:Nat) ^ 5 = 32 := by decide
  have p4 : (2:Nat) ^ 4 = 16 := by decide
  have ha : numLit - 257 < 2 ^ 5 := by omega
  have hb : numDist - 1 < 2 ^ 5 := by omega
  have hcc : numCl - 4 < 2 ^ 4 := by omega
  simp only at hw4 hw6 hr4 hr6
  refine ⟨bitsOfNat 5 (numLit - 257) ++ bitsOfNat 5 (numDist - 1) ++ bitsOfNat 4 (numCl - 4) ++ w4
    ++ w6, ?_, ?_, ?_⟩
  · have n1 : ¬ (numLit < 257) := by omega
    have n2 : ¬ (numDist < 1) := by omega
    have n3 : ¬ (numCl < 4) := by omega
    simp only [writeHeader, n1, n2, n3, if_false, pure_bind, emit_ok _ ha, emit_ok _ hb,
      emit_ok _ hcc, ok_bind, hw4, hw6]
  · simp only [List.length_append, length_bitsOfNat, hl4, hl6, headerBits]
  · intro rest
    have hso := setOrder_eq hv
    simp only at hso
    have hmk : mkTable cl = .ok (codeTable cl) := by
      have := hc.cl_valid
      simp only at this
      simp [mkTable, this]
    have e1 : numLit - 257 + 257 = numLit := by omega
    have e2 : numDist - 1 + 1 = numDist := by omega
    have e3 : numCl - 4 + 4 = numCl := by omega
    simp only [readHeader, List.append_assoc, readBits_app ha, readBits_app hb, readBits_app hcc,
      ok_bind, e1, e2, e3, hr4, hso, hmk,
      hr6 rest ((w6 ++ rest).length + 1) (by simp only [List.length_append]; omega)]

end Preflate.Proofs
