/- The full parameter estimator terminates on EVERY input with one of finitely many outcomes:
   a parameter vector, `Err(PreflateError)`, or a panic at one of the enumerated sites — never
   `.error .fuel` (no hang).  Uses the `Post` predicate of Proofs/Total.lean. -/
import Preflate.Model.EstimatorFull
import Preflate.Proofs.Estimator
import Preflate.Proofs.Total
namespace Preflate.Proofs.EstTotal
open Preflate Preflate.Est

/-- every panic site reachable from `Est.estimate` (see the header of Proofs/EstimateTotal.lean) -/
def panicSites : List String :=
  [ "estimate_add_policy: subtract with overflow",
    "CompLevelEstimatorState::new: 1 << wbits does not fit u16",
    "internal_update_hash: debug_assert!(length <= chars.len())",
    "internal_update_hash: add with overflow",
    "internal_update_hash3: debug_assert!(length <= chars.len())",
    "update_hash: &input[length - 1..] out of range",
    "get_hash (3 byte secondary): index out of range",
    "match_depth (libdeflate): subtract with overflow",
    "match_depth: subtract with overflow",
    "get_hash: index out of range",
    "get_node_depth: debug_assert_eq!(chain_depth_hash_verify[node], expected_hash)",
    "match_depth: debug_assert!(cur_depth >= match_depth)",
    "advance: add with overflow",
    "advance: debug_assert!(pos <= data.len())",
    "recommend: subtract with overflow" ]

/-- the failures of the estimator: `Err`, or a panic at a listed site; not `.fuel` -/
def EOut (e : Fail) : Prop := e = .err ∨ ∃ s, s ∈ panicSites ∧ e = .panic s

abbrev Out {α : Type} (x : R α) : Prop := Post EOut (fun _ => True) x

macro "post_leaf" : tactic =>
  `(tactic| first
    | exact Post.ok _ trivial
    | exact Post.error _ (Or.inl rfl)
    | exact Post.error _ (Or.inr ⟨_, by simp [panicSites], rfl⟩))

theorem Out.bind {α β : Type} {x : R α} {f : α → R β} (hx : Out x) (hf : ∀ a, Out (f a)) : Out (x >>= f) :=
  Post.bind hx (fun _ h => h) (fun a _ => hf a)

theorem out_throw_bind {α β : Type} (e : Fail) (f : α → R β) (h : EOut e) : Out ((throw e : R α) >>= f) :=
  Post.error _ h

theorem getHash_out (hp : Params) (plain : Array Nat) (pos : Nat) : Out (getHash hp plain pos) := by
  unfold getHash; split <;> post_leaf

theorem getHash3_out (plain : Array Nat) (pos : Nat) : Out (getHash3 plain pos) := by
  unfold getHash3; split <;> post_leaf

theorem insertLoop_out (hashf : Nat → Nat) (length : Nat) : ∀ (n i pos : Nat) (head cd vf : Array Nat),
    length - i = n → Out (insertLoop hashf length i pos head cd vf) := by
  intro n
  induction n with
  | zero =>
    intro i pos head cd vf hn
    rw [insertLoop, if_neg (by omega)]
    post_leaf
  | succ n ih =>
    intro i pos head cd vf hn
    rw [insertLoop, if_pos (by omega)]
    simp only []
    split
    · post_leaf
    · exact ih _ _ _ _ _ (by omega)

theorem internalUpdate_out (hp : Params) (plain : Array Nat) (d : Depth) (pos length : Nat) :
    Out (d.internalUpdate hp plain pos length) := by
  unfold Depth.internalUpdate
  simp only []
  split
  · post_leaf
  · split
    · post_leaf
    · exact insertLoop_out _ _ _ _ _ _ _ _ rfl

theorem internalUpdate3_out (plain : Array Nat) (head3 : Array Nat) (pos length : Nat) :
    Out (internalUpdate3 plain head3 pos length) := by
  unfold internalUpdate3
  simp only []
  split
  · post_leaf
  · split <;> post_leaf

theorem policyUpdateR_out {σ : Type} (pol lim avail : Nat) (upd : σ → Nat → Nat → R σ)
    (hu : ∀ s p l, Out (upd s p l)) (s : σ) (pos length : Nat) :
    Out (policyUpdateR pol lim avail upd s pos length) := by
  unfold policyUpdateR
  split
  · exact hu _ _ _
  · split
    · exact hu _ _ _
    · split <;> exact hu _ _ _
    · split
      · exact hu _ _ _
      · refine Out.bind (hu _ _ _) (fun s1 => ?_)
        split
        · exact out_throw_bind _ _ (Or.inr ⟨_, by simp [panicSites], rfl⟩)
        · exact hu _ _ _
    · split
      · exact hu _ _ _
      · post_leaf
    · refine Out.bind (hu _ _ _) (fun s1 => ?_)
      split
      · split
        · exact out_throw_bind _ _ (Or.inr ⟨_, by simp [panicSites], rfl⟩)
        · exact hu _ _ _
      · post_leaf

theorem updateHash_out (plain : Array Nat) (pol lim : Nat) (c : Candidate) (pos length : Nat) :
    Out (c.updateHash plain pol lim pos length) := by
  unfold Candidate.updateHash
  simp only []
  split
  · refine policyUpdateR_out _ _ _ _ ?_ _ _ _
    intro ⟨hp, d, head3, l0, l1, mc⟩ p l
    simp only []
    refine Out.bind (internalUpdate_out ..) (fun d' => ?_)
    refine Out.bind (internalUpdate3_out ..) (fun h' => ?_)
    post_leaf
  · refine policyUpdateR_out _ _ _ _ ?_ _ _ _
    intro ⟨hp, d, head3, l0, l1, mc⟩ p l
    simp only []
    refine Out.bind (internalUpdate_out ..) (fun d' => ?_)
    post_leaf

theorem getNodeDepth_out (d : Depth) (node expected : Nat) : Out (d.getNodeDepth node expected) := by
  unfold Depth.getNodeDepth; split <;> post_leaf

theorem matchDepth_out (hp : Params) (plain : Array Nat) (d : Depth) (pos dist : Nat) :
    Out (d.matchDepth hp plain pos dist) := by
  unfold Depth.matchDepth
  split
  · exact out_throw_bind _ _ (Or.inr ⟨_, by simp [panicSites], rfl⟩)
  · refine Out.bind (getHash_out ..) (fun h => ?_)
    refine Out.bind (getNodeDepth_out ..) (fun cur => ?_)
    refine Out.bind (getNodeDepth_out ..) (fun m => ?_)
    split
    · exact out_throw_bind _ _ (Or.inr ⟨_, by simp [panicSites], rfl⟩)
    · post_leaf

theorem estimatorMatchDepth_out (plain : Array Nat) (c : Candidate) (pos len dist : Nat) :
    Out (c.estimatorMatchDepth plain pos len dist) := by
  unfold Candidate.estimatorMatchDepth
  split
  · refine Out.bind (getHash3_out ..) (fun h3 => ?_)
    simp only []
    split
    · exact out_throw_bind _ _ (Or.inr ⟨_, by simp [panicSites], rfl⟩)
    · split
      · post_leaf
      · split
        · post_leaf
        · refine Out.bind (matchDepth_out ..) (fun m => ?_)
          post_leaf
  · exact matchDepth_out ..

theorem cand_matchDepth_out (plain : Array Nat) (c : Candidate) (pos len dist : Nat) :
    Out (c.matchDepth plain pos len dist) := by
  unfold Candidate.matchDepth
  refine Out.bind (estimatorMatchDepth_out ..) (fun m => ?_)
  split
  · simp only []
    split <;> post_leaf
  · post_leaf

theorem retainCands_out (f : Candidate → R (Option Candidate)) (hf : ∀ c, Out (f c)) :
    ∀ cs, Out (retainCands f cs) := by
  intro cs
  induction cs with
  | nil => post_leaf
  | cons c cs ih =>
    simp only [retainCands]
    refine Out.bind (hf c) (fun r => ?_)
    refine Out.bind ih (fun rest => ?_)
    post_leaf

theorem updateCands_out (f : Candidate → R Candidate) (hf : ∀ c, Out (f c)) :
    ∀ cs, Out (updateCands f cs) := by
  intro cs
  induction cs with
  | nil => post_leaf
  | cons c cs ih =>
    simp only [updateCands]
    refine Out.bind (hf c) (fun r => ?_)
    refine Out.bind ih (fun rest => ?_)
    post_leaf

theorem updateCandidateHashes_out (plain : Array Nat) (pol lim : Nat) (s : CLState) (length : Nat) :
    Out (updateCandidateHashes plain pol lim s length) := by
  obtain ⟨pos, cands, rc, ur, mts, l3⟩ := s
  simp only [updateCandidateHashes]
  refine Out.bind (updateCands_out _ (fun c => updateHash_out ..) _) (fun cs => ?_)
  split
  · exact out_throw_bind _ _ (Or.inr ⟨_, by simp [panicSites], rfl⟩)
  · split
    · exact out_throw_bind _ _ (Or.inr ⟨_, by simp [panicSites], rfl⟩)
    · post_leaf

theorem checkMatch_out (plain : Array Nat) (s : CLState) (len dist : Nat) : Out (checkMatch plain s len dist) := by
  obtain ⟨pos, cands, rc, ur, mts, l3⟩ := s
  simp only [checkMatch]
  split
  · post_leaf
  · refine Out.bind (retainCands_out _ (fun c => cand_matchDepth_out ..) _) (fun cs => ?_)
    post_leaf

theorem dumpStored_out (plain : Array Nat) (pol lim : Nat) : ∀ (n : Nat) (s : CLState),
    Out (dumpStored plain pol lim s n) := by
  intro n
  induction n with
  | zero => intro s; post_leaf
  | succ n ih =>
    intro s
    simp only [dumpStored]
    exact Out.bind (updateCandidateHashes_out ..) (fun s1 => ih s1)

theorem dumpTokens_out (plain : Array Nat) (pol lim : Nat) : ∀ (ts : List Token) (s : CLState),
    Out (dumpTokens plain pol lim s ts) := by
  intro ts
  induction ts with
  | nil => intro s; post_leaf
  | cons t ts ih =>
    intro s
    cases t with
    | lit b =>
      simp only [dumpTokens]
      exact Out.bind (updateCandidateHashes_out ..) (fun s1 => ih s1)
    | ref len dist irr =>
      simp only [dumpTokens]
      refine Out.bind (checkMatch_out ..) (fun s0 => ?_)
      exact Out.bind (updateCandidateHashes_out ..) (fun s1 => ih s1)

theorem checkDump_out (plain : Array Nat) (pol lim : Nat) : ∀ (bs : List Block) (s : CLState),
    Out (checkDump plain pol lim s bs) := by
  intro bs
  induction bs with
  | nil => intro s; post_leaf
  | cons b bs ih =>
    intro s
    cases b with
    | stored pad data =>
      simp only [checkDump]
      exact Out.bind (dumpStored_out ..) (fun s1 => ih s1)
    | fixed ts =>
      simp only [checkDump]
      exact Out.bind (dumpTokens_out ..) (fun s1 => ih s1)
    | dynamic hd ts =>
      simp only [checkDump]
      exact Out.bind (dumpTokens_out ..) (fun s1 => ih s1)

theorem recommend_out (wsize pol : Nat) (s : CLState) : Out (recommend wsize pol s) := by
  unfold recommend
  split
  · post_leaf
  · simp only []
    split
    · post_leaf
    · split <;> post_leaf

theorem compLevel_out (wbits minLen : Nat) (plain : Array Nat) (pol lim : Nat) (blocks : List Block) :
    Out (compLevel wbits minLen plain pol lim blocks) := by
  unfold compLevel
  split
  · exact out_throw_bind _ _ (Or.inr ⟨_, by simp [panicSites], rfl⟩)
  · refine Out.bind (checkDump_out ..) (fun s => ?_)
    exact recommend_out ..

theorem front_out (blocks : List Block) : Out (Est.front blocks) := by
  rcases front_total blocks with ⟨f, h⟩ | h
  · rw [h]; post_leaf
  · rw [h]; post_leaf

theorem estimate_out (plain : Array Nat) (blocks : List Block) : Out (Est.estimate plain blocks) := by
  unfold Est.estimate
  refine Out.bind (front_out blocks) (fun f => ?_)
  split
  · post_leaf
  · simp only []
    refine Out.bind (compLevel_out ..) (fun cl => ?_)
    post_leaf

/-- **Outcomes of the estimator on EVERY input** (valid or not): a parameter vector,
    `Err(PreflateError)`, or a panic at one of the 15 enumerated sites. In particular never
    `.error .fuel`: the estimator has no unbounded loop. -/
theorem estimate_outcomes (plain : Array Nat) (blocks : List Block) :
    (∃ p, Est.estimate plain blocks = .ok p) ∨ Est.estimate plain blocks = .error .err ∨
    ∃ s, s ∈ panicSites ∧ Est.estimate plain blocks = .error (.panic s) := by
  have h := estimate_out plain blocks
  cases hx : Est.estimate plain blocks with
  | ok p => exact Or.inl ⟨p, rfl⟩
  | error e =>
    rw [hx] at h
    rcases Post.error_iff.mp h with he | ⟨s, hs, he⟩
    · exact Or.inr (Or.inl (by rw [he]))
    · exact Or.inr (Or.inr ⟨s, hs, by rw [he]⟩)

theorem estimate_no_fuel (plain : Array Nat) (blocks : List Block) :
    Est.estimate plain blocks ≠ .error .fuel := by
  rcases estimate_outcomes plain blocks with ⟨p, h⟩ | h | ⟨s, _, h⟩ <;> rw [h] <;> intro h' <;> cases h'

end Preflate.Proofs.EstTotal
