/- Helper lemmas for C02/C08: hops and the single-token mirror (token_predictor.rs). -/
import Preflate.Model.Valid
namespace Preflate.Proofs
open Preflate

variable {H : Type}

theorem bind_eq_ok {ε α β : Type} (x : Except ε α) (f : α → Except ε β) (b : β) :
    (x >>= f) = .ok b ↔ ∃ a, x = .ok a ∧ f a = .ok b := by
  cases x with
  | error e => simp [bind, Except.bind]
  | ok a => simp [bind, Except.bind]

/-- the two chain walks run in lock step -/
theorem hopsWalk_inv (plain : Array Nat) (pos maxDist len target : Nat)
    (hm : matchAt plain pos len target = true) :
    ∀ (cs : List Nat) (k mc h : Nat),
      hopsWalk plain pos maxDist len target cs k mc = .ok h →
      k + 1 ≤ h ∧ ∀ cur, hopMatchWalk plain pos maxDist len (h - k + cur) cs cur = .ok target := by
  intro cs
  induction cs with
  | nil => intro k mc h hh; simp [hopsWalk] at hh
  | cons d rest ih =>
    intro k mc h hh
    unfold hopsWalk at hh
    by_cases hd : d > maxDist
    · simp [hd] at hh
    · simp only [hd, if_false] at hh
      by_cases hge : d ≥ target
      · simp only [hge, if_true] at hh
        by_cases heq : d = target
        · subst heq
          simp only [hm, if_true] at hh
          injection hh with hh
          subst hh
          refine ⟨Nat.le_refl _, ?_⟩
          intro cur
          unfold hopMatchWalk
          simp only [hd, if_false, hm, if_true]
          have : cur + 1 = k + 1 - k + cur := by omega
          simp [this]
        · simp [heq] at hh
      · simp only [hge, if_false] at hh
        by_cases hmc : mc ≤ 1
        · simp [hmc] at hh
        · simp only [hmc, if_false] at hh
          by_cases hmd : matchAt plain pos len d = true
          · simp only [hmd, if_true] at hh
            obtain ⟨h1, h2⟩ := ih _ _ _ hh
            refine ⟨by omega, ?_⟩
            intro cur
            unfold hopMatchWalk
            simp only [hd, if_false, hmd, if_true]
            have hne : ¬ (cur + 1 = h - k + cur) := by omega
            simp only [hne, if_false]
            have := h2 (cur + 1)
            have e : h - (k + 1) + (cur + 1) = h - k + cur := by omega
            rw [e] at this
            exact this
          · simp only [hmd] at hh
            obtain ⟨h1, h2⟩ := ih _ _ _ hh
            refine ⟨h1, ?_⟩
            intro cur
            unfold hopMatchWalk
            simp only [hd, if_false, hmd]
            exact h2 cur

theorem hops_inv' (P : Pred H) (plain : Array Nat) (s : PState H) (len dist h : Nat)
    (hm : matchAt plain s.pos len dist = true)
    (hh : calcHops P plain s len dist = .ok h) :
    h ≠ 0 ∧ hopMatch P plain s len h = .ok dist := by
  unfold calcHops at hh
  unfold hopMatch
  by_cases hg : min (s.remaining plain) Gen.MAX_MATCH < len
  · simp [hg] at hh
  · simp only [hg, if_false] at hh ⊢
    obtain ⟨h1, h2⟩ := hopsWalk_inv plain s.pos _ len dist hm _ _ _ _ hh
    refine ⟨by omega, ?_⟩
    have := h2 0
    simpa using this

theorem decDiff_encDiff (p a : Nat) : decDiff p (encDiff p a) = .ok a := by
  unfold decDiff encDiff
  by_cases h : p ≥ a
  · simp only [h, if_true]
    have h1 : (p - a) * 2 % 2 = 0 := by omega
    have h2 : (p - a) * 2 / 2 = p - a := by omega
    have h3 : p - a ≤ p := by omega
    simp only [h1, h2, h3, if_true]
    congr 1; omega
  · simp only [h, if_false]
    have h1 : ¬ (((a - p) * 2 + 1) % 2 = 0) := by omega
    have h2 : ((a - p) * 2 + 1) / 2 = a - p := by omega
    simp only [h1, h2, if_false]
    congr 1; omega

@[simp] theorem popMis_cons (c : Nat) (f : Bool) (r : List Op) : popMis c (Op.mis c f :: r) = .ok (f, r) := by
  simp [popMis]
@[simp] theorem popCorr_cons (c v : Nat) (r : List Op) : popCorr c (Op.corr c v :: r) = .ok (v, r) := by
  simp [popCorr]
@[simp] theorem popValue_cons (c v : Nat) (r : List Op) : popValue c (Op.value c v :: r) = .ok (v, r) := by
  simp [popValue]


def encRefTail (P : Pred H) (plain : Array Nat) (ops0 : List Op) (plen pdist : Nat) (s2 : PState H)
    (len dist : Nat) (irr : Bool) : R (List Op × PState H) := do
  let ops1 := [Op.corr C_LEN (encDiff plen len)]
  let ops2 ←
    if plen ≠ len then do
      let h ← calcHops P plain s2 len dist
      pure [Op.corr C_DIST_AFTER_LEN h]
    else if dist ≠ pdist then do
      let h ← calcHops P plain s2 len dist
      pure [Op.corr C_DIST_ONLY h]
    else pure [Op.corr C_DIST_ONLY 0]
  let ops3 := if len = 258 then [Op.mis M_IRREGULAR258 irr] else []
  .ok (ops0 ++ ops1 ++ ops2 ++ ops3, commit P plain s2 (Token.ref len dist irr))

def decRefTail (P : Pred H) (plain : Array Nat) (plen pdist : Nat) (ops : List Op) (s2 : PState H) :
    R (Token × List Op × PState H) := do
  let (c, ops) ← popCorr C_LEN ops
  let newLen ← decDiff plen c
  let (len, dist, ops) ← (
    if newLen ≠ plen then do
      let (hops, ops) ← popCorr C_DIST_AFTER_LEN ops
      let d ← hopMatch P plain s2 newLen hops
      pure (newLen, d, ops)
    else do
      let (hops, ops) ← popCorr C_DIST_ONLY ops
      if hops ≠ 0 then do
        let d ← hopMatch P plain s2 plen hops
        pure (newLen, d, ops)
      else pure (plen, pdist, ops) : R (Nat × Nat × List Op))
  let (irr, ops) ← (if len = 258 then popMis M_IRREGULAR258 ops else pure (false, ops) : R (Bool × List Op))
  let t := Token.ref len dist irr
  .ok (t, ops, commit P plain s2 t)

theorem refTail_rt (P : Pred H) (plain : Array Nat) (ops0 : List Op) (plen pdist : Nat) (s2 : PState H)
    (len dist : Nat) (irr : Bool) (hm : matchAt plain s2.pos len dist = true)
    (hirr : irr = true → len = 258) (ops : List Op) (s' : PState H)
    (he : encRefTail P plain ops0 plen pdist s2 len dist irr = .ok (ops, s')) (rest : List Op) :
    ∃ ops', ops = ops0 ++ ops' ∧
      decRefTail P plain plen pdist (ops' ++ rest) s2 = .ok (Token.ref len dist irr, rest, s') := by
  unfold encRefTail at he
  unfold decRefTail
  have hirr' : len ≠ 258 → irr = false := by
    intro h; cases irr <;> simp_all
  by_cases h1 : plen ≠ len
  · rw [if_pos h1] at he
    simp only [bind_eq_ok] at he
    obtain ⟨h, hh, ops2, hops2, he⟩ := he
    obtain ⟨hne, hhm⟩ := hops_inv' P plain s2 len dist h hm hh
    simp [pure, Except.pure] at hops2 he
    obtain ⟨rfl, rfl⟩ := he
    subst hops2
    have h1' : len ≠ plen := fun h => h1 h.symm
    refine ⟨[Op.corr C_LEN (encDiff plen len)] ++ [Op.corr C_DIST_AFTER_LEN h] ++
      (if len = 258 then [Op.mis M_IRREGULAR258 irr] else []), by simp, ?_⟩
    by_cases h258 : len = 258
    · subst h258
      simp [bind, Except.bind, pure, Except.pure, decDiff_encDiff, h1', hhm]
    · simp [bind, Except.bind, pure, Except.pure, decDiff_encDiff, h1', hhm, h258, hirr' h258]
  · have h1' : plen = len := by simpa using h1
    subst h1'
    by_cases h2 : dist ≠ pdist
    · rw [if_neg h1, if_pos h2] at he
      simp only [bind_eq_ok] at he
      obtain ⟨h, hh, ops2, hops2, he⟩ := he
      obtain ⟨hne, hhm⟩ := hops_inv' P plain s2 plen dist h hm hh
      simp [pure, Except.pure] at hops2 he
      obtain ⟨rfl, rfl⟩ := he
      subst hops2
      refine ⟨[Op.corr C_LEN (encDiff plen plen)] ++ [Op.corr C_DIST_ONLY h] ++
        (if plen = 258 then [Op.mis M_IRREGULAR258 irr] else []), by simp, ?_⟩
      by_cases h258 : plen = 258
      · subst h258
        simp [bind, Except.bind, pure, Except.pure, decDiff_encDiff, hhm, hne]
      · simp [bind, Except.bind, pure, Except.pure, decDiff_encDiff, hhm, h258, hirr' h258, hne]
    · have h2' : dist = pdist := by simpa using h2
      subst h2'
      rw [if_neg h1, if_neg h2] at he
      simp [pure, Except.pure, bind, Except.bind] at he
      obtain ⟨rfl, rfl⟩ := he
      refine ⟨[Op.corr C_LEN (encDiff plen plen)] ++ [Op.corr C_DIST_ONLY 0] ++
        (if plen = 258 then [Op.mis M_IRREGULAR258 irr] else []), by simp, ?_⟩
      by_cases h258 : plen = 258
      · subst h258
        simp [bind, Except.bind, pure, Except.pure, decDiff_encDiff]
      · simp [bind, Except.bind, pure, Except.pure, decDiff_encDiff, h258, hirr' h258]

theorem decTok_encTok' (P : Pred H) (plain : Array Nat) (s : PState H) (t : Token)
    (hv : ValidTok plain s.pos t) (ops : List Op) (s' : PState H)
    (he : encTok P plain s t = .ok (ops, s')) (rest : List Op) :
    decTok P plain s (ops ++ rest) = .ok (t, rest, s') := by
  unfold encTok at he
  unfold decTok
  rcases hp : P.predictTok plain s with ⟨pt, pend⟩
  rw [hp] at he
  simp only at he ⊢
  cases t with
  | lit b =>
    obtain ⟨hpos, hb⟩ := hv
    cases pt with
    | lit =>
      simp at he
      obtain ⟨rfl, rfl⟩ := he
      simp [bind, Except.bind, pure, Except.pure, hb]
    | ref l d =>
      simp at he
      obtain ⟨rfl, rfl⟩ := he
      simp [bind, Except.bind, pure, Except.pure, hb]
  | ref len dist irr =>
    obtain ⟨h3, h258, hd1, hdp, hd32, hsz, hm, hirr⟩ := hv
    simp only [bind_eq_ok] at he
    obtain ⟨⟨ops0, plen, pdist, s2⟩, ha, hb⟩ := he
    cases pt with
    | lit =>
      simp only [bind_eq_ok] at ha
      obtain ⟨⟨l, d⟩, hr, ha⟩ := ha
      simp [pure, Except.pure] at ha
      obtain ⟨rfl, rfl, rfl, rfl⟩ := ha
      obtain ⟨ops', rfl, hdec⟩ := refTail_rt P plain [Op.mis M_LITERAL_WRONG true] l d
        ⟨s.h, none, s.pos, s.count⟩ len dist irr hm hirr ops s' hb rest
      simp only [List.cons_append, List.nil_append, popMis_cons, hr, bind, Except.bind, pure, Except.pure,
        Bool.not_true, Bool.false_eq_true, if_false]
      exact hdec
    | ref l d =>
      simp [pure, Except.pure] at ha
      obtain ⟨rfl, rfl, rfl, rfl⟩ := ha
      obtain ⟨ops', rfl, hdec⟩ := refTail_rt P plain [Op.mis M_REFERENCE_WRONG false] l d
        ⟨s.h, pend, s.pos, s.count⟩ len dist irr hm hirr ops s' hb rest
      simp only [List.cons_append, List.nil_append, popMis_cons, bind, Except.bind, pure, Except.pure,
        Bool.false_eq_true, if_false]
      exact hdec

theorem encRefTail_state (P : Pred H) (plain : Array Nat) (ops0 : List Op) (plen pdist : Nat) (s2 : PState H)
    (len dist : Nat) (irr : Bool) (ops : List Op) (s' : PState H)
    (he : encRefTail P plain ops0 plen pdist s2 len dist irr = .ok (ops, s')) :
    s' = commit P plain s2 (Token.ref len dist irr) := by
  unfold encRefTail at he
  by_cases h1 : plen ≠ len
  · rw [if_pos h1] at he
    simp only [bind_eq_ok] at he
    obtain ⟨_, _, _, _, he⟩ := he
    simp at he
    exact he.2.symm
  · rw [if_neg h1] at he
    by_cases h2 : dist ≠ pdist
    · rw [if_pos h2] at he
      simp only [bind_eq_ok] at he
      obtain ⟨_, _, _, _, he⟩ := he
      simp at he
      exact he.2.symm
    · rw [if_neg h2] at he
      simp only [bind_eq_ok] at he
      obtain ⟨_, _, he⟩ := he
      simp at he
      exact he.2.symm

theorem encTok_state (P : Pred H) (plain : Array Nat) (s : PState H) (t : Token) (ops : List Op)
    (s' : PState H) (he : encTok P plain s t = .ok (ops, s')) :
    s'.pos = s.pos + tokenLen t ∧ s'.count = s.count + 1 := by
  unfold encTok at he
  rcases hp : P.predictTok plain s with ⟨pt, pend⟩
  rw [hp] at he
  simp only at he
  cases t with
  | lit b =>
    simp at he
    obtain ⟨_, rfl⟩ := he
    simp [commit]
  | ref len dist irr =>
    simp only [bind_eq_ok] at he
    obtain ⟨⟨ops0, plen, pdist, s2⟩, ha, hb⟩ := he
    have hs := encRefTail_state P plain ops0 plen pdist s2 len dist irr ops s' hb
    subst hs
    cases pt with
    | lit =>
      simp only [bind_eq_ok] at ha
      obtain ⟨⟨l, d⟩, hr, ha⟩ := ha
      simp [pure, Except.pure] at ha
      obtain ⟨rfl, rfl, rfl, rfl⟩ := ha
      simp [commit]
    | ref l d =>
      simp [pure, Except.pure] at ha
      obtain ⟨rfl, rfl, rfl, rfl⟩ := ha
      simp [commit]

theorem encToks_state (P : Pred H) (plain : Array Nat) : ∀ (ts : List Token) (s : PState H) (ops : List Op)
    (s' : PState H), encToks P plain s ts = .ok (ops, s') →
    s'.pos = toksEnd s.pos ts ∧ s'.count = s.count + ts.length := by
  intro ts
  induction ts with
  | nil => intro s ops s' he; simp [encToks] at he; obtain ⟨_, rfl⟩ := he; simp [toksEnd]
  | cons t ts ih =>
    intro s ops s' he
    simp only [encToks, bind_eq_ok] at he
    obtain ⟨⟨a, s1⟩, h1, ⟨b, s2⟩, h2, he⟩ := he
    simp at he
    obtain ⟨_, rfl⟩ := he
    obtain ⟨p1, c1⟩ := encTok_state P plain s t a s1 h1
    obtain ⟨p2, c2⟩ := ih s1 b s2 h2
    simp [toksEnd, p2, c2, p1, c1]
    omega

theorem validTok_pos (plain : Array Nat) (pos : Nat) (t : Token) (hv : ValidTok plain pos t) :
    pos < plain.size := by
  cases t with
  | lit b => exact hv.1
  | ref len dist irr => obtain ⟨h3, _, _, _, _, hsz, _⟩ := hv; omega

theorem decToks_encToks (P : Pred H) (plain : Array Nat) (bs : Nat) :
    ∀ (ts : List Token) (s : PState H) (ops : List Op) (s' : PState H) (fuel : Nat) (rest : List Op),
    ValidToks plain s.pos ts → encToks P plain s ts = .ok (ops, s') →
    s.count + ts.length ≤ bs → ts.length < fuel →
    (!s'.eof plain && decide (s'.count < bs)) = false →
    decToks P plain bs fuel s (ops ++ rest) = .ok (ts, rest, s') := by
  intro ts
  induction ts with
  | nil =>
    intro s ops s' fuel rest _ he _ hf hstop
    simp [encToks] at he
    obtain ⟨rfl, rfl⟩ := he
    obtain ⟨f, rfl⟩ : ∃ f, fuel = f + 1 := ⟨fuel - 1, by simp at hf; omega⟩
    simp only [decToks, hstop]
    simp
  | cons t ts ih =>
    intro s ops s' fuel rest hv he hc hf hstop
    simp only [encToks, bind_eq_ok] at he
    obtain ⟨⟨a, s1⟩, h1, ⟨b, s2⟩, h2, he⟩ := he
    simp at he
    obtain ⟨rfl, rfl⟩ := he
    obtain ⟨f, rfl⟩ : ∃ f, fuel = f + 1 := ⟨fuel - 1, by simp at hf; omega⟩
    obtain ⟨hvt, hvts⟩ := hv
    have hpos := validTok_pos plain s.pos t hvt
    obtain ⟨p1, c1⟩ := encTok_state P plain s t a s1 h1
    have hcond : (!s.eof plain && decide (s.count < bs)) = true := by
      simp [PState.eof] at hc ⊢
      omega
    have hdt := decTok_encTok' P plain s t hvt a s1 h1 (b ++ rest)
    have hrec := ih s1 b s2 f rest (by rw [p1]; exact hvts) h2 (by simp at hc; omega) (by simp at hf; omega) hstop
    simp only [decToks, hcond, if_true, List.append_assoc, hdt, bind, Except.bind, hrec]

end Preflate.Proofs
