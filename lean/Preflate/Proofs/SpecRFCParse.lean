/-
C03 (RFC reading): from the tables of a dynamic header to whole streams.
Whenever the model parser and `SpecRFC.parseBits` both accept, they return the same `Parsed`.
-/
import Preflate.Proofs.SpecRFCHeader
import Preflate.Proofs.SpecEq
import Preflate.Proofs.Prefix
namespace Preflate.Proofs.RFC
open Preflate SpecRFC Preflate.Proofs
set_option linter.unusedSimpArgs false

-- ---------------------------------------------------------------------------------------------
-- the items of a header that was read: a repeat item makes 3–6 copies

theorem readRleItems_rep (t : List (Bits × Nat)) (total : Nat) :
    ∀ (fuel read : Nat) (bs : Bits) (items : List RleItem) (rest : Bits),
    readRleItems t total fuel read bs = .ok (items, rest) →
    ∀ it ∈ items, it.kind = 16 → 3 ≤ it.data := by
  intro fuel
  induction fuel with
  | zero => intro read bs items rest h; simp [readRleItems] at h
  | succ fuel ih =>
    intro read bs items rest h
    rw [readRleItems] at h
    split at h
    · simp only [bind_eq_ok] at h
      obtain ⟨⟨w, bs1⟩, h1, h2⟩ := h
      simp only at h2
      split at h2
      · simp only [bind_eq_ok] at h2
        obtain ⟨⟨its, bs2⟩, h3, h4⟩ := h2
        simp only [Except.ok.injEq, Prod.mk.injEq] at h4
        obtain ⟨rfl, rfl⟩ := h4
        intro it hit hk
        rcases List.mem_cons.mp hit with rfl | hit
        · simp at hk
        · exact ih _ _ _ _ h3 it hit hk
      · split at h2
        · simp only [bind_eq_ok] at h2
          obtain ⟨⟨x, bs2⟩, h3, ⟨its, bs3⟩, h4, h5⟩ := h2
          simp only [Except.ok.injEq, Prod.mk.injEq] at h3 h4 h5
          obtain ⟨rfl, rfl⟩ := h5
          intro it hit hk
          rcases List.mem_cons.mp hit with rfl | hit
          · simp only at hk
            subst hk
            simp [treeCodeAdjust]
          · exact ih _ _ _ _ h4 it hit hk
        · simp at h2
    · split at h
      · simp only [Except.ok.injEq, Prod.mk.injEq] at h
        obtain ⟨rfl, rfl⟩ := h
        intro it hit
        simp at hit
      · simp at h

theorem readHeader_rep {bs : Bits} {hd : Header} {rest : Bits} (h : readHeader bs = .ok (hd, rest)) :
    ∀ it ∈ hd.items, it.kind = 16 → 3 ≤ it.data := by
  simp only [readHeader, bind_eq_ok] at h
  obtain ⟨⟨a, bs1⟩, h1, ⟨b, bs2⟩, h2, ⟨c, bs3⟩, h3, ⟨cl, bs4⟩, h4, t, h5, ⟨items, bs5⟩, h6, h⟩ := h
  simp only [Except.ok.injEq, Prod.mk.injEq] at h6 h
  obtain ⟨rfl, rfl⟩ := h
  exact readRleItems_rep _ _ _ _ _ _ _ h6

-- ---------------------------------------------------------------------------------------------
-- token decoding

/-- a distance table that decodes less: the same result if it succeeds -/
theorem decodeTokens_sub (lt dt1 dt2 : List (Bits × Nat)) (hs : SubTable dt1 dt2) :
    ∀ (fuel : Nat) (plain : Array Nat) (bs : Bits) (X : List Token × Array Nat × Bits),
    decodeTokens lt dt1 fuel plain bs = .ok X → decodeTokens lt dt2 fuel plain bs = .ok X := by
  intro fuel
  induction fuel with
  | zero => intro plain bs X h; simp [decodeTokens] at h
  | succ fuel ih =>
    intro plain bs X h
    rw [decodeTokens] at h
    have hg : ¬ plain.size > PLAIN_LIMIT := fun hc => by rw [if_pos hc] at h; cases h
    rw [if_neg hg] at h
    simp only [bind_eq_ok] at h
    obtain ⟨⟨sym, bs1⟩, h1, h⟩ := h
    simp only at h
    rw [decodeTokens, if_neg hg]
    simp only [h1, ok_bind]
    split at h
    · rename_i hsym
      simp only [bind_eq_ok] at h
      obtain ⟨⟨ts2, pl2, bs2⟩, h2, h⟩ := h
      simp only [hsym, if_true, ih _ _ _ h2, ok_bind]
      exact h
    · rename_i hsym
      split at h
      · rename_i hs2
        simp only [hsym, if_false, hs2, if_true]
        exact h
      · rename_i hs2
        split at h
        · simp only [throw_bind_eq_ok] at h
        · rename_i hlc
          simp only [bind_eq_ok] at h
          obtain ⟨⟨ex, bs2⟩, h2, ⟨dcode, bs3⟩, h3, h⟩ := h
          simp only at h3 h
          split at h
          · simp only [throw_bind_eq_ok] at h
          · rename_i hdc
            simp only [bind_eq_ok] at h
            obtain ⟨⟨dx, bs4⟩, h4, h⟩ := h
            simp only at h
            split at h
            · simp only [throw_bind_eq_ok] at h
            · rename_i hdist
              simp only [bind_eq_ok] at h
              obtain ⟨⟨ts2, pl2, bs5⟩, h5, h⟩ := h
              simp only [if_neg hsym, if_neg hs2, if_neg hlc, h2, ok_bind, hs _ _ h3, if_neg hdc, h4,
                if_neg hdist, ih _ _ _ h5]
              exact h

/-- zlib's single-symbol literal/length code {256 : 1}: the block is the bit `0` -/
theorem decodeTokens_eob_rfc (dt : List (Bits × Nat)) (fuel : Nat) (plain : Array Nat) (bs : Bits)
    (X : List Token × Array Nat × Bits)
    (h : decodeTokens [([false], 256)] dt (fuel + 1) plain bs = .ok X) :
    ¬ plain.size > PLAIN_LIMIT ∧ ∃ rest, bs = false :: rest ∧ X = ([], plain, rest) := by
  rw [decodeTokens] at h
  have hg : ¬ plain.size > PLAIN_LIMIT := fun hc => by rw [if_pos hc] at h; cases h
  rw [if_neg hg] at h
  simp only [bind_eq_ok] at h
  obtain ⟨⟨sym, bs1⟩, h1, h⟩ := h
  obtain ⟨rest, rfl, hx⟩ := decodeSym_single h1
  simp only [Prod.mk.injEq] at hx
  obtain ⟨rfl, rfl⟩ := hx
  simp only [show ¬ (256 < 256) by omega, if_false, if_true, Except.ok.injEq] at h
  exact ⟨hg, bs1, rfl, h.symm⟩

theorem decodeTokens_eob_lib (lt dt : List (Bits × Nat)) (fuel : Nat) (plain : Array Nat) (rest : Bits)
    (hg : ¬ plain.size > PLAIN_LIMIT) (h : decodeSym lt (false :: rest) = .ok (256, rest)) :
    decodeTokens lt dt (fuel + 1) plain (false :: rest) = .ok ([], plain, rest) := by
  rw [decodeTokens, if_neg hg]
  simp only [h, ok_bind, show ¬ (256 < 256) by omega, if_false, if_true]

-- ---------------------------------------------------------------------------------------------
-- blocks

theorem optR_ok {α : Type} {o : Option α} {a : α} (h : optR o = .ok a) : o = some a := by
  cases o with
  | none => simp [optR] at h
  | some b => simp only [optR, Except.ok.injEq] at h; rw [h]

theorem litDistRFC_ok {hd : Header} {llr dlr : List Nat}
    (h : SpecRFC.litDistLengths hd = .ok (llr, dlr)) :
    ∃ R, expandRFC hd.items = some R ∧ llr = R.take hd.numLiterals ∧ dlr = R.drop hd.numLiterals := by
  simp only [SpecRFC.litDistLengths, bind_eq_ok] at h
  obtain ⟨R, h1, h2⟩ := h
  split at h2
  · simp only [Except.ok.injEq, Prod.mk.injEq] at h2
    exact ⟨R, optR_ok h1, h2.1.symm, h2.2.symm⟩
  · simp at h2

theorem litDist_ok {hd : Header} {ll dl : List Nat} (h : litDistLengths hd = .ok (ll, dl)) :
    ll = (expandItems hd.items 0).take hd.numLiterals ∧
    dl = (expandItems hd.items 0).drop hd.numLiterals := by
  simp only [litDistLengths] at h
  split at h
  · simp only [Except.ok.injEq, Prod.mk.injEq] at h
    exact ⟨h.1.symm, h.2.symm⟩
  · simp at h

/-- `SpecRFC.readBlock` over the model's functions -/
theorem rfc_readBlock_unfold (plain : Array Nat) (bs : Bits) :
    SpecRFC.readBlock plain bs = (do
      let (last, bs) ← readBits 1 bs
      let (mode, bs) ← readBits 2 bs
      if mode = 0 then do
        let (pad, bs) ← readBits (bs.length % 8) bs
        let (len, bs) ← readBits 16 bs
        let (ilen, bs) ← readBits 16 bs
        if len + ilen ≠ 65535 then throw .err
        if plain.size > PLAIN_LIMIT then throw .err
        let (data, bs) ← readBytes len bs
        .ok (last == 1, .stored pad data, pushAll plain data, bs)
      else if mode = 1 then do
        let lt ← mkTable fixedLitLengths
        let dt ← mkTable fixedDistLengths
        let (ts, plain, bs) ← decodeTokens lt dt (bs.length + 1) plain bs
        .ok (last == 1, .fixed ts, plain, bs)
      else if mode = 2 then do
        let (h, bs) ← readHeader bs
        let (ll, dl) ← SpecRFC.litDistLengths h
        let lt ← optR (tableFor false ll)
        let dt ← optR (tableFor true dl)
        let (ts, plain, bs) ← decodeTokens lt dt (bs.length + 1) plain bs
        .ok (last == 1, .dynamic h ts, plain, bs)
      else .error .err) := by
  simp only [SpecRFC.readBlock, spec_readHeader_eq, spec_decodeTokens_eq, spec_fixedLit_eq,
    spec_fixedDist_eq, spec_plainLimit_eq]
  rfl

/-- stored and fixed blocks (and bad block types) are shared -/
theorem rfc_readBlock_eq_of_mode (plain : Array Nat) (bs : Bits)
    (hm : ∀ l bs1 m bs2, readBits 1 bs = .ok (l, bs1) → readBits 2 bs1 = .ok (m, bs2) → m ≠ 2) :
    SpecRFC.readBlock plain bs = readBlock plain bs := by
  rw [rfc_readBlock_unfold, readBlock]
  cases h1 : readBits 1 bs with
  | error e => rfl
  | ok p1 =>
    obtain ⟨l, bs1⟩ := p1
    simp only [ok_bind]
    cases h2 : readBits 2 bs1 with
    | error e => rfl
    | ok p2 =>
      obtain ⟨m, bs2⟩ := p2
      have := hm l bs1 m bs2 h1 h2
      simp only [ok_bind, this, if_false]

/-- one block: if both readings accept, they return the same -/
theorem readBlock_agree (plain : Array Nat) (bs : Bits) (r1 r2 : Bool × Block × Array Nat × Bits)
    (h : readBlock plain bs = .ok r1) (hs : SpecRFC.readBlock plain bs = .ok r2) : r1 = r2 := by
  cases h1 : readBits 1 bs with
  | error e => simp [readBlock, h1, bind, Except.bind] at h
  | ok p1 =>
  obtain ⟨l, bs1⟩ := p1
  cases h2 : readBits 2 bs1 with
  | error e => simp [readBlock, h1, h2, bind, Except.bind] at h
  | ok p2 =>
  obtain ⟨m, bs2⟩ := p2
  by_cases hm : m ≠ 2
  · have hm' : ∀ l' bs1' m' bs2', readBits 1 bs = .ok (l', bs1') → readBits 2 bs1' = .ok (m', bs2') →
        m' ≠ 2 := by
      intro l' bs1' m' bs2' e1 e2
      rw [h1] at e1
      simp only [Except.ok.injEq, Prod.mk.injEq] at e1
      obtain ⟨rfl, rfl⟩ := e1
      rw [h2] at e2
      simp only [Except.ok.injEq, Prod.mk.injEq] at e2
      obtain ⟨rfl, rfl⟩ := e2
      exact hm
    rw [rfc_readBlock_eq_of_mode plain bs hm', h] at hs
    simpa using hs
  · have hm : m = 2 := by omega
    subst hm
    rw [rfc_readBlock_unfold] at hs
    rw [readBlock] at h
    simp only [h1, h2, ok_bind, show ¬ (2 = 0) by omega, show ¬ (2 = 1) by omega, if_false, if_true,
      bind_eq_ok] at h hs
    obtain ⟨⟨hd, bs3⟩, h3, ⟨ll, dl⟩, h4, lt, h5, dt, h6, ⟨ts, pl, bs4⟩, h7, h⟩ := h
    obtain ⟨⟨hd', bs3'⟩, h3', ⟨llr, dlr⟩, h4', ltr, h5', dtr, h6', ⟨ts', pl', bs4'⟩, h7', hs⟩ := hs
    simp only [Except.ok.injEq] at h4 h5 h6 h7 h h4' h5' h6' h7' hs
    rw [h3] at h3'
    simp only [Except.ok.injEq, Prod.mk.injEq] at h3'
    obtain ⟨rfl, rfl⟩ := h3'
    subst h hs
    obtain ⟨rfl, rfl⟩ := litDist_ok h4
    obtain ⟨R, hR, rfl, rfl⟩ := litDistRFC_ok h4'
    obtain ⟨rfl, hvl⟩ := mkTable_valid h5
    obtain ⟨rfl, hvd⟩ := mkTable_valid h6
    have hw : ∀ it ∈ hd.items, it.kind = 16 → 2 ≤ it.data := fun it hit hk => by
      have := readHeader_rep h3 it hit hk
      omega
    rcases tables_rel hd.items hw R hR hd.numLiterals hvl hvd (optR_ok h5') (optR_ok h6') with
      ⟨rfl, hsub⟩ | ⟨rfl, heob⟩
    · have := decodeTokens_sub _ _ _ hsub _ _ _ _ h7'
      rw [h7] at this
      simp only [Except.ok.injEq, Prod.mk.injEq] at this
      obtain ⟨rfl, rfl, rfl⟩ := this
      rfl
    · obtain ⟨hg, rest, rfl, hx⟩ := decodeTokens_eob_rfc _ _ _ _ _ h7'
      rw [decodeTokens_eob_lib _ _ _ _ _ hg (heob rest)] at h7
      simp only [Except.ok.injEq, Prod.mk.injEq] at h7 hx
      obtain ⟨rfl, rfl, rfl⟩ := h7
      obtain ⟨rfl, rfl, rfl⟩ := hx
      rfl

theorem readBlocks_agree : ∀ (fuel : Nat) (plain : Array Nat) (bs : Bits)
    (r1 r2 : List Block × Array Nat × Bits),
    readBlocks fuel plain bs = .ok r1 → SpecRFC.readBlocks fuel plain bs = .ok r2 → r1 = r2 := by
  intro fuel
  induction fuel with
  | zero => intro plain bs r1 r2 h; simp [readBlocks] at h
  | succ fuel ih =>
    intro plain bs r1 r2 h hs
    rw [readBlocks] at h
    rw [SpecRFC.readBlocks] at hs
    simp only [bind_eq_ok] at h hs
    obtain ⟨⟨last, b, pl, bs1⟩, h1, h⟩ := h
    obtain ⟨⟨last', b', pl', bs1'⟩, h1', hs⟩ := hs
    have := readBlock_agree _ _ _ _ h1 h1'
    simp only [Prod.mk.injEq] at this
    obtain ⟨rfl, rfl, rfl, rfl⟩ := this
    simp only at h hs
    split at h
    · rename_i hl
      rw [if_pos hl] at hs
      rw [h] at hs
      simpa using hs
    · rename_i hl
      rw [if_neg hl] at hs
      simp only [bind_eq_ok] at h hs
      obtain ⟨⟨r, pl2, bs2⟩, h2, h⟩ := h
      obtain ⟨⟨r', pl2', bs2'⟩, h2', hs⟩ := hs
      have := ih _ _ _ _ h2 h2'
      simp only [Prod.mk.injEq] at this
      obtain ⟨rfl, rfl, rfl⟩ := this
      rw [h] at hs
      simpa using hs

theorem parseBits_agree (bs : Bits) (p p' : Parsed) (h : parseBits bs = .ok p)
    (hs : SpecRFC.parseBits bs = .ok p') : p = p' := by
  simp only [parseBits, SpecRFC.parseBits, bind_eq_ok] at h hs
  obtain ⟨⟨blocks, plain, bs1⟩, h1, ⟨pad, bs2⟩, h2, h⟩ := h
  obtain ⟨⟨blocks', plain', bs1'⟩, h1', ⟨pad', bs2'⟩, h2', hs⟩ := hs
  have := readBlocks_agree _ _ _ _ _ h1 h1'
  simp only [Prod.mk.injEq] at this
  obtain ⟨rfl, rfl, rfl⟩ := this
  simp only at h2 h2' h hs
  rw [h2] at h2'
  simp only [Except.ok.injEq, Prod.mk.injEq] at h2' h hs
  obtain ⟨rfl, rfl⟩ := h2'
  rw [← h, ← hs]

end Preflate.Proofs.RFC
