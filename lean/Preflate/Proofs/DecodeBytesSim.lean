/-
Layer (c) of Proofs/DecodeBytes: SIMULATION between two operation sources.

`SimR Q ra rb`: whenever the first computation succeeds, so does the second, with results related by
`Q`. For two sources `A`, `B` and a relation `Rel` between their states that the three pops respect
(`SrcSim`), every generic reconstruction function of Model/DecodeBytes.lean respects it: run from
related states, success on the `A` side implies success on the `B` side with the SAME value (blocks,
tokens, headers, parameters, predictor state) and related final states.

One-directional on purpose: the list source FAILS when asked for a kind / context / width other than
the next operation's (check-and-fail), a byte source cannot fail that way; the theorems that matter
start from a successful list-level run.
-/
import Preflate.Model.DecodeBytes
namespace Preflate.Proofs
open Preflate Gen
set_option linter.unusedVariables false

/-- success on the left implies success on the right with `Q`-related results -/
def SimR {X Y : Type} (Q : X → Y → Prop) (ra : R X) (rb : R Y) : Prop :=
  ∀ x, ra = .ok x → ∃ y, rb = .ok y ∧ Q x y

/-- same first component, related second components -/
def PL {X A B : Type} (Q : A → B → Prop) (p : X × A) (q : X × B) : Prop := p.1 = q.1 ∧ Q p.2 q.2
/-- related first components, same second component -/
def PR {Y A B : Type} (Q : A → B → Prop) (p : A × Y) (q : B × Y) : Prop := Q p.1 q.1 ∧ p.2 = q.2

namespace SimR
variable {X Y X' Y' Z A B : Type}

theorem ok {Q : X → Y → Prop} {x : X} {y : Y} (h : Q x y) : SimR Q (.ok x) (.ok y) := by
  intro x' hx; cases hx; exact ⟨y, rfl, h⟩

theorem pure {Q : X → Y → Prop} {x : X} {y : Y} (h : Q x y) :
    SimR Q (Pure.pure x : R X) (Pure.pure y : R Y) := ok h

theorem error {Q : X → Y → Prop} (e : Fail) (rb : R Y) : SimR Q (.error e) rb := by
  intro x hx; cases hx

theorem throw {Q : X → Y → Prop} (e : Fail) (rb : R Y) : SimR Q (MonadExcept.throw e : R X) rb :=
  error e rb

theorem throw_bind {Q : X' → Y → Prop} (e : Fail) (f : X → R X') (rb : R Y) :
    SimR Q ((MonadExcept.throw e : R X) >>= f) rb := error e rb

theorem bind {P : X → Y → Prop} {Q : X' → Y' → Prop} {ra : R X} {rb : R Y}
    {fa : X → R X'} {fb : Y → R Y'}
    (h1 : SimR P ra rb) (h2 : ∀ x y, P x y → SimR Q (fa x) (fb y)) :
    SimR Q (ra >>= fa) (rb >>= fb) := by
  intro x' hx
  cases ra with
  | error e => cases hx
  | ok x =>
    obtain ⟨y, hy, hp⟩ := h1 x rfl
    subst hy
    exact h2 x y hp x' hx

/-- a step that does not touch the source: the same computation on both sides -/
theorem bind_same {Q : X' → Y' → Prop} (r : R Z) {fa : Z → R X'} {fb : Z → R Y'}
    (h : ∀ z, r = .ok z → SimR Q (fa z) (fb z)) : SimR Q (r >>= fa) (r >>= fb) := by
  intro x' hx
  cases r with
  | error e => cases hx
  | ok z => exact h z rfl x' hx

/-- continuation form for results of shape (value, state) -/
theorem bind2 {Rel : A → B → Prop} {Q : X' → Y' → Prop} {ra : R (X × A)} {rb : R (X × B)}
    {fa : X × A → R X'} {fb : X × B → R Y'}
    (h1 : SimR (PL Rel) ra rb) (h2 : ∀ v a b, Rel a b → SimR Q (fa (v, a)) (fb (v, b))) :
    SimR Q (ra >>= fa) (rb >>= fb) := by
  refine bind h1 ?_
  rintro ⟨v, a⟩ ⟨v', b⟩ ⟨hv, hr⟩
  cases hv
  exact h2 v a b hr

/-- continuation form for results of shape (value, state, predictor state) -/
theorem bind3 {Rel : A → B → Prop} {Q : X' → Y' → Prop} {ra : R (X × A × Z)} {rb : R (X × B × Z)}
    {fa : X × A × Z → R X'} {fb : X × B × Z → R Y'}
    (h1 : SimR (PL (PR Rel)) ra rb) (h2 : ∀ v a b z, Rel a b → SimR Q (fa (v, a, z)) (fb (v, b, z))) :
    SimR Q (ra >>= fa) (rb >>= fb) := by
  refine bind h1 ?_
  rintro ⟨v, a, z⟩ ⟨v', b, z'⟩ ⟨hv, hr, hz⟩
  cases hv; cases hz
  exact h2 v a b z hr

/-- continuation form for results of shape (value, value, state) -/
theorem bind2' {Rel : A → B → Prop} {Q : X' → Y' → Prop} {ra : R (X × Z × A)} {rb : R (X × Z × B)}
    {fa : X × Z × A → R X'} {fb : X × Z × B → R Y'}
    (h1 : SimR (PL (PL Rel)) ra rb) (h2 : ∀ v z a b, Rel a b → SimR Q (fa (v, z, a)) (fb (v, z, b))) :
    SimR Q (ra >>= fa) (rb >>= fb) := by
  refine bind h1 ?_
  rintro ⟨v, z, a⟩ ⟨v', z', b⟩ ⟨hv, hz, hr⟩
  cases hv; cases hz
  exact h2 v z a b hr

theorem ite {Q : X → Y → Prop} {c : Prop} [Decidable c] {a a' : R X} {b b' : R Y}
    (h1 : c → SimR Q a b) (h2 : ¬ c → SimR Q a' b') :
    SimR Q (if c then a else a') (if c then b else b') := by
  by_cases hc : c
  · simp only [hc, if_true]; exact h1 hc
  · simp only [hc, if_false]; exact h2 hc

theorem mono {P Q : X → Y → Prop} {ra : R X} {rb : R Y} (h : SimR P ra rb)
    (hpq : ∀ x y, P x y → Q x y) : SimR Q ra rb := by
  intro x hx
  obtain ⟨y, hy, hp⟩ := h x hx
  exact ⟨y, hy, hpq x y hp⟩

end SimR

variable {H α β : Type}

/-- the three pops respect `Rel` -/
structure SrcSim (A : Src α) (B : Src β) (Rel : α → β → Prop) : Prop where
  value : ∀ bits a b, Rel a b → SimR (PL Rel) (A.popValue bits a) (B.popValue bits b)
  mis : ∀ ctx a b, Rel a b → SimR (PL Rel) (A.popMis ctx a) (B.popMis ctx b)
  corr : ∀ ctx a b, Rel a b → SimR (PL Rel) (A.popCorr ctx a) (B.popCorr ctx b)

variable {A : Src α} {B : Src β} {Rel : α → β → Prop}

theorem decIsEofS_sim (hS : SrcSim A B Rel) (plain : Array Nat) (s : PState H) (a : α) (b : β)
    (hr : Rel a b) : SimR (PL Rel) (decIsEofS A plain s a) (decIsEofS B plain s b) := by
  unfold decIsEofS
  refine SimR.ite (fun _ => ?_) (fun _ => SimR.ok ⟨rfl, hr⟩)
  refine SimR.bind2 (hS.mis _ _ _ hr) ?_
  intro f a b hr
  exact SimR.ok ⟨rfl, hr⟩

theorem decTcLengthsS_sim (hS : SrcSim A B Rel) (tc : List Nat) :
    ∀ (n i : Nat) (acc : List Nat) (a : α) (b : β), Rel a b →
      SimR (PL Rel) (decTcLengthsS A tc n i acc a) (decTcLengthsS B tc n i acc b) := by
  intro n
  induction n with
  | zero => intro i acc a b hr; exact SimR.ok ⟨rfl, hr⟩
  | succ n ih =>
    intro i acc a b hr
    simp only [decTcLengthsS]
    refine SimR.bind2 (hS.corr _ _ _ hr) ?_
    intro c a b hr
    refine SimR.bind_same _ ?_
    intro v _
    exact ih _ _ _ _ hr

theorem decLdTreesS_sim (hS : SrcSim A B Rel) :
    ∀ (fuel : Nat) (syms : List Nat) (prev : Option Nat) (a : α) (b : β), Rel a b →
      SimR (PL Rel) (decLdTreesS A fuel syms prev a) (decLdTreesS B fuel syms prev b) := by
  intro fuel
  induction fuel with
  | zero => intro syms prev a b hr; exact SimR.error _ _
  | succ n ih =>
    intro syms prev a b hr
    simp only [decLdTreesS]
    refine SimR.ite (fun _ => SimR.ok ⟨rfl, hr⟩) (fun _ => ?_)
    refine SimR.bind2 (hS.corr _ _ _ hr) ?_
    intro c a b hr
    refine SimR.bind_same _ ?_
    intro kind _
    refine SimR.ite (fun _ => SimR.throw_bind _ _ _) (fun _ => ?_)
    refine SimR.bind2 (hS.corr _ _ _ hr) ?_
    intro c a b hr
    refine SimR.bind_same _ ?_
    intro data _
    refine SimR.ite (fun _ => SimR.throw_bind _ _ _) (fun _ => ?_)
    refine SimR.bind2 (ih _ _ _ _ hr) ?_
    intro r a b hr
    exact SimR.ok ⟨rfl, hr⟩

theorem decTreeS_sim (hS : SrcSim A B Rel) (P : Pred H) (freq : List Nat × List Nat) (a : α) (b : β)
    (hr : Rel a b) : SimR (PL Rel) (decTreeS A P freq a) (decTreeS B P freq b) := by
  simp only [decTreeS]
  refine SimR.bind2 (hS.mis _ _ _ hr) ?_
  intro wrong a b hr
  refine SimR.bind2 (Rel := Rel) ?_ ?_
  · refine SimR.ite (fun _ => ?_) (fun _ => SimR.pure ⟨rfl, hr⟩)
    refine SimR.bind2 (hS.value _ _ _ hr) ?_
    intro v a b hr
    exact SimR.pure ⟨rfl, hr⟩
  intro bl a b hr
  refine SimR.bind2 (hS.mis _ _ _ hr) ?_
  intro wrong a b hr
  refine SimR.bind2 (Rel := Rel) ?_ ?_
  · refine SimR.ite (fun _ => ?_) (fun _ => SimR.pure ⟨rfl, hr⟩)
    refine SimR.bind2 (hS.value _ _ _ hr) ?_
    intro v a b hr
    exact SimR.pure ⟨rfl, hr⟩
  intro dl a b hr
  refine SimR.bind2 (decLdTreesS_sim hS _ _ _ _ _ hr) ?_
  intro items a b hr
  refine SimR.bind2 (hS.mis _ _ _ hr) ?_
  intro wrong a b hr
  refine SimR.bind2 (Rel := Rel) ?_ ?_
  · refine SimR.ite (fun _ => ?_) (fun _ => SimR.pure ⟨rfl, hr⟩)
    refine SimR.bind2 (hS.value _ _ _ hr) ?_
    intro v a b hr
    exact SimR.pure ⟨rfl, hr⟩
  intro tcLen a b hr
  refine SimR.ite (fun _ => SimR.throw_bind _ _ _) (fun _ => ?_)
  refine SimR.bind2 (decTcLengthsS_sim hS _ _ _ _ _ _ hr) ?_
  intro cl a b hr
  exact SimR.ok ⟨rfl, hr⟩

/-- relation between the intermediate results of `decTokS` (literal decided / reference pending) -/
def StepRel (Rel : α → β → Prop) :
    (Token × α × PState H) ⊕ (Nat × Nat × α × PState H) →
    (Token × β × PState H) ⊕ (Nat × Nat × β × PState H) → Prop
  | .inl x, .inl y => PL (PR Rel) x y
  | .inr x, .inr y => PL (PL (PR Rel)) x y
  | _, _ => False

theorem decTokS_sim (hS : SrcSim A B Rel) (P : Pred H) (plain : Array Nat) (s : PState H) (a : α) (b : β)
    (hr : Rel a b) : SimR (PL (PR Rel)) (decTokS A P plain s a) (decTokS B P plain s b) := by
  unfold decTokS
  rcases P.predictTok plain s with ⟨pt, pend⟩
  dsimp only
  refine SimR.bind (P := StepRel Rel) ?_ ?_
  · cases pt with
    | lit =>
      dsimp only
      refine SimR.bind2 (hS.mis _ _ _ hr) ?_
      intro wrong a b hr
      refine SimR.ite (fun _ => SimR.pure ⟨rfl, hr, rfl⟩) (fun _ => ?_)
      refine SimR.bind_same _ ?_
      rintro ⟨l, d⟩ _
      exact SimR.pure ⟨rfl, rfl, hr, rfl⟩
    | ref l d =>
      dsimp only
      refine SimR.bind2 (hS.mis _ _ _ hr) ?_
      intro wrong a b hr
      exact SimR.ite (fun _ => SimR.pure ⟨rfl, hr, rfl⟩) (fun _ => SimR.pure ⟨rfl, rfl, hr, rfl⟩)
  · rintro (⟨t, a, s1⟩ | ⟨plen, pdist, a, s2⟩) (⟨t', b, s1'⟩ | ⟨plen', pdist', b, s2'⟩) h
    · obtain ⟨h1, hr, h2⟩ := h
      cases h1; cases h2
      exact SimR.ok ⟨rfl, hr, rfl⟩
    · exact h.elim
    · exact h.elim
    · obtain ⟨h1, h2, hr, h3⟩ := h
      cases h1; cases h2; cases h3
      dsimp only
      refine SimR.bind2 (hS.corr _ _ _ hr) ?_
      intro c a b hr
      refine SimR.bind_same _ ?_
      intro newLen _
      refine SimR.bind2' (Rel := Rel) ?_ ?_
      · refine SimR.ite (fun _ => ?_) (fun _ => ?_)
        · refine SimR.bind2 (hS.corr _ _ _ hr) ?_
          intro hops a b hr
          refine SimR.bind_same _ ?_
          intro d _
          exact SimR.pure ⟨rfl, rfl, hr⟩
        · refine SimR.bind2 (hS.corr _ _ _ hr) ?_
          intro hops a b hr
          refine SimR.ite (fun _ => ?_) (fun _ => SimR.pure ⟨rfl, rfl, hr⟩)
          refine SimR.bind_same _ ?_
          intro d _
          exact SimR.pure ⟨rfl, rfl, hr⟩
      intro len dist a b hr
      refine SimR.bind2 (Rel := Rel) ?_ ?_
      · exact SimR.ite (fun _ => hS.mis _ _ _ hr) (fun _ => SimR.pure ⟨rfl, hr⟩)
      intro irr a b hr
      exact SimR.ok ⟨rfl, hr, rfl⟩

theorem decToksS_sim (hS : SrcSim A B Rel) (P : Pred H) (plain : Array Nat) (bs : Nat) :
    ∀ (fuel : Nat) (s : PState H) (a : α) (b : β), Rel a b →
      SimR (PL (PR Rel)) (decToksS A P plain bs fuel s a) (decToksS B P plain bs fuel s b) := by
  intro fuel
  induction fuel with
  | zero => intro s a b hr; exact SimR.error _ _
  | succ n ih =>
    intro s a b hr
    simp only [decToksS]
    refine SimR.ite (fun _ => ?_) (fun _ => SimR.ok ⟨rfl, hr, rfl⟩)
    refine SimR.bind3 (decTokS_sim hS P plain s a b hr) ?_
    intro t a b s hr
    refine SimR.bind3 (ih s a b hr) ?_
    intro ts a b s hr
    exact SimR.ok ⟨rfl, hr, rfl⟩

theorem decBlockS_sim (hS : SrcSim A B Rel) (P : Pred H) (plain : Array Nat) (s : PState H) (a : α) (b : β)
    (hr : Rel a b) : SimR (PL (PR Rel)) (decBlockS A P plain s a) (decBlockS B P plain s b) := by
  simp only [decBlockS]
  refine SimR.bind2 (hS.corr _ _ _ hr) ?_
  intro c a b hr
  refine SimR.bind_same _ ?_
  intro bt _
  refine SimR.ite (fun _ => ?_) (fun _ => ?_)
  · refine SimR.bind2 (hS.value _ _ _ hr) ?_
    intro len a b hr
    refine SimR.bind2 (hS.corr _ _ _ hr) ?_
    intro pad a b hr
    refine SimR.ite (fun _ => SimR.throw_bind _ _ _) (fun _ => ?_)
    exact SimR.ok ⟨rfl, hr, rfl⟩
  · refine SimR.ite (fun _ => ?_) (fun _ => SimR.error _ _)
    refine SimR.bind2 (hS.corr _ _ _ hr) ?_
    intro tc a b hr
    refine SimR.bind3 (decToksS_sim hS P plain _ _ _ a b hr) ?_
    intro ts a b s hr
    refine SimR.ite (fun _ => SimR.ok ⟨rfl, hr, rfl⟩) (fun _ => ?_)
    refine SimR.bind2 (decTreeS_sim hS P _ a b hr) ?_
    intro h a b hr
    exact SimR.ok ⟨rfl, hr, rfl⟩

theorem decBlocksS_sim (hS : SrcSim A B Rel) (P : Pred H) (plain : Array Nat) :
    ∀ (fuel : Nat) (s : PState H) (a : α) (b : β), Rel a b →
      SimR (PL (PR Rel)) (decBlocksS A P plain fuel s a) (decBlocksS B P plain fuel s b) := by
  intro fuel
  induction fuel with
  | zero => intro s a b hr; exact SimR.error _ _
  | succ n ih =>
    intro s a b hr
    simp only [decBlocksS]
    refine SimR.bind3 (decBlockS_sim hS P plain s a b hr) ?_
    intro blk a b s hr
    refine SimR.bind2 (decIsEofS_sim hS plain s a b hr) ?_
    intro isEof a b hr
    refine SimR.ite (fun _ => SimR.ok ⟨rfl, hr, rfl⟩) (fun _ => ?_)
    refine SimR.bind3 (ih s a b hr) ?_
    intro r a b s hr
    exact SimR.ok ⟨rfl, hr, rfl⟩

/-- the block loop's fuel only has to cover the blocks actually reconstructed -/
theorem decBlocksS_fuel (S : Src α) (P : Pred H) (plain : Array Nat) :
    ∀ (fuel fuel' : Nat) (s : PState H) (a : α) (r : List Block × α × PState H),
      decBlocksS S P plain fuel s a = .ok r → r.1.length ≤ fuel' →
      decBlocksS S P plain fuel' s a = .ok r := by
  intro fuel
  induction fuel with
  | zero => intro fuel' s a r h; cases h
  | succ n ih =>
    intro fuel' s a r h hl
    simp only [decBlocksS] at h
    cases h1 : decBlockS S P plain s a with
    | error e => rw [h1] at h; cases h
    | ok x1 =>
      obtain ⟨blk, a1, s1⟩ := x1
      rw [h1] at h
      simp only [bind, Except.bind] at h
      cases h2 : decIsEofS S plain s1 a1 with
      | error e => rw [h2] at h; cases h
      | ok x2 =>
        obtain ⟨isEof, a2⟩ := x2
        rw [h2] at h
        simp only at h
        cases isEof with
        | true =>
          simp only [if_true] at h
          cases h
          cases fuel' with
          | zero => simp at hl
          | succ m => simp only [decBlocksS, h1, h2, bind, Except.bind, if_true]
        | false =>
          simp only [Bool.false_eq_true, if_false] at h
          cases h3 : decBlocksS S P plain n s1 a2 with
          | error e => rw [h3] at h; cases h
          | ok x3 =>
            obtain ⟨r', a3, s3⟩ := x3
            rw [h3] at h
            cases h
            cases fuel' with
            | zero => simp at hl
            | succ m =>
              have := ih m s1 a2 _ h3 (by simpa using hl)
              simp only [decBlocksS, h1, h2, bind, Except.bind, Bool.false_eq_true, if_false, this]

/-- more fuel never changes an outcome other than "out of fuel" (any outcome: Ok, Err or panic) -/
theorem decBlocksS_mono (S : Src α) (P : Pred H) (plain : Array Nat) :
    ∀ (fuel fuel' : Nat) (s : PState H) (a : α), fuel ≤ fuel' →
      decBlocksS S P plain fuel s a ≠ .error .fuel →
      decBlocksS S P plain fuel' s a = decBlocksS S P plain fuel s a := by
  intro fuel
  induction fuel with
  | zero => intro fuel' s a _ h; exact absurd rfl h
  | succ n ih =>
    intro fuel' s a hle h
    cases fuel' with
    | zero => omega
    | succ m =>
      simp only [decBlocksS] at h ⊢
      cases h1 : decBlockS S P plain s a with
      | error e => rfl
      | ok x1 =>
        obtain ⟨blk, a1, s1⟩ := x1
        rw [h1] at h
        simp only [bind, Except.bind] at h ⊢
        cases h2 : decIsEofS S plain s1 a1 with
        | error e => rfl
        | ok x2 =>
          obtain ⟨isEof, a2⟩ := x2
          rw [h2] at h
          simp only at h ⊢
          cases isEof with
          | true => rfl
          | false =>
            simp only [Bool.false_eq_true, if_false] at h ⊢
            have hne : decBlocksS S P plain n s1 a2 ≠ .error .fuel := by
              intro he; rw [he] at h; exact h rfl
            rw [ih m s1 a2 (by omega) hne]

/-- `decStreamS`: the two sources run the block loop under their own fuel; the `B` side needs its
    fuel to cover the blocks the `A` side reconstructed -/
theorem decStreamS_sim (hS : SrcSim A B Rel) (P : Pred H) (plain : Array Nat) (a : α) (b : β)
    (hr : Rel a b) (blocks : List Block) (pad : Nat) (a' : α)
    (h : decStreamS A P plain a = .ok (blocks, pad, a'))
    (hf : ∀ b, blocks.length ≤ B.blockFuel b) :
    ∃ b', decStreamS B P plain b = .ok (blocks, pad, b') ∧ Rel a' b' := by
  simp only [decStreamS] at h ⊢
  cases h1 : decIsEofS A plain (⟨P.init, none, 0, 0⟩ : PState H) a with
  | error e => rw [h1] at h; cases h
  | ok x1 =>
    obtain ⟨isEof, a1⟩ := x1
    obtain ⟨y1, hy1, hq1⟩ := decIsEofS_sim hS plain (⟨P.init, none, 0, 0⟩ : PState H) a b hr _ h1
    obtain ⟨isEof', b1⟩ := y1
    obtain ⟨he, hr1⟩ := hq1
    dsimp only at he hr1
    subst he
    rw [h1] at h
    rw [hy1]
    simp only [bind, Except.bind] at h ⊢
    cases isEof with
    | true =>
      simp only [if_true, pure, Except.pure] at h ⊢
      cases h2 : A.popCorr C_NONZERO_PADDING a1 with
      | error e => rw [h2] at h; cases h
      | ok x2 =>
        obtain ⟨y2, hy2, hq2⟩ := hS.corr _ _ _ hr1 _ h2
        obtain ⟨p, a2⟩ := x2
        obtain ⟨p', b2⟩ := y2
        obtain ⟨hp, hr2⟩ := hq2
        dsimp only at hp hr2
        subst hp
        rw [h2] at h
        rw [hy2]
        simp only [Except.ok.injEq, Prod.mk.injEq] at h ⊢
        obtain ⟨rfl, rfl, rfl⟩ := h
        exact ⟨b2, ⟨rfl, rfl, rfl⟩, hr2⟩
    | false =>
      simp only [Bool.false_eq_true, if_false] at h ⊢
      cases h3 : decBlocksS A P plain (A.blockFuel a1) (⟨P.init, none, 0, 0⟩ : PState H) a1 with
      | error e => rw [h3] at h; cases h
      | ok x3 =>
        obtain ⟨bs, a3, s3⟩ := x3
        rw [h3] at h
        simp only [pure, Except.pure] at h
        cases h2 : A.popCorr C_NONZERO_PADDING a3 with
        | error e => rw [h2] at h; cases h
        | ok x2 =>
          obtain ⟨p, a2⟩ := x2
          rw [h2] at h
          simp only [Except.ok.injEq, Prod.mk.injEq] at h
          obtain ⟨rfl, rfl, rfl⟩ := h
          have h3' := decBlocksS_fuel A P plain _ (B.blockFuel b1) _ _ _ h3 (hf b1)
          obtain ⟨y3, hy3, hq3⟩ := decBlocksS_sim hS P plain (B.blockFuel b1) _ a1 b1 hr1 _ h3'
          obtain ⟨bs', b3, s3'⟩ := y3
          obtain ⟨hb, hr3, hs⟩ := hq3
          dsimp only at hb hr3 hs
          subst hb
          obtain ⟨y2, hy2, hq2⟩ := hS.corr _ _ _ hr3 _ h2
          obtain ⟨p', b2⟩ := y2
          obtain ⟨hp, hr2⟩ := hq2
          dsimp only at hp hr2
          subst hp
          rw [hy3]
          simp only [pure, Except.pure]
          rw [hy2]
          exact ⟨b2, rfl, hr2⟩

theorem readParamsS_sim (hS : SrcSim A B Rel) (a : α) (b : β) (hr : Rel a b) :
    SimR (PL Rel) (readParamsS A a) (readParamsS B b) := by
  simp only [readParamsS]
  refine SimR.bind2 (hS.value _ _ _ hr) ?_
  intro ver a b hr
  refine SimR.ite (fun _ => SimR.throw_bind _ _ _) (fun _ => ?_)
  refine SimR.bind2 (hS.value _ _ _ hr) ?_
  intro strategy a b hr
  refine SimR.bind2 (hS.value _ _ _ hr) ?_
  intro huff a b hr
  refine SimR.bind2 (hS.value _ _ _ hr) ?_
  intro zc a b hr
  refine SimR.bind2 (hS.value _ _ _ hr) ?_
  intro wb a b hr
  refine SimR.bind2 (hS.value _ _ _ hr) ?_
  intro alg a b hr
  refine SimR.bind2' (Rel := Rel) ?_ ?_
  · refine SimR.ite (fun _ => ?_) (fun _ => SimR.pure ⟨rfl, rfl, hr⟩)
    refine SimR.bind2 (hS.value _ _ _ hr) ?_
    intro sh a b hr
    refine SimR.bind2 (hS.value _ _ _ hr) ?_
    intro m a b hr
    exact SimR.pure ⟨rfl, rfl, hr⟩
  intro shift mask a b hr
  refine SimR.bind2 (hS.value _ _ _ hr) ?_
  intro mtc a b hr
  refine SimR.bind2 (hS.value _ _ _ hr) ?_
  intro md3 a b hr
  refine SimR.bind2 (hS.value _ _ _ hr) ?_
  intro vf a b hr
  refine SimR.bind2 (hS.value _ _ _ hr) ?_
  intro mts a b hr
  refine SimR.bind2 (hS.value _ _ _ hr) ?_
  intro good a b hr
  refine SimR.bind2 (hS.value _ _ _ hr) ?_
  intro mlazy a b hr
  refine SimR.bind2 (hS.value _ _ _ hr) ?_
  intro nice a b hr
  refine SimR.bind2 (hS.value _ _ _ hr) ?_
  intro chain a b hr
  refine SimR.bind2 (hS.value _ _ _ hr) ?_
  intro minLen a b hr
  refine SimR.bind2 (hS.value _ _ _ hr) ?_
  intro pol a b hr
  refine SimR.bind2 (Rel := Rel) ?_ ?_
  · refine SimR.ite (fun _ => hS.value _ _ _ hr) (fun _ => ?_)
    exact SimR.ite (fun _ => SimR.pure ⟨rfl, hr⟩) (fun _ => SimR.throw _ _)
  intro limit a b hr
  refine SimR.ite (fun _ => SimR.throw_bind _ _ _) (fun _ => ?_)
  refine SimR.ite (fun _ => SimR.throw_bind _ _ _) (fun _ => ?_)
  refine SimR.ite (fun _ => SimR.throw_bind _ _ _) (fun _ => ?_)
  exact SimR.ok ⟨rfl, hr⟩

end Preflate.Proofs
