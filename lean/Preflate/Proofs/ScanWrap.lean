/- Helper lemmas for C06 (3): what the header parsers compute on the specification-side wrappers. -/
import Preflate.Proofs.ScanLoop
namespace Preflate.Proofs
open Preflate

-- ---------------------------------------------------------------------------------------------
-- lists

theorem getD_pre (pre l : Bytes) (k : Nat) : (pre ++ l).getD (pre.length + k) 0 = l.getD k 0 := by
  simp [List.getD_eq_getElem?_getD, List.getElem?_append_right]

theorem drop_pre (pre l : Bytes) (k : Nat) : (pre ++ l).drop (pre.length + k) = l.drop k := by
  rw [← List.drop_drop, List.drop_left]

-- ---------------------------------------------------------------------------------------------
-- gzip

theorem ofLe16_le16 (v : Nat) (h : v < 65536) : ofLe16 (le16 v) = v := by
  simp only [le16, ofLe16]; omega

theorem skipCString_append (nm rest : Bytes) (h : ∀ b ∈ nm, b ≠ 0) (n : Nat) :
    skipCString (nm ++ 0 :: rest) n = .ok (n + nm.length + 1) := by
  induction nm generalizing n with
  | nil => simp [skipCString]
  | cons b t ih =>
    have hb : b ≠ 0 := h b (by simp)
    simp only [List.cons_append, skipCString, hb, if_false]
    rw [ih (fun x hx => h x (by simp [hx]))]
    simp only [List.length_cons]; congr 1; omega

theorem gz_flags (g : GzipFields) (hr : g.reservedFlags % 2 ^ 5 / 2 = 0) :
    (g.flags / 4 % 2 = 1 ↔ g.extra.isSome) ∧ (g.flags / 8 % 2 = 1 ↔ g.name.isSome) ∧
    (g.flags / 16 % 2 = 1 ↔ g.comment.isSome) ∧ (g.flags / 2 % 2 = 1 ↔ g.hcrc.isSome) := by
  unfold GzipFields.flags
  cases g.extra <;> cases g.name <;> cases g.comment <;> cases g.hcrc <;>
    simp only [Option.isSome_none, Option.isSome_some, if_true, if_false, Bool.false_eq_true, iff_false, iff_true] <;> omega

theorem getD_left (P T : Bytes) (k : Nat) (h : k < P.length) : (P ++ T).getD k 0 = P.getD k 0 := by
  simp [List.getD_eq_getElem?_getD, List.getElem?_append_left h]


theorem skipGzip_eval (P E N C H rest : Bytes) (flags : Nat)
    (hP : P.length = 10) (h2 : P.getD 2 0 = 8) (h3 : P.getD 3 0 = flags)
    (hE : if flags / 4 % 2 = 1 then ∃ e, E = le16 e.length ++ e ∧ e.length < 65536 else E = [])
    (hN : if flags / 8 % 2 = 1 then ∃ nm, N = nm ++ [0] ∧ ∀ b ∈ nm, b ≠ 0 else N = [])
    (hC : if flags / 16 % 2 = 1 then ∃ nm, C = nm ++ [0] ∧ ∀ b ∈ nm, b ≠ 0 else C = [])
    (hH : if flags / 2 % 2 = 1 then H.length = 2 else H = []) :
    skipGzipHeader (P ++ (E ++ (N ++ (C ++ (H ++ rest))))) =
      .ok (10 + E.length + N.length + C.length + H.length) := by
  generalize hs : P ++ (E ++ (N ++ (C ++ (H ++ rest)))) = s
  have hlen : s.length = 10 + E.length + N.length + C.length + H.length + rest.length := by
    subst hs; simp only [List.length_append, hP]; omega
  have hd : ∀ k, s.drop (10 + k) = (E ++ (N ++ (C ++ (H ++ rest)))).drop k := by
    intro k; subst hs; rw [← hP, drop_pre]
  have hg2 : s.getD 2 0 = 8 := by subst hs; rw [getD_left _ _ _ (by omega), h2]
  have hg3 : s.getD 3 0 = flags := by subst hs; rw [getD_left _ _ _ (by omega), h3]
  have hA : gzA s = .ok (10 + E.length) := by
    unfold gzA
    rw [hg3]
    split
    · rename_i hb
      rw [if_pos hb] at hE
      obtain ⟨e, rfl, he⟩ := hE
      have : (s.drop 10).take 2 = le16 e.length := by
        rw [hd 0]; simp [le16]
      rw [this, ofLe16_le16 _ he]
      simp only [List.length_append, le16, List.length_cons, List.length_nil] at hlen ⊢
      rw [if_neg (by omega), if_neg (by omega)]
      congr 1; omega
    · rename_i hb
      rw [if_neg hb] at hE
      subst hE; rfl
  have hStr : ∀ (bit n : Nat) (X rest' : Bytes), s.drop n = X ++ rest' →
      (if flags / bit % 2 = 1 then ∃ nm, X = nm ++ [0] ∧ ∀ b ∈ nm, b ≠ 0 else X = []) →
      gzStr s bit n = .ok (n + X.length) := by
    intro bit n X rest' hdn hX
    unfold gzStr
    rw [hg3]
    split
    · rename_i hb
      rw [if_pos hb] at hX
      obtain ⟨nm, rfl, hnm⟩ := hX
      rw [hdn, List.append_assoc, List.singleton_append, skipCString_append _ _ hnm]
      simp only [List.length_append, List.length_cons, List.length_nil]; rfl
    · rename_i hb
      rw [if_neg hb] at hX
      subst hX; rfl
  have hN' : gzStr s 8 (10 + E.length) = .ok (10 + E.length + N.length) :=
    hStr 8 _ N (C ++ (H ++ rest)) (by rw [hd, List.drop_left]) hN
  have hC' : gzStr s 16 (10 + E.length + N.length) = .ok (10 + E.length + N.length + C.length) :=
    hStr 16 _ C (H ++ rest) (by rw [Nat.add_assoc, hd, ← List.drop_drop, List.drop_left, List.drop_left]) hC
  have hD : gzD s (10 + E.length + N.length + C.length) =
      .ok (10 + E.length + N.length + C.length + H.length) := by
    unfold gzD
    rw [hg3]
    split
    · rename_i hb
      rw [if_pos hb] at hH
      rw [if_neg (by omega), hH]
    · rename_i hb
      rw [if_neg hb] at hH
      subst hH; rfl
  rw [skipGzipHeader_eq, if_neg (by omega), if_neg (by rw [hg2]; exact fun h => h rfl), hA]
  show gzStr s 8 (10 + E.length) >>= _ = _
  rw [hN']
  show gzStr s 16 (10 + E.length + N.length) >>= _ = _
  rw [hC']
  exact hD

def gzE (g : GzipFields) : Bytes := match g.extra with | some e => le16 e.length ++ e | none => []
def gzN (g : GzipFields) : Bytes := match g.name with | some n => n ++ [0] | none => []
def gzC (g : GzipFields) : Bytes := match g.comment with | some c => c ++ [0] | none => []
def gzH (g : GzipFields) : Bytes := match g.hcrc with | some h => h | none => []

theorem gzipHeader_form (g : GzipFields) : gzipHeader g =
    ([0x1f, 0x8b, 8, g.flags] ++ g.mtime ++ [g.xfl, g.os]) ++ (gzE g ++ (gzN g ++ (gzC g ++ gzH g))) := by
  simp only [gzipHeader, gzE, gzN, gzC, gzH, List.append_assoc]; rfl

theorem skipGzipHeader_gzipHeader (g : GzipFields) (hg : g.WF) (rest : Bytes) :
    skipGzipHeader (gzipHeader g ++ rest) = .ok (gzipHeader g).length := by
  obtain ⟨fE, fN, fC, fH⟩ := gz_flags g hg.reserved.1
  have hP : ([0x1f, 0x8b, 8, g.flags] ++ g.mtime ++ [g.xfl, g.os]).length = 10 := by
    simp [hg.mtime]
  have hlen : (gzipHeader g).length = 10 + (gzE g).length + (gzN g).length + (gzC g).length + (gzH g).length := by
    rw [gzipHeader_form]; simp only [List.length_append, hP]; omega
  rw [hlen, gzipHeader_form]
  simp only [List.append_assoc (gzE g), List.append_assoc (gzN g), List.append_assoc (gzC g), List.append_assoc _ _ rest]
  refine skipGzip_eval _ _ _ _ _ rest g.flags hP rfl rfl ?_ ?_ ?_ ?_
  · unfold gzE
    cases he : g.extra with
    | none => rw [if_neg (by rw [fE, he]; simp)]
    | some e => rw [if_pos (by rw [fE, he]; simp)]; exact ⟨e, rfl, hg.extra e he⟩
  · unfold gzN
    cases he : g.name with
    | none => rw [if_neg (by rw [fN, he]; simp)]
    | some e => rw [if_pos (by rw [fN, he]; simp)]; exact ⟨e, rfl, hg.name e he⟩
  · unfold gzC
    cases he : g.comment with
    | none => rw [if_neg (by rw [fC, he]; simp)]
    | some e => rw [if_pos (by rw [fC, he]; simp)]; exact ⟨e, rfl, hg.comment e he⟩
  · unfold gzH
    cases he : g.hcrc with
    | none => rw [if_neg (by rw [fH, he]; simp)]
    | some e => rw [if_pos (by rw [fH, he]; simp)]; exact hg.hcrc e he

-- ---------------------------------------------------------------------------------------------
-- zip

def zipFixed (z : ZipFields) : Bytes :=
  le32 0x04034b50 ++ le16 z.version ++ le16 z.flags ++ le16 8 ++ le16 z.time ++ le16 z.date ++
  le32 z.crc ++ le32 z.csize ++ le32 z.usize ++ le16 z.name.length ++ le16 z.extra.length

theorem zipHeader_form (z : ZipFields) : zipHeader z = zipFixed z ++ (z.name ++ z.extra) := by
  simp only [zipHeader, zipFixed, List.append_assoc]

theorem zipFixed_length (z : ZipFields) : (zipFixed z).length = 30 := by
  simp [zipFixed, le16, le32]

theorem zipFixed_fields (z : ZipFields) (T : Bytes) :
    (zipFixed z ++ T).take 4 = le32 0x04034b50 ∧ ((zipFixed z ++ T).drop 8).take 2 = le16 8 ∧
    ((zipFixed z ++ T).drop 26).take 2 = le16 z.name.length ∧
    ((zipFixed z ++ T).drop 28).take 2 = le16 z.extra.length := by
  simp only [zipFixed, le16, le32, List.cons_append, List.nil_append]
  exact ⟨rfl, rfl, rfl, rfl⟩

theorem parseZipStream_zipHeader (o : Oracle) (z : ZipFields) (rest : Bytes) (r : Res)
    (hn : z.name.length < 65536) (hx : z.extra.length < 65536)
    (hacc : o.verified rest = .ok r) :
    parseZipStream o (zipHeader z ++ rest) = .ok ((zipHeader z).length, r) := by
  have hform : zipHeader z ++ rest = zipFixed z ++ (z.name ++ (z.extra ++ rest)) := by
    rw [zipHeader_form]; simp only [List.append_assoc]
  have hlen : (zipHeader z).length = 30 + z.name.length + z.extra.length := by
    rw [zipHeader_form]; simp only [List.length_append, zipFixed_length]; omega
  obtain ⟨f1, f2, f3, f4⟩ := zipFixed_fields z (z.name ++ (z.extra ++ rest))
  have hl : (zipHeader z ++ rest).length = 30 + z.name.length + z.extra.length + rest.length := by
    simp only [List.length_append, hlen]
  have hd : (zipHeader z ++ rest).drop (30 + z.name.length + z.extra.length) = rest := by
    rw [← hlen, List.drop_left]
  rw [← hform] at f1 f2 f3 f4
  rw [parseZipStream_eq, f1, f2, f3, f4, ofLe16_le16 _ hn, ofLe16_le16 _ hx, hl]
  rw [if_neg (by omega), if_neg (by decide), if_neg (by omega), if_pos (by decide), if_neg (by omega)]
  unfold zipVerify
  rw [hd, hacc, hlen]

-- ---------------------------------------------------------------------------------------------
-- IDAT

theorem drop_app (A X : Bytes) (n k : Nat) (h : A.length = n) : (A ++ X).drop (n + k) = X.drop k := by
  subst h; exact drop_pre _ _ _

theorem ofBe32_be32 (n : Nat) (h : n < 2 ^ 32) : ofBe32 (be32 n) = n := by
  simp only [be32, ofBe32]; omega

theorem be32_length (n : Nat) : (be32 n).length = 4 := rfl

theorem chunk_access (front A B C D rest : Bytes) (hA : A.length = 4) (hB : B.length = 4) (hD : D.length = 4) :
    let s := front ++ (A ++ (B ++ (C ++ (D ++ rest))))
    (s.drop front.length).take 4 = A ∧ (s.drop (front.length + 4)).take 4 = B ∧
    (s.drop (front.length + 8)).take C.length = C ∧ (s.drop (front.length + C.length + 8)).take 4 = D ∧
    s.length = front.length + C.length + 12 + rest.length := by
  intro s
  refine ⟨?_, ?_, ?_, ?_, ?_⟩
  · show ((front ++ _).drop front.length).take 4 = A
    rw [List.drop_left, List.take_left' hA]
  · show ((front ++ _).drop (front.length + 4)).take 4 = B
    rw [drop_pre, drop_app A _ 4 0 hA, List.drop_zero, List.take_left' hB]
  · show ((front ++ _).drop (front.length + 8)).take C.length = C
    rw [drop_pre, drop_app A _ 4 4 hA, drop_app B _ 4 0 hB, List.drop_zero, List.take_left' rfl]
  · show ((front ++ _).drop (front.length + C.length + 8)).take 4 = D
    rw [Nat.add_assoc, drop_pre, show C.length + 8 = 4 + (4 + (C.length + 0)) by omega,
      drop_app A _ 4 _ hA, drop_app B _ 4 _ hB, drop_app C _ _ 0 rfl, List.drop_zero, List.take_left' hD]
  · show (front ++ _).length = _
    simp only [List.length_append, hA, hB, hD]; omega

theorem idatWrap_cons (crc : Bytes → Nat) (p : Bytes) (ps : List Bytes) :
    idatWrap crc (p :: ps) = pngChunk crc idatTag p ++ idatWrap crc ps := by
  simp [idatWrap]

theorem pngChunk_length (crc : Bytes → Nat) (p : Bytes) : (pngChunk crc idatTag p).length = p.length + 12 := by
  simp [pngChunk, idatTag, be32]

theorem idatChunks_walk (crc : Bytes → Nat) (hcrc : ∀ x, crc x < 2 ^ 32) (suf : Bytes) (hend : IdatEnd crc suf) :
    ∀ (ps : List Bytes) (front : Bytes) (fuel : Nat) (payload : Bytes) (sizes : List Nat),
      (∀ p ∈ ps, p ≠ [] ∧ p.length < 2 ^ 32) → ps.length < fuel →
      idatChunks crc (front ++ (idatWrap crc ps ++ suf)) fuel front.length payload sizes =
        .ok (payload ++ ps.flatten, sizes ++ ps.map List.length, front.length + (idatWrap crc ps).length) := by
  intro ps
  induction ps with
  | nil =>
    intro front fuel payload sizes _ hf
    obtain ⟨fuel, rfl⟩ : ∃ f, fuel = f + 1 := ⟨fuel - 1, by simp at hf; omega⟩
    simp only [idatWrap, List.flatMap_nil, List.nil_append, List.flatten_nil, List.append_nil, List.map_nil,
      List.length_nil, Nat.add_zero]
    unfold idatChunks
    split
    · rename_i h12
      have h1 : ((front ++ suf).drop front.length).take 4 = suf.take 4 := by rw [List.drop_left]
      have h2 : ((front ++ suf).drop (front.length + 4)).take 4 = (suf.drop 4).take 4 := by rw [drop_pre]
      have h3 : ∀ k, ((front ++ suf).drop (front.length + 8)).take k = (suf.drop 8).take k := by
        intro k; rw [drop_pre]
      have h4 : ∀ k, ((front ++ suf).drop (front.length + k + 8)).take 4 = (suf.drop (k + 8)).take 4 := by
        intro k; rw [Nat.add_assoc, drop_pre]
      dsimp only
      rw [h1, h2, h3, h4]
      simp only [List.length_append] at h12 ⊢
      rcases hend with h | h | h | h | h
      · omega
      · rw [if_pos (Or.inl h)]
      · rw [if_pos (Or.inr (by omega))]
      · split
        · rfl
        · first | rfl | rw [if_pos h]
      · split
        · rfl
        · split
          · rfl
          · rename_i hc _
            have hty : (suf.drop 4).take 4 = idatTag := by
              apply Classical.byContradiction; intro hne; exact hc (Or.inl hne)
            rw [hty, if_pos h]
    · rfl
  | cons p ps ih =>
    intro front fuel payload sizes hp hf
    obtain ⟨fuel, rfl⟩ : ∃ f, fuel = f + 1 := ⟨fuel - 1, by simp at hf; omega⟩
    obtain ⟨hpne, hplt⟩ := hp p (by simp)
    have hform : front ++ (idatWrap crc (p :: ps) ++ suf) =
        front ++ (be32 p.length ++ (idatTag ++ (p ++ (be32 (crc (idatTag ++ p)) ++ (idatWrap crc ps ++ suf))))) := by
      rw [idatWrap_cons]; simp only [pngChunk, List.append_assoc]
    obtain ⟨a1, a2, a3, a4, a5⟩ := chunk_access front (be32 p.length) idatTag p (be32 (crc (idatTag ++ p)))
      (idatWrap crc ps ++ suf) rfl rfl rfl
    rw [← hform] at a1 a2 a3 a4 a5
    have hpl : p.length ≠ 0 := by intro h; exact hpne (List.eq_nil_of_length_eq_zero h)
    unfold idatChunks
    dsimp only
    rw [a1, a2, ofBe32_be32 _ hplt, a3, a4, ofBe32_be32 _ (hcrc _)]
    rw [if_pos (by omega), if_neg (by simp only [ne_eq, not_true_eq_false, false_or]; omega), if_neg hpl,
      if_neg (by simp)]
    have hfront : front.length + p.length + 12 = (front ++ pngChunk crc idatTag p).length := by
      rw [List.length_append, pngChunk_length]; omega
    have hs' : front ++ (idatWrap crc (p :: ps) ++ suf) = (front ++ pngChunk crc idatTag p) ++ (idatWrap crc ps ++ suf) := by
      rw [idatWrap_cons]; simp only [List.append_assoc]
    rw [hfront, hs', ih _ fuel _ _ (fun x hx => hp x (by simp [hx])) (by simp at hf; omega)]
    simp only [List.flatten_cons, List.map_cons, List.append_assoc, List.singleton_append, idatWrap_cons,
      List.length_append]
    congr 3; omega

theorem idatWrap_length_ge (crc : Bytes → Nat) (ps : List Bytes) : ps.length ≤ (idatWrap crc ps).length := by
  induction ps with
  | nil => simp
  | cons p ps ih => rw [idatWrap_cons, List.length_append, pngChunk_length, List.length_cons]; omega

theorem parseIdat_idatWrap (crc : Bytes → Nat) (hcrc : ∀ x, crc x < 2 ^ 32) (suf : Bytes) (hend : IdatEnd crc suf)
    (pieces : List Bytes) (hp : ∀ p ∈ pieces, p ≠ [] ∧ p.length < 2 ^ 32) (hne : pieces ≠ [])
    (hdr s adler : Bytes) (hcat : pieces.flatten = hdr ++ s ++ adler) (hhdr : hdr.length = 2)
    (had : adler.length = 4) :
    ∃ c, parseIdat crc (idatWrap crc pieces ++ suf) = .ok (c, s) ∧
      c.totalChunkLength = (idatWrap crc pieces).length := by
  have hwalk := idatChunks_walk crc hcrc suf hend pieces [] ((idatWrap crc pieces ++ suf).length + 1) [] [] hp
    (by have := idatWrap_length_ge crc pieces; simp only [List.length_append]; omega)
  simp only [List.nil_append, List.length_nil, Nat.zero_add] at hwalk
  obtain ⟨p, ps, rfl⟩ := List.exists_cons_of_ne_nil hne
  have hform : idatWrap crc (p :: ps) ++ suf =
      [] ++ (be32 p.length ++ (idatTag ++ (p ++ (be32 (crc (idatTag ++ p)) ++ (idatWrap crc ps ++ suf))))) := by
    rw [idatWrap_cons]; simp only [pngChunk, List.append_assoc, List.nil_append]
  obtain ⟨_, a2, _, _, a5⟩ := chunk_access [] (be32 p.length) idatTag p (be32 (crc (idatTag ++ p)))
      (idatWrap crc ps ++ suf) rfl rfl rfl
  rw [← hform] at a2 a5
  simp only [List.length_nil, Nat.zero_add] at a2 a5
  rw [parseIdat_eq, if_neg (by rw [a2, a5]; simp only [ne_eq, not_true_eq_false, or_false]; omega), hwalk]
  show ∃ c, idatFinish _ = _ ∧ _
  unfold idatFinish
  dsimp only
  have hl : ((p :: ps).flatten).length = s.length + 6 := by
    rw [hcat]; simp only [List.length_append, hhdr, had]; omega
  rw [if_neg (by omega)]
  have hs : List.take ((p :: ps).flatten.length - 6) (List.drop 2 (p :: ps).flatten) = s := by
    rw [hl, hcat, List.append_assoc, ← hhdr, List.drop_left]
    simp
  rw [hs]
  exact ⟨_, rfl, rfl⟩

end Preflate.Proofs
