/- The VP8 bool coder (crate cabac 0.6.0, transcribed in Model/VP8.lean) is lossless. -/
import Preflate.Model.VP8
namespace Preflate.Proofs
open Preflate

/-- whatever sequence of binary decisions (adaptive contexts and bypass bits, in any order) is written,
    reading the produced bytes back under the same context sequence returns the same bits -/
theorem vp8_lossless (evs : List Ev) :
    VP8.readBits (VP8.writeEvents evs) (evs.map (·.ctx)) = evs.map (·.bit) := by
  sorry

end Preflate.Proofs
