/-
The VP8 bool coder of crate `cabac` (Model/VP8.lean) is lossless: reading the bytes produced by
`writeEvents` under the same sequence of contexts returns the bits that were written.

Proof outline (details in VP8Arith / VP8Writer / VP8Finish / VP8Reader):
  * the 32-bit writer refines an exact interval coder over Nat (`WInv`, `putSplit_spec`);
  * `finish` flushes exactly the low end of the last interval, with ≥ 31 padding bits (`finish_final`),
    so the produced bytes lie in the interval of every intermediate writer state (`Final`);
  * the reader window is (code prefix − low end) aligned at bit 56 (`DInv`); `getSplit` therefore
    takes the encoder's decision (`getSplit_spec`);
  * writer and reader thread identical context counts.
-/
import Preflate.Proofs.VP8Reader
namespace Preflate.Proofs
open Preflate Preflate.VP8
set_option linter.unusedVariables false

/-- the step function folded by `writeEvents` -/
def stepW (wc : Writer × Array Nat) (e : Ev) : Writer × Array Nat :=
  match e.ctx with
  | none => (wc.1.putBypass e.bit, wc.2)
  | some c =>
      let i := ctxIndex c
      let (w, n) := wc.1.put e.bit (wc.2.getD i 0x101)
      (w, wc.2.set! i n)

/-- the step function folded by `readBits` -/
def stepR (st : Reader × Array Nat × Array Bool) (c : Option CtxId) : Reader × Array Nat × Array Bool :=
  let (r, cs, out) := st
  match c with
  | none => let (b, r) := r.getBypass; (r, cs, out.push b)
  | some c =>
      let i := ctxIndex c
      let (b, r, n) := r.get (cs.getD i 0x101)
      (r, cs.set! i n, out.push b)

theorem writeEvents_eq (evs : List Ev) :
    writeEvents evs = (evs.foldl stepW (Writer.new, freshContexts)).1.finish := rfl

theorem readBits_eq (bytes : Array UInt8) (ctxs : List (Option CtxId)) :
    readBits bytes ctxs = (ctxs.foldl stepR (Reader.new bytes, freshContexts, #[])).2.2.toList := by
  unfold readBits
  unfold stepR
  generalize List.foldl _ (Reader.new bytes, freshContexts, #[]) ctxs = p
  obtain ⟨a, b, c⟩ := p
  rfl

/-- a decoder positioned at `w` has enough input left -/
theorem Final.len {w : Writer} {out : Array UInt8} (h : Final w out) : WT w + 8 ≤ 8 * out.size := by
  obtain ⟨d, e, h1, h2, _⟩ := h; omega

theorem prefill (r : Reader) (w : Writer) (out : Array UInt8) (h : DInv r w out) (hf : Final w out) :
    DInv (if r.count < 0 then r.fill else r) w out ∧ 0 ≤ (if r.count < 0 then r.fill else r).count := by
  by_cases hc : r.count < 0
  · simp only [hc, if_true]; exact fill_spec r w out h hf.len
  · simp only [hc, if_false]; exact ⟨h, by omega⟩

theorem get_spec (r : Reader) (w : Writer) (out : Array UInt8) (b : Bool) (counts : Nat)
    (hw : WInv w) (h : DInv r w out) (hf : Final (w.put b counts).1 out) :
    ∃ r', r.get counts = (b, r', (w.put b counts).2) ∧ DInv r' (w.put b counts).1 out := by
  have hsb := split_bounds w.range (probability counts) (by have := hw.r_lo; omega) (probability_lt _)
  have hf' : Final (w.putSplit b (1 + (((w.range - 1) * probability counts) >>> 8))) out := hf
  have hf0 := final_back w b _ out hw hsb.1 hsb.2 hf'
  obtain ⟨p1, p2⟩ := prefill r w out h hf0
  obtain ⟨r', g1, g2⟩ := getSplit_spec _ w out b _ p1 p2 hw hsb.1 hsb.2 hf'
  refine ⟨r', ?_, g2⟩
  simp only [Reader.get, Writer.put]
  rw [p1.rng, g1]

theorem getBypass_spec (r : Reader) (w : Writer) (out : Array UInt8) (b : Bool)
    (hw : WInv w) (h : DInv r w out) (hf : Final (w.putBypass b) out) :
    ∃ r', r.getBypass = (b, r') ∧ DInv r' (w.putBypass b) out := by
  have hsb := bypass_bounds w.range (by have := hw.r_lo; omega)
  have hf' : Final (w.putSplit b (1 + (w.range >>> 1))) out := hf
  have hf0 := final_back w b _ out hw hsb.1 hsb.2 hf'
  obtain ⟨p1, p2⟩ := prefill r w out h hf0
  obtain ⟨r', g1, g2⟩ := getSplit_spec _ w out b _ p1 p2 hw hsb.1 hsb.2 hf'
  refine ⟨r', ?_, g2⟩
  simp only [Reader.getBypass]
  rw [p1.rng, g1]

theorem put_inv (w : Writer) (b : Bool) (counts : Nat) (hw : WInv w) : WInv (w.put b counts).1 := by
  have hsb := split_bounds w.range (probability counts) (by have := hw.r_lo; omega) (probability_lt _)
  exact (putSplit_ideal w b _ hw hsb.1 hsb.2).1

theorem put_final_back (w : Writer) (b : Bool) (counts : Nat) (out : Array UInt8) (hw : WInv w)
    (hf : Final (w.put b counts).1 out) : Final w out := by
  have hsb := split_bounds w.range (probability counts) (by have := hw.r_lo; omega) (probability_lt _)
  exact final_back w b _ out hw hsb.1 hsb.2 hf

theorem putBypass_inv (w : Writer) (b : Bool) (hw : WInv w) : WInv (w.putBypass b) := by
  have hsb := bypass_bounds w.range (by have := hw.r_lo; omega)
  exact (putSplit_ideal w b _ hw hsb.1 hsb.2).1

theorem putBypass_final_back (w : Writer) (b : Bool) (out : Array UInt8) (hw : WInv w)
    (hf : Final (w.putBypass b) out) : Final w out := by
  have hsb := bypass_bounds w.range (by have := hw.r_lo; omega)
  exact final_back w b _ out hw hsb.1 hsb.2 hf

theorem stepW_inv (w : Writer) (cs : Array Nat) (e : Ev) (hw : WInv w) : WInv (stepW (w, cs) e).1 := by
  unfold stepW
  cases e.ctx with
  | none => exact putBypass_inv w _ hw
  | some c => exact put_inv w _ _ hw

theorem stepW_final_back (w : Writer) (cs : Array Nat) (e : Ev) (out : Array UInt8) (hw : WInv w)
    (hf : Final (stepW (w, cs) e).1 out) : Final w out := by
  unfold stepW at hf
  cases he : e.ctx with
  | none => rw [he] at hf; exact putBypass_final_back w _ out hw hf
  | some c => rw [he] at hf; exact put_final_back w _ _ out hw hf

/-- the final bytes lie in the interval of every earlier writer state -/
theorem final_of_fold (evs : List Ev) : ∀ (w : Writer) (cs : Array Nat), WInv w →
    Final w (evs.foldl stepW (w, cs)).1.finish := by
  induction evs with
  | nil => intro w cs hw; exact finish_final w hw
  | cons e evs ih =>
    intro w cs hw
    simp only [List.foldl_cons]
    have h1 := stepW_inv w cs e hw
    have := ih (stepW (w, cs) e).1 (stepW (w, cs) e).2 h1
    exact stepW_final_back w cs e _ hw this

/-- one event: the reader takes the writer's decision and stays in step -/
theorem step_pair (w : Writer) (cs : Array Nat) (r : Reader) (acc : Array Bool) (out : Array UInt8)
    (e : Ev) (hw : WInv w) (hd : DInv r w out) (hf : Final (stepW (w, cs) e).1 out) :
    ∃ r', stepR (r, cs, acc) e.ctx = (r', (stepW (w, cs) e).2, acc.push e.bit) ∧
      DInv r' (stepW (w, cs) e).1 out := by
  unfold stepW at hf ⊢
  unfold stepR
  cases he : e.ctx with
  | none =>
    rw [he] at hf
    obtain ⟨r', g1, g2⟩ := getBypass_spec r w out e.bit hw hd hf
    exact ⟨r', by simp only [g1], g2⟩
  | some c =>
    rw [he] at hf
    obtain ⟨r', g1, g2⟩ := get_spec r w out e.bit _ hw hd hf
    exact ⟨r', by simp only [g1], g2⟩

theorem main_induction (out : Array UInt8) (evs : List Ev) : ∀ (w : Writer) (cs : Array Nat)
    (r : Reader) (acc : Array Bool), WInv w → DInv r w out →
    (evs.foldl stepW (w, cs)).1.finish = out →
    ((evs.map (·.ctx)).foldl stepR (r, cs, acc)).2.2.toList = acc.toList ++ evs.map (·.bit) := by
  induction evs with
  | nil => intro w cs r acc _ _ _; simp
  | cons e evs ih =>
    intro w cs r acc hw hd hout
    simp only [List.foldl_cons, List.map_cons] at hout ⊢
    have hf : Final (stepW (w, cs) e).1 out := by
      rw [← hout]
      exact final_of_fold evs (stepW (w, cs) e).1 (stepW (w, cs) e).2 (stepW_inv w cs e hw)
    obtain ⟨r', g1, g2⟩ := step_pair w cs r acc out e hw hd hf
    rw [g1, ih (stepW (w, cs) e).1 (stepW (w, cs) e).2 r' (acc.push e.bit) (stepW_inv w cs e hw) g2 hout]
    simp

/-! ### initial states -/

theorem winv_init : WInv ({} : Writer) := by
  refine ⟨by decide, by decide, by decide, by decide, by decide, ?_⟩
  simp [WV, WT, Wk, aval]

theorem dinv_init (out : Array UInt8) :
    DInv { value := 0, range := 255, count := -8, input := out, pos := 0 } ({} : Writer) out := by
  have hDA : DA { value := 0, range := 255, count := -8, input := out, pos := 0 } = 64 := by
    simp [DA]
  refine ⟨rfl, rfl, Nat.zero_le _, ?_, ?_, ?_, ?_, ?_⟩
  · rw [hDA]
  · rw [hDA]; rfl
  · rw [hDA]; simp [WT, Wk]
  · simp [WV, Wk, aval, pref]
  · simp

/-- **Losslessness of the VP8 bool coder.** -/
theorem vp8_lossless (evs : List Ev) :
    VP8.readBits (VP8.writeEvents evs) (evs.map (·.ctx)) = evs.map (·.bit) := by
  rw [readBits_eq, writeEvents_eq]
  generalize hout : (evs.foldl stepW (Writer.new, freshContexts)).1.finish = out
  have hw0 := winv_init
  have hwn : WInv Writer.new := put_inv _ false 0x101 hw0
  have hfn : Final Writer.new out := by rw [← hout]; exact final_of_fold evs _ _ hwn
  have hf0 : Final ({} : Writer) out := put_final_back _ false 0x101 out hw0 hfn
  obtain ⟨f1, f2⟩ := fill_spec _ _ out (dinv_init out) hf0.len
  obtain ⟨r', g1, g2⟩ := get_spec _ _ out false 0x101 hw0 f1 hfn
  have hnew : Reader.new out = r' := by
    simp only [Reader.new, g1]
  rw [hnew, main_induction out evs Writer.new freshContexts r' #[] hwn g2 hout]
  simp

end Preflate.Proofs
