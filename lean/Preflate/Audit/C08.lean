import Preflate.Props.C08
#print axioms Preflate.any_parameters_exact
#print axioms Preflate.readParams_writeParams
#print axioms Preflate.estimatorRange_wf
#print axioms Preflate.estimator_front_in_range
#print axioms Preflate.no_references_no_dictionary
#print axioms Preflate.param_layout_matches_source
