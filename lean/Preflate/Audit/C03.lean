import Preflate.Props.C03Public
#print axioms Preflate.public_agrees_spec
#print axioms Preflate.library_agrees_spec
#print axioms Preflate.public_agrees_rfc
#print axioms Preflate.parse_agrees_rfc
#print axioms Preflate.parseBits_agrees_rfc
#print axioms Preflate.specRFC_eq_spec_of_plain_header
#print axioms Preflate.length_tables_are_rfc
#print axioms Preflate.dist_tables_are_rfc
#print axioms Preflate.fixed_code_is_rfc
#print axioms Preflate.code_order_is_rfc
#print axioms Preflate.parse_eq_spec
#print axioms Preflate.parse_agrees_spec
#print axioms Preflate.decodeSymTree_eq
