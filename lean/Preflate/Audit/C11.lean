import Preflate.Props.LibraryApi
#print axioms Preflate.library_zstd_roundtrip_small
#print axioms Preflate.zstd_roundtrip
#print axioms Preflate.zstd_small_cap
#print axioms Preflate.zstd_not_frame
#print axioms Preflate.zstd_ok_within_capacity
