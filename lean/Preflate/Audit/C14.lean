import Preflate.Props.C14
#print axioms Preflate.no_shared_state
#print axioms Preflate.ffi_surface
#print axioms Preflate.inventory_covers_anchors
