import Preflate.Props.Library
#print axioms Preflate.library_frag_independent
#print axioms Preflate.library_error_clean
#print axioms Preflate.frag_independent
#print axioms Preflate.error_clean
#print axioms Preflate.staging_matches_source
