import Preflate.Props.C13
#print axioms Preflate.frag_independent
#print axioms Preflate.error_clean
#print axioms Preflate.staging_matches_source
