import Preflate.Props.C10
#print axioms Preflate.decode_encode
#print axioms Preflate.vp8_lossless
#print axioms Preflate.bytes_roundtrip
#print axioms Preflate.default_count_le_one
#print axioms Preflate.contexts_match_source
