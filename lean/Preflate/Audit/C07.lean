import Preflate.Props.C07
#print axioms Preflate.write_parse_bits
#print axioms Preflate.write_parse
