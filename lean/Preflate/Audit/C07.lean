import Preflate.Props.C07Complete
#print axioms Preflate.write_parse_bits
#print axioms Preflate.write_parse
#print axioms Preflate.parse_write
#print axioms Preflate.parse_wellFormed
#print axioms Preflate.parse_iff
