import Preflate.Props.LibraryApi
#print axioms Preflate.library_wrapper_roundtrip_small
#print axioms Preflate.wrapCompress_status
#print axioms Preflate.wrapCompress_undersized
#print axioms Preflate.wrapDecompress_status
#print axioms Preflate.wrapDecompress_panic_status
#print axioms Preflate.wrapper_roundtrip
#print axioms Preflate.wrapper_limit
