import Preflate.Props.C04
#print axioms Preflate.gen_eq_ref
#print axioms Preflate.decStream_encStream
#print axioms Preflate.add_policy_calls
