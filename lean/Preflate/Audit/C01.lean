import Preflate.Props.C01
#print axioms Preflate.recreate_expand_partial
#print axioms Preflate.container_constants_match_source
