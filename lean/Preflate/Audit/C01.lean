import Preflate.Props.LibrarySmall
#print axioms Preflate.library_round_trip_small
#print axioms Preflate.library_end_to_end_small
#print axioms Preflate.library_correction_size
#print axioms Preflate.library_round_trip
#print axioms Preflate.library_no_panic
#print axioms Preflate.recreate_expand_on
#print axioms Preflate.library_end_to_end
#print axioms Preflate.recreate_expand_partial
#print axioms Preflate.container_constants_match_source
