import Preflate.Props.PlainLimit
#print axioms Preflate.plain_limit_value
#print axioms Preflate.parse_plain_lt
#print axioms Preflate.parse_plain_le_limit
#print axioms Preflate.readBlock_limit
#print axioms Preflate.parse_tokens_le_limit
#print axioms Preflate.parse_tokens_lt
#print axioms Preflate.parse_tokenCountsSmall
#print axioms Preflate.parse_valid_unbounded
#print axioms Preflate.plain_limit_reached
