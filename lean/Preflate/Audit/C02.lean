import Preflate.Props.C02
#print axioms Preflate.hops_inv
#print axioms Preflate.decTree_encTree
#print axioms Preflate.decStream_encStream
#print axioms Preflate.parse_valid
#print axioms Preflate.recompress_analyze
#print axioms Preflate.parse_prefix
#print axioms Preflate.recompress_decompress
#print axioms Preflate.verify_same
#print axioms Preflate.decompress_prefix
#print axioms Preflate.analysis_ops_wf
#print axioms Preflate.chains_pred_bounded
#print axioms Preflate.decompress_bytes_chain
#print axioms Preflate.context_numbers_match_source
