import Preflate.Props.C05
#print axioms Preflate.parse_no_panic
#print axioms Preflate.parse_no_fuel
#print axioms Preflate.tree_index_safe
#print axioms Preflate.encStream_no_panic
#print axioms Preflate.verify_path_ok
