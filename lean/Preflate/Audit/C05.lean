import Preflate.Props.C05
