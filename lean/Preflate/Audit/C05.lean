import Preflate.Props.C05Public
#print axioms Preflate.public_outcomes
#print axioms Preflate.public_no_panic
#print axioms Preflate.estimate_no_panic
#print axioms Preflate.estimate_outcomes
#print axioms Preflate.encStream_only_err
#print axioms Preflate.calc_bit_lengths_total
#print axioms Preflate.parse_no_panic
#print axioms Preflate.parse_no_fuel
#print axioms Preflate.tree_index_safe
#print axioms Preflate.policyUpdate_totalShift
#print axioms Preflate.chain_positions_in_u16_partial
#print axioms Preflate.chain_positions_in_u16_estimated
#print axioms Preflate.estimator_front_no_panic
#print axioms Preflate.estimator_front_total
#print axioms Preflate.encStream_no_panic
#print axioms Preflate.verify_path_ok
