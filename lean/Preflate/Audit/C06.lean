import Preflate.Props.Library
#print axioms Preflate.library_found_zlib
#print axioms Preflate.library_found_gzip
#print axioms Preflate.library_found_zip
#print axioms Preflate.library_found_idat
#print axioms Preflate.found_zlib
#print axioms Preflate.found_gzip
#print axioms Preflate.found_zip
#print axioms Preflate.found_idat
#print axioms Preflate.deflate_chunk_carries_plaintext
#print axioms Preflate.signatures_match_source
