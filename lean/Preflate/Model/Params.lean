/-
preflate_parameter_estimator.rs: `PreflateParameters::write` / `read` — the parameter header at
the front of the correction data. Field order and widths are tied to the source by
`Props/C08.param_layout_matches_source` over the regenerated layout lists.
-/
import Preflate.Model.Predict
namespace Preflate

/-- PreflateParameters flattened (same order as the hook's parameter vector) -/
structure Params where
  strategy : Nat          -- PreflateStrategy discriminant 0..3
  huffStrategy : Nat      -- PreflateHuffStrategy discriminant 0..2
  zlibCompatible : Bool
  windowBits : Nat
  hashAlg : Nat           -- HASH_ALGORITHM_* id 0..7
  hashShift : Nat         -- only meaningful for hashAlg = 1 (Zlib)
  hashMask : Nat
  maxTokenCount : Nat
  maxDist3 : Nat
  veryFar : Bool
  matchesToStart : Bool
  isLazy : Bool           -- MatchingType::Lazy { good_length, max_lazy } vs Greedy
  goodLength : Nat
  maxLazy : Nat
  niceLength : Nat
  maxChain : Nat
  minLen : Nat
  addPolicy : Nat         -- 0 AddAll, 1 AddFirst, 2 AddFirstAndLast, 3 4k boundary, 4 32k boundary
  addLimit : Nat
deriving Repr, DecidableEq, Inhabited

def b2n (b : Bool) : Nat := if b then 1 else 0

/-- `u16::try_from(x).unwrap()` -/
def tryU16 (x : Nat) (site : String) : R Nat := if x < 65536 then .ok x else .error (.panic site)

/-- PreflateParameters::write -/
def writeParams (p : Params) : R (List Op) := do
  let wb ← tryU16 p.windowBits "write: window_bits"
  let hash ← (if p.hashAlg = 1 then do
      let sh ← tryU16 p.hashShift "write: hash_shift"
      pure [Op.value 4 1, Op.value 8 sh, Op.value 16 p.hashMask]
    else pure [Op.value 4 p.hashAlg] : R (List Op))
  let (good, mlazy) := if p.isLazy then (p.goodLength, p.maxLazy) else (0, 0)
  let nice ← tryU16 p.niceLength "write: nice_length"
  let chain ← tryU16 p.maxChain "write: max_chain"
  let minLen ← tryU16 p.minLen "write: min_len"
  let policy := if p.addPolicy = 1 ∨ p.addPolicy = 2 then [Op.value 3 p.addPolicy, Op.value 8 p.addLimit]
                else [Op.value 3 p.addPolicy]
  .ok ([Op.value 8 Gen.FILE_VERSION, Op.value 4 p.strategy, Op.value 4 p.huffStrategy,
        Op.value 1 (b2n p.zlibCompatible), Op.value 8 wb] ++ hash ++
       [Op.value 16 p.maxTokenCount, Op.value 16 p.maxDist3, Op.value 1 (b2n p.veryFar),
        Op.value 1 (b2n p.matchesToStart), Op.value 16 good, Op.value 16 mlazy, Op.value 16 nice,
        Op.value 16 chain, Op.value 16 minLen] ++ policy)

/-- PreflateParameters::read -/
def readParams (ops : List Op) : R (Params × List Op) := do
  let (ver, ops) ← popValue 8 ops
  if ver ≠ Gen.FILE_VERSION then throw (.panic "read: assert_eq!(FILE_VERSION, ..)")
  let (strategy, ops) ← popValue 4 ops
  let (huff, ops) ← popValue 4 ops
  let (zc, ops) ← popValue 1 ops
  let (wb, ops) ← popValue 8 ops
  let (alg, ops) ← popValue 4 ops
  let (shift, mask, ops) ← (if alg = 1 then do
      let (s, ops) ← popValue 8 ops
      let (m, ops) ← popValue 16 ops
      pure (s, m, ops)
    else pure (0, 0, ops) : R (Nat × Nat × List Op))
  let (mtc, ops) ← popValue 16 ops
  let (md3, ops) ← popValue 16 ops
  let (vf, ops) ← popValue 1 ops
  let (mts, ops) ← popValue 1 ops
  let (good, ops) ← popValue 16 ops
  let (mlazy, ops) ← popValue 16 ops
  let (nice, ops) ← popValue 16 ops
  let (chain, ops) ← popValue 16 ops
  let (minLen, ops) ← popValue 16 ops
  let (pol, ops) ← popValue 3 ops
  let (limit, ops) ← (if pol = 1 ∨ pol = 2 then popValue 8 ops
    else if pol = 0 ∨ pol = 3 ∨ pol = 4 then pure (0, ops) else throw .err : R (Nat × List Op))
  if strategy > 3 then throw .err
  if alg > 7 then throw .err
  if huff > 2 then throw .err
  .ok (⟨strategy, huff, zc ≠ 0, wb, alg, shift, mask, mtc, md3, vf ≠ 0, mts ≠ 0,
        mlazy > 0, if mlazy > 0 then good else 0, mlazy, nice, chain, minLen, pol, limit⟩, ops)

/-- every field fits the width it is serialised with, and the value is in canonical form
    (fields that are not transmitted are zero) -/
structure Params.WF (p : Params) : Prop where
  strategy : p.strategy ≤ 3
  huff : p.huffStrategy ≤ 2
  window : p.windowBits < 256
  alg : p.hashAlg ≤ 7
  shift : if p.hashAlg = 1 then p.hashShift < 256 else p.hashShift = 0
  mask : if p.hashAlg = 1 then p.hashMask < 65536 else p.hashMask = 0
  tokens : p.maxTokenCount < 65536
  dist3 : p.maxDist3 < 65536
  lazyOn : p.isLazy = true → 0 < p.maxLazy ∧ p.maxLazy < 65536 ∧ p.goodLength < 65536
  lazyOff : p.isLazy = false → p.maxLazy = 0 ∧ p.goodLength = 0
  nice : p.niceLength < 65536
  chain : p.maxChain < 65536
  minLen : p.minLen < 65536
  policy : p.addPolicy ≤ 4
  limit : if p.addPolicy = 1 ∨ p.addPolicy = 2 then p.addLimit < 256 else p.addLimit = 0

/-- the parameter vectors the estimator can emit (DESIGN.md C08), as a product of ranges:
    the no-dictionary vector, or window 9..15, block size 2^(6+m)-1, any of the 7 hashes (Zlib
    with a shift below 16), any add policy with limit ≤ 255, greedy or lazy (1..258), nice length
    and chain depth up to 4096/258, min_len 3..258 -/
def EstimatorRange (p : Params) : Prop :=
  (p = ⟨p.strategy, p.huffStrategy, true, 0, 0, 0, 0, 16386, 0, false, false, false, 0, 0, 0, 0, 0, 0, 0⟩ ∧
     (p.strategy = 2 ∨ p.strategy = 3) ∧ p.huffStrategy ≤ 2) ∨
  (p.strategy ≤ 1 ∧ p.huffStrategy ≤ 2 ∧ 9 ≤ p.windowBits ∧ p.windowBits ≤ 15 ∧
   1 ≤ p.hashAlg ∧ p.hashAlg ≤ 7 ∧
   (if p.hashAlg = 1 then p.hashShift < 16 ∧ p.hashMask < 32768 else p.hashShift = 0 ∧ p.hashMask = 0) ∧
   p.maxTokenCount < 32768 ∧ p.maxDist3 ≤ 32768 ∧
   (if p.isLazy then 1 ≤ p.maxLazy ∧ p.maxLazy ≤ 258 ∧ p.goodLength ≤ 258 else p.maxLazy = 0 ∧ p.goodLength = 0) ∧
   p.niceLength ≤ 258 ∧ 1 ≤ p.maxChain ∧ p.maxChain ≤ 4096 ∧ 3 ≤ p.minLen ∧ p.minLen ≤ 258 ∧
   p.addPolicy ≤ 4 ∧ (if p.addPolicy = 1 ∨ p.addPolicy = 2 then p.addLimit ≤ 255 else p.addLimit = 0))

instance (p : Params) : Decidable (EstimatorRange p) := by
  unfold EstimatorRange; infer_instance

end Preflate
