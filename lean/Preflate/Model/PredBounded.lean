/-
Boundedness of a predictor: what `encStream` needs from the heuristic side (`Pred`) so that every
correction it emits fits the correction codec (`Op.WF`: corrections below 2^31; at 2^31 the u32 shift
`1 << bl` of `write_exp_encoded` panics).

Which emitted values depend on the predictor at all (Model/Predict.lean):

* `Op.corr C_LEN (encDiff plen len)`: `plen` is the length answered by `predictTok` (possibly the
  `pending_reference` it stored one token earlier) or by `repredictTok`; `len` is the actual length
  (3..258 on a valid stream). `encDiff plen len < 2^31` for all such `len` needs `plen < 2^30 + 3`.
* `Op.corr C_LD_BITLEN (encDiff pd data)` and `Op.corr C_TREECODE_BITLEN (encDiff tc cl)`: `pd` / `tc`
  are entries of `calcBitLengths freq 15` / `calcBitLengths freq 7`; the actual value may be 0, so the
  bound needed is exactly `entry < 2^30`.
* everything else (`C_DIST_*`: at most 65535 hops by the `max_chain` counter of `calculate_hops`;
  `C_LD_TYPE`, `C_REPEAT_COUNT`, the `Op.value`s, the contexts) is bounded whatever the predictor answers;
  `maxTokenCount`, `windowBytes`, `candidates`, `update`, `init` need no hypothesis.

The one correction that is NOT bounded on a valid stream for any predictor is
`Op.corr C_TOKEN_COUNT (n + 1)` (n = tokens in the block, only `n < 2^32 - 1` from `StreamValid`):
that is an input-size matter, see `TokenCountsSmall`.
-/
import Preflate.Model.Valid
namespace Preflate

variable {H : Type}

/-- the common bound: twice a value below it still fits the correction codec -/
def PRED_BOUND : Nat := 2 ^ 30

/-- a `pending_reference` whose length is below the bound -/
def PendBounded (p : Option (Nat × Nat)) : Prop := ∀ l d, p = some (l, d) → l < PRED_BOUND

/-- a predicted token whose length is below the bound -/
def PTokBounded : PTok → Prop
  | .lit => True
  | .ref l _ => l < PRED_BOUND

/-- token part: predicted / repredicted lengths stay below 2^30, on states whose pending reference is
    below 2^30 (the invariant is needed because `predict_token` hands back a stored pending reference
    unexamined; `encBlock` starts from `pending := none`) -/
structure PredTokBounded (P : Pred H) : Prop where
  predict : ∀ (plain : Array Nat) (s : PState H), PendBounded s.pending →
    PTokBounded (P.predictTok plain s).1 ∧ PendBounded (P.predictTok plain s).2
  repredict : ∀ (plain : Array Nat) (s : PState H) (l d : Nat), PendBounded s.pending →
    P.repredictTok plain s = .ok (l, d) → l < PRED_BOUND

/-- bit-length part: the code lengths the Huffman length calculator answers are below 2^30 (the
    callers only ever ask for max_bits 15 and 7) -/
structure PredLenBounded (P : Pred H) : Prop where
  bitlen : ∀ (freq : List Nat) (maxBits : Nat), maxBits ≤ 15 →
    ∀ x ∈ P.calcBitLengths freq maxBits, x < PRED_BOUND

/-- the boundedness hypothesis of `encStream_ops_wf` -/
structure PredBounded (P : Pred H) : Prop extends PredTokBounded P, PredLenBounded P

/-- every Huffman block has fewer than 2^31 - 1 tokens, so that `Op.corr C_TOKEN_COUNT (n + 1)` fits.
    Implied by `plain.size < 2^31 - 1` on a valid stream (every token produces at least one byte). -/
def TokenCountsSmall (blocks : List Block) : Prop :=
  ∀ b ∈ blocks, (blockTokens b).length < 2 ^ 31 - 1

end Preflate
