/-
crate `cabac` 0.6.0, src/vp8.rs: executable transcription of VP8Context, VP8Writer, VP8Reader.

It makes the model produce and consume real correction BYTES (correspondence at byte level,
model-as-writer for C04). `Proofs/VP8*.lean` prove it lossless (`vp8_lossless`: reading the written
bytes back under the same context sequence returns the written bits, for every event list); the
transcription itself is tied to the crate by the `codec` requests (bytes compared on every run).
-/
import Preflate.Model.Codec
namespace Preflate.VP8

def u32 (x : Nat) : Nat := x % 4294967296
def u64 (x : Nat) : Nat := x % 18446744073709551616

/-- PROB_LOOKUP[counts] -/
def probability (counts : Nat) : Nat :=
  let a := counts >>> 8
  let b := counts &&& 255
  if a + b = 0 then 0 else ((a <<< 8) / (a + b)) % 256

def updateTrue (counts : Nat) : Nat :=
  if counts &&& 255 ≠ 255 then counts + 1
  else if counts ≤ 0x01ff then 0x00ff
  else ((((counts + 0x100) >>> 1) &&& 0xff00) % 65536) ||| 129

def updateFalse (counts : Nat) : Nat :=
  if counts = 0x00ff then 0x02ff
  else if counts + 0x100 < 65536 then counts + 0x100
  else if counts ≠ 0xff01 then (((1 + (counts &&& 255)) >>> 1) % 65536) ||| 0x8100
  else counts

/-- leading zeros of an 8-bit value -/
def lz8 (x : Nat) : Nat :=
  let x := x % 256
  if x = 0 then 8 else 7 - Nat.log2 x

structure Writer where
  low : Nat := 0
  range : Nat := 255
  bitsLeft : Int := -24
  buffer : Array UInt8 := #[]

/-- carry propagation in send_to_output: 0xFF bytes become 0 going backwards, the first other byte is
    incremented (the Rust asserts it never runs off the front of the buffer) -/
def carry (buf : Array UInt8) : Nat → Array UInt8
  | 0 => if buf.getD 0 0 == 255 then buf.set! 0 0 else buf.set! 0 (buf.getD 0 0 + 1)
  | x + 1 =>
      if buf.getD (x + 1) 0 == 255 then carry (buf.set! (x + 1) 0) x
      else buf.set! (x + 1) (buf.getD (x + 1) 0 + 1)

def Writer.putSplit (w : Writer) (value : Bool) (split : Nat) : Writer :=
  let (low, range) := if value then (u32 (w.low + split), w.range - split) else (w.low, split)
  let shift0 := lz8 range
  let range := u32 (range <<< shift0)
  let count : Int := w.bitsLeft + shift0
  if count ≥ 0 then
    let offset := (Int.ofNat shift0 - count).toNat
    let buffer := if (u32 (low <<< (offset - 1))) &&& 0x80000000 ≠ 0 then carry w.buffer (w.buffer.size - 1) else w.buffer
    let buffer := buffer.push (UInt8.ofNat ((low >>> (24 - offset)) % 256))
    let low := (u32 (low <<< offset)) &&& 0xffffff
    let shift := count.toNat
    { low := u32 (low <<< shift), range := range, bitsLeft := count - 8, buffer := buffer }
  else
    { low := u32 (low <<< shift0), range := range, bitsLeft := count, buffer := w.buffer }

/-- VP8Writer::put: returns the writer and the updated context counts -/
def Writer.put (w : Writer) (value : Bool) (counts : Nat) : Writer × Nat :=
  let split := 1 + (((w.range - 1) * probability counts) >>> 8)
  (w.putSplit value split, if value then updateTrue counts else updateFalse counts)

def Writer.putBypass (w : Writer) (value : Bool) : Writer :=
  w.putSplit value (1 + (w.range >>> 1))

def Writer.new : Writer := ({} : Writer).put false 0x101 |>.1

def Writer.finish (w : Writer) : Array UInt8 :=
  let w := (List.range 32).foldl (fun w _ => (w.put false 0x101).1) w
  if w.buffer.size > 0 ∧ (w.buffer.getD (w.buffer.size - 1) 0).toNat &&& 0xe0 = 0xc0 then w.buffer.push 0
  else w.buffer

structure Reader where
  value : Nat
  range : Nat
  count : Int
  input : Array UInt8
  pos : Nat

def lz32 (x : Nat) : Nat := if x = 0 then 32 else 31 - Nat.log2 x

/-- vpx_reader_fill: at most 8 bytes fit the 64-bit window -/
def Reader.fillLoop : Nat → Nat → Int → Int → Array UInt8 → Nat → Nat × Int × Nat
  | 0, value, count, _, _, pos => (value, count, pos)
  | fuel + 1, value, count, shift, input, pos =>
      if shift ≥ 0 then
        if pos < input.size then
          fillLoop fuel (value ||| ((input.getD pos 0).toNat <<< shift.toNat)) (count + 8) (shift - 8) input (pos + 1)
        else (value, count, pos)
      else (value, count, pos)

def Reader.fill (r : Reader) : Reader :=
  let shift : Int := 56 - (r.count + 8)
  let (v, c, p) := Reader.fillLoop 9 r.value r.count shift r.input r.pos
  { r with value := v, count := c, pos := p }

def Reader.getSplit (r : Reader) (split : Nat) : Bool × Reader :=
  let big := split <<< 56
  let bit := decide (r.value ≥ big)
  let (range, value) := if bit then (r.range - split, r.value - big) else (split, r.value)
  let shift := lz32 range - 24
  (bit, { r with value := u64 (value <<< shift), range := u32 (range <<< shift), count := r.count - shift })

def Reader.get (r : Reader) (counts : Nat) : Bool × Reader × Nat :=
  let r := if r.count < 0 then r.fill else r
  let split := 1 + (((r.range - 1) * probability counts) >>> 8)
  let (bit, r) := r.getSplit split
  (bit, r, if bit then updateTrue counts else updateFalse counts)

def Reader.getBypass (r : Reader) : Bool × Reader :=
  let r := if r.count < 0 then r.fill else r
  r.getSplit (1 + (r.range >>> 1))

def Reader.new (input : Array UInt8) : Reader :=
  let r : Reader := { value := 0, range := 255, count := -8, input := input, pos := 0 }
  let r := r.fill
  (r.get 0x101).2.1

/-- flat index of a context inside PredictionCabacContext (192 adaptive contexts) -/
def ctxIndex (c : CtxId) : Nat :=
  if c.family < 2 then c.family * 16 + c.index else 32 + (c.family - 2) * 80 + c.row * 8 + c.index

def freshContexts : Array Nat := Array.replicate 192 0x101

/-- run the events through the bool coder: the correction bytes -/
def writeEvents (evs : List Ev) : Array UInt8 :=
  let (w, _) := evs.foldl (fun (wc : Writer × Array Nat) e =>
    match e.ctx with
    | none => (wc.1.putBypass e.bit, wc.2)
    | some c =>
        let i := ctxIndex c
        let (w, n) := wc.1.put e.bit (wc.2.getD i 0x101)
        (w, wc.2.set! i n)) (Writer.new, freshContexts)
  w.finish

/-- read back one bit per context of `ctxs` -/
def readBits (bytes : Array UInt8) (ctxs : List (Option CtxId)) : List Bool :=
  let (_, _, out) := ctxs.foldl (fun (st : Reader × Array Nat × Array Bool) c =>
    let (r, cs, out) := st
    match c with
    | none => let (b, r) := r.getBypass; (r, cs, out.push b)
    | some c =>
        let i := ctxIndex c
        let (b, r, n) := r.get (cs.getD i 0x101)
        (r, cs.set! i n, out.push b)) (Reader.new bytes, freshContexts, #[])
  out.toList

/-- the decisions a decoder obtains from `bytes` when it asks for the contexts `ctxs` in turn -/
def readEvents (bytes : Array UInt8) (ctxs : List (Option CtxId)) : List Ev :=
  List.zipWith Ev.mk ctxs (readBits bytes ctxs)

end Preflate.VP8

namespace Preflate

/-- PredictionEncoderCabac over VP8Writer, then `finish`: the correction BYTES of an operation list -/
def encodeBytes (ops : List Op) : R (Array UInt8) := do
  let evs ← encodeOps 0 ops
  .ok (VP8.writeEvents evs)

end Preflate
