/-
preflate_container.rs `compress_zstd` / `decompress_zstd`, lib.rs `WrapperCompressZip` /
`WrapperDecompressZip`, preflate_error.rs `From<io::Error>` — over an abstract zstd.

zstd is a C library outside /repo: it enters as a structure `Zstd` whose fields are the functions
used and whose laws are the documented behaviour the property relies on (validated against the
real library by the harness on every run). `Cursor<&mut [u8]>` (the caller's output buffer) is
modelled directly: writing `f` into a buffer of `cap` bytes succeeds iff `f.length ≤ cap`
(`write_all` fails with WriteZero once the slice is full, having filled a prefix — C13's model).
-/
import Preflate.Model.Container
namespace Preflate

structure Zstd where
  /-- zstd::bulk::compress(x, 9) -/
  compress : Bytes → Bytes
  /-- zstd::bulk::decompress(y, capacity) -/
  decompress : Bytes → Nat → R Bytes
  /-- zstd::bulk::compress_to_buffer(x, buf, 9) with buf.len() = capacity -/
  compressToBuffer : Bytes → Nat → R Bytes
  /-- decompression with enough capacity inverts compression -/
  roundtrip : ∀ x cap, x.length ≤ cap → decompress (compress x) cap = .ok x
  /-- a frame that does not fit is an error, never truncated data -/
  too_small : ∀ x cap, cap < x.length → decompress (compress x) cap = .error .err
  /-- whatever is returned fits the capacity -/
  bounded : ∀ y cap x, decompress y cap = .ok x → x.length ≤ cap
  /-- the C library does not unwind into Rust -/
  no_panic : ∀ y cap m, decompress y cap ≠ .error (.panic m)
  /-- compress_to_buffer writes the same frame when it fits and fails otherwise -/
  to_buffer : ∀ x cap, compressToBuffer x cap =
    if (compress x).length ≤ cap then .ok (compress x) else .error .err

/-- compress_zstd -/
def compressZstd (z : Zstd) (o : Oracle) (crc : Bytes → Nat) (f : Bytes) : R Bytes := do
  let c ← expand o crc f
  .ok (z.compress c)

/-- decompress_zstd -/
def decompressZstd (z : Zstd) (o : Oracle) (crc : Bytes → Nat) (y : Bytes) (capacity : Nat) : R Bytes := do
  let c ← z.decompress y capacity
  recreate o crc c

/-- status codes of the C wrappers: 0 ok, -1 Err, -2 caught panic -/
def statusOf {α} : R α → Int
  | .ok _ => 0
  | .error (.panic _) => -2
  | .error _ => -1

/-- 1024 * 1024 * 128 -/
def wrapperIntermediateLimit : Nat := Gen.WRAPPER_INTERMEDIATE_LIMIT

/-- WrapperCompressZip: (status, valid output bytes = *result_size) -/
def wrapCompress (z : Zstd) (o : Oracle) (crc : Bytes → Nat) (input : Bytes) (cap : Nat) : Int × Bytes :=
  let r : R Bytes := do
    let c ← expand o crc input
    z.compressToBuffer c cap
  (statusOf r, match r with | .ok y => y | .error _ => [])

/-- writing into `Cursor<&mut [u8]>` of `cap` bytes -/
def intoCursor (cap : Nat) (f : Bytes) : R Bytes :=
  if f.length ≤ cap then .ok f else .error .err

/-- WrapperDecompressZip: (status, valid output bytes = *result_size) -/
def wrapDecompress (z : Zstd) (o : Oracle) (crc : Bytes → Nat) (input : Bytes) (cap : Nat) : Int × Bytes :=
  let r : R Bytes := do
    let c ← z.decompress input wrapperIntermediateLimit
    let f ← recreate o crc c
    intoCursor cap f
  (statusOf r, match r with | .ok y => y | .error _ => [])

end Preflate
