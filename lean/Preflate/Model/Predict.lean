/-
token_predictor.rs (predict_block / recreate_block), tree_predictor.rs (predict_tree_for_block /
recreate_tree_for_block), process.rs (predict_blocks / recreate_blocks, encode_mispredictions /
decode_mispredictions) — written ONCE, generically over a predictor interface `Pred`.

Everything heuristic (hash functions, chains, lazy matching, nice length, the Huffman length
calculator) sits behind the fields of `Pred` and may be ANY function: the round trip never needs
them to be right, only that analysis and reconstruction consult the same functions on the same
state. The one place where the two sides run different code — `calculate_hops` while analysing,
`hop_match` while reconstructing — is modelled concretely over the predictor's candidate list.
-/
import Preflate.Model.Deflate
import Preflate.Model.Codec
namespace Preflate
open Gen

/-- contexts (declaration order of CodecMisprediction / CodecCorrection; tied to the source by
    `Props/C10.contexts_match_source` and `Props/C02.context_numbers_match_source`) -/
def M_EOF := 0
def M_LITERAL_WRONG := 1
def M_REFERENCE_WRONG := 2
def M_IRREGULAR258 := 3
def M_TREECODE_COUNT := 4
def M_LITERAL_COUNT := 5
def M_DISTANCE_COUNT := 6
def C_TOKEN_COUNT := 0
def C_NONZERO_PADDING := 1
def C_BLOCK_TYPE := 2
def C_LEN := 3
def C_DIST_ONLY := 4
def C_DIST_AFTER_LEN := 5
def C_TREECODE_BITLEN := 6
def C_LD_TYPE := 7
def C_REPEAT_COUNT := 8
def C_LD_BITLEN := 9

/-- cabac_codec.rs encode_difference / decode_difference -/
def encDiff (pred act : Nat) : Nat := if pred ≥ act then (pred - act) * 2 else (act - pred) * 2 + 1

def decDiff (pred enc : Nat) : R Nat :=
  if enc % 2 = 0 then
    if enc / 2 ≤ pred then .ok (pred - enc / 2) else .error (.panic "decode_difference: subtract with overflow")
  else .ok (pred + enc / 2)

/-- what predict_token returns -/
inductive PTok where
  | lit
  | ref (len dist : Nat)
deriving Repr, DecidableEq, Inhabited

/-- TokenPredictor state: the hash chain holder (opaque `H`), pending_reference,
    the input position and current_token_count -/
structure PState (H : Type) where
  h : H
  pending : Option (Nat × Nat)
  pos : Nat
  count : Nat

/-- The predictor interface. `plain` is the plaintext both sides hold. -/
structure Pred (H : Type) where
  init : H
  maxTokenCount : Nat
  windowBytes : Nat
  /-- predict_token: predicted token and the new pending_reference -/
  predictTok : Array Nat → PState H → PTok × Option (Nat × Nat)
  /-- repredict_reference (clears pending_reference) -/
  repredictTok : Array Nat → PState H → R (Nat × Nat)
  /-- hash.iterate(input, 0): the candidate distances, in chain order -/
  candidates : Array Nat → PState H → List Nat
  /-- update_hash(length) at the current position -/
  update : Array Nat → H → Nat → Nat → H
  /-- huffman_calc::calc_bit_lengths(Zlib, freq, max_bits) -/
  calcBitLengths : List Nat → Nat → List Nat

variable {H : Type}

def PState.eof (plain : Array Nat) (s : PState H) : Bool := s.pos ≥ plain.size
def PState.remaining (plain : Array Nat) (s : PState H) : Nat := plain.size - s.pos

/-- prefix_compare(cur - dist, cur, len - 1, len) ≥ len: the `len` bytes at distance `dist` equal
    the next `len` bytes -/
def matchAt (plain : Array Nat) (pos len dist : Nat) : Bool :=
  (List.range len).all fun i => plain.getD (pos - dist + i) 0 == plain.getD (pos + i) 0

/-- the chain walk of calculate_hops: (hops so far, max_chain) over the remaining candidates -/
def hopsWalk (plain : Array Nat) (pos maxDist len target : Nat) : List Nat → Nat → Nat → R Nat
  | [], _, _ => .error .err
  | d :: rest, hops, maxChain =>
      if d > maxDist then .error .err
      else
        let hops := if matchAt plain pos len d then hops + 1 else hops
        if d ≥ target then (if d = target then .ok hops else .error .err)
        else if maxChain ≤ 1 then .error .err
        else hopsWalk plain pos maxDist len target rest hops (maxChain - 1)

/-- HashChainHolderImpl::calculate_hops -/
def calcHops (P : Pred H) (plain : Array Nat) (s : PState H) (len dist : Nat) : R Nat :=
  if min (s.remaining plain) MAX_MATCH < len then .error .err
  else hopsWalk plain s.pos (min s.pos P.windowBytes) len dist (P.candidates plain s) 0 65535

def hopMatchWalk (plain : Array Nat) (pos maxDist len hops : Nat) : List Nat → Nat → R Nat
  | [], _ => .error .err
  | d :: rest, cur =>
      if d > maxDist then .error .err
      else if matchAt plain pos len d then
        if cur + 1 = hops then .ok d else hopMatchWalk plain pos maxDist len hops rest (cur + 1)
      else hopMatchWalk plain pos maxDist len hops rest cur

/-- HashChainHolderImpl::hop_match -/
def hopMatch (P : Pred H) (plain : Array Nat) (s : PState H) (len hops : Nat) : R Nat :=
  if min (s.remaining plain) MAX_MATCH < len then .error .err
  else hopMatchWalk plain s.pos (min s.pos P.windowBytes) len hops (P.candidates plain s) 0

def tokenLen : Token → Nat
  | .lit _ => 1
  | .ref len _ _ => len

/-- commit_token: update_hash(len), advance(len), current_token_count += 1 -/
def commit (P : Pred H) (plain : Array Nat) (s : PState H) (t : Token) : PState H :=
  { s with h := P.update plain s.h s.pos (tokenLen t), pos := s.pos + tokenLen t, count := s.count + 1 }

/-- stored blocks: update_hash(1), advance(1), n times (current_token_count untouched) -/
def commitStored (P : Pred H) (plain : Array Nat) : Nat → PState H → PState H
  | 0, s => s
  | n + 1, s => commitStored P plain n { s with h := P.update plain s.h s.pos 1, pos := s.pos + 1 }

-- ---------------------------------------------------------------------------------------------
-- reading operations back: the decoder side of the PredictionDecoder trait over a list of
-- operations; asking for a different kind / context / width than the next operation is a failure

def popMis (ctx : Nat) : List Op → R (Bool × List Op)
  | .mis c f :: rest => if c = ctx then .ok (f, rest) else .error .err
  | _ => .error .err

def popCorr (ctx : Nat) : List Op → R (Nat × List Op)
  | .corr c v :: rest => if c = ctx then .ok (v, rest) else .error .err
  | _ => .error .err

def popValue (bits : Nat) : List Op → R (Nat × List Op)
  | .value b v :: rest => if b = bits then .ok (v, rest) else .error .err
  | _ => .error .err

-- ---------------------------------------------------------------------------------------------
-- tokens

/-- predict_block, one token -/
def encTok (P : Pred H) (plain : Array Nat) (s : PState H) (t : Token) : R (List Op × PState H) :=
  let (pt, pend) := P.predictTok plain s
  let s1 : PState H := { s with pending := pend }
  match t with
  | .lit _ =>
      let op := match pt with
        | .lit => Op.mis M_LITERAL_WRONG false
        | .ref _ _ => Op.mis M_REFERENCE_WRONG true
      .ok ([op], commit P plain s1 t)
  | .ref len dist irr => do
      let (ops0, plen, pdist, s2) ← (match pt with
        | .lit => do
            let (l, d) ← P.repredictTok plain s1
            pure ([Op.mis M_LITERAL_WRONG true], l, d, ({ s1 with pending := none } : PState H))
        | .ref l d => pure ([Op.mis M_REFERENCE_WRONG false], l, d, s1) : R (List Op × Nat × Nat × PState H))
      let ops1 := [Op.corr C_LEN (encDiff plen len)]
      let ops2 ←
        if plen ≠ len then do
          let h ← calcHops P plain s2 len dist
          pure [Op.corr C_DIST_AFTER_LEN h]
        else if dist ≠ pdist then do
          let h ← calcHops P plain s2 len dist
          pure [Op.corr C_DIST_ONLY h]
        else pure [Op.corr C_DIST_ONLY 0]
      let ops3 := if len = 258 then [Op.mis M_IRREGULAR258 irr] else []
      .ok (ops0 ++ ops1 ++ ops2 ++ ops3, commit P plain s2 t)

/-- recreate_block, one iteration of the token loop -/
def decTok (P : Pred H) (plain : Array Nat) (s : PState H) (ops : List Op) :
    R (Token × List Op × PState H) := do
  let (pt, pend) := P.predictTok plain s
  let s1 : PState H := { s with pending := pend }
  let cur := plain.getD s.pos 0
  let step ← (match pt with
    | .lit => do
        let (wrong, ops) ← popMis M_LITERAL_WRONG ops
        if !wrong then pure (Sum.inl (Token.lit cur, ops, s1))
        else do
          let (l, d) ← P.repredictTok plain s1
          pure (Sum.inr (l, d, ops, ({ s1 with pending := none } : PState H)))
    | .ref l d => do
        let (wrong, ops) ← popMis M_REFERENCE_WRONG ops
        if wrong then pure (Sum.inl (Token.lit cur, ops, s1))
        else pure (Sum.inr (l, d, ops, s1)) :
      R ((Token × List Op × PState H) ⊕ (Nat × Nat × List Op × PState H)))
  match step with
  | .inl (t, ops, s1) => .ok (t, ops, commit P plain s1 t)
  | .inr (plen, pdist, ops, s2) => do
      let (c, ops) ← popCorr C_LEN ops
      let newLen ← decDiff plen c
      let (len, dist, ops) ← (
        if newLen ≠ plen then do
          let (hops, ops) ← popCorr C_DIST_AFTER_LEN ops
          let d ← hopMatch P plain s2 newLen hops
          pure (newLen, d, ops)
        else do
          let (hops, ops) ← popCorr C_DIST_ONLY ops
          if hops ≠ 0 then do
            let d ← hopMatch P plain s2 plen hops
            pure (newLen, d, ops)
          else pure (plen, pdist, ops) : R (Nat × Nat × List Op))
      let (irr, ops) ← (if len = 258 then popMis M_IRREGULAR258 ops else pure (false, ops) : R (Bool × List Op))
      let t := Token.ref len dist irr
      .ok (t, ops, commit P plain s2 t)

def encToks (P : Pred H) (plain : Array Nat) : PState H → List Token → R (List Op × PState H)
  | s, [] => .ok ([], s)
  | s, t :: ts => do
      let (a, s) ← encTok P plain s t
      let (b, s) ← encToks P plain s ts
      .ok (a ++ b, s)

/-- the loop `while !self.input_eof() && self.current_token_count < blocksize` -/
def decToks (P : Pred H) (plain : Array Nat) (blocksize : Nat) :
    Nat → PState H → List Op → R (List Token × List Op × PState H)
  | 0, _, _ => .error .fuel
  | fuel + 1, s, ops =>
      if !s.eof plain && s.count < blocksize then do
        let (t, ops, s) ← decTok P plain s ops
        let (ts, ops, s) ← decToks P plain blocksize fuel s ops
        .ok (t :: ts, ops, s)
      else .ok ([], ops, s)

-- ---------------------------------------------------------------------------------------------
-- dynamic header (tree_predictor.rs)

/-- TokenFrequency as built by add_literal / add_reference (u16 counters that wrap) -/
def bump (l : List Nat) (i : Nat) : List Nat := l.set i ((l.getD i 0 + 1) % 65536)

def tokenFreq : List Token → List Nat × List Nat → List Nat × List Nat
  | [], f => f
  | .lit b :: ts, (lf, df) => tokenFreq ts (bump lf b, df)
  | .ref len dist _ :: ts, (lf, df) =>
      let lc := match quantizeLength len with | .ok c => c | .error _ => 0
      let dc := match quantizeDistance dist with | .ok c => c | .error _ => 0
      tokenFreq ts (bump lf (NONLEN_CODE_COUNT + lc), bump df dc)

/-- TokenFrequency::default (the end-of-block code counted once) followed by the tokens -/
def blockFreq (ts : List Token) : List Nat × List Nat :=
  tokenFreq ts ((List.replicate LITLENDIST_CODE_COUNT_M 0).set 256 1, List.replicate DIST_CODE_COUNT 0)
where LITLENDIST_CODE_COUNT_M := LITLEN_CODE_COUNT + DIST_CODE_COUNT

def resizeTo (l : List Nat) (n : Nat) : List Nat := l.take n ++ List.replicate (n - l.length) 0

/-- predict_code_type; `prev` = previous_code -/
def predictCodeType (syms : List Nat) (prev : Option Nat) : Nat :=
  let code := syms.headD 0
  if code = 0 then
    let run := ((syms.take 11).takeWhile (· == 0)).length
    if run ≥ 11 then 18 else if run ≥ 3 then 17 else 0
  else match prev with
    | some p => if (syms.takeWhile (· == p)).length ≥ 3 then 16 else 0
    | none => 0

/-- predict_code_data -/
def predictCodeData (syms : List Nat) (kind : Nat) : Nat :=
  let code := syms.headD 0
  if kind = 0 then code
  else if kind = 16 then
    3 + (((syms.take 6).drop 3).takeWhile (· == code)).length
  else if kind = 17 then
    3 + (((syms.take 10).drop 3).takeWhile (· == 0)).length
  else
    11 + (((syms.take 138).drop 11).takeWhile (· == 0)).length

def itemSpan (i : RleItem) : Nat := if i.kind = 0 then 1 else i.data

/-- predict_ld_trees -/
def encLdTrees : List Nat → Option Nat → List RleItem → R (List Op)
  | _, _, [] => .ok []
  | syms, prev, it :: rest =>
      if syms.isEmpty then .error .err
      else if itemSpan it > syms.length then .error (.panic "predict_ld_trees: slice index")
      else do
        let pt := predictCodeType syms prev
        let pd := predictCodeData syms it.kind
        let a := Op.corr C_LD_TYPE (encDiff pt it.kind)
        let b := if it.kind ≠ 0 then Op.corr C_REPEAT_COUNT (encDiff pd it.data)
                 else Op.corr C_LD_BITLEN (encDiff pd it.data)
        let r ← encLdTrees (syms.drop (itemSpan it)) (some (syms.headD 0)) rest
        .ok (a :: b :: r)

/-- reconstruct_ld_trees -/
def decLdTrees : Nat → List Nat → Option Nat → List Op → R (List RleItem × List Op)
  | 0, _, _, _ => .error .fuel
  | fuel + 1, syms, prev, ops =>
      if syms.isEmpty then .ok ([], ops)
      else do
        let pt := predictCodeType syms prev
        let (c, ops) ← popCorr C_LD_TYPE ops
        let kind ← decDiff pt c
        if ¬ (kind = 0 ∨ kind = 16 ∨ kind = 17 ∨ kind = 18) then throw .err
        let pd := predictCodeData syms kind
        let (c, ops) ← popCorr (if kind ≠ 0 then C_REPEAT_COUNT else C_LD_BITLEN) ops
        let data ← decDiff pd c
        let data := data % 256
        let it : RleItem := ⟨kind, data⟩
        if itemSpan it > syms.length then throw (.panic "reconstruct_ld_trees: slice index")
        let (r, ops) ← decLdTrees fuel (syms.drop (itemSpan it)) (some (syms.headD 0)) ops
        .ok (it :: r, ops)

/-- calc_codetree_freq -/
def codetreeFreq : List RleItem → List Nat → List Nat
  | [], f => f
  | it :: rest, f => codetreeFreq rest (bump f (if it.kind = 0 then it.data else it.kind))

/-- calc_tc_lengths_without_trailing_zeros (bounds-safe lookup: missing = 0) -/
def tcLenNoTrailing (bl : List Nat) : Nat → Nat
  | 0 => 0
  | n + 1 => if n + 1 > 4 ∧ bl.getD (TREE_CODE_ORDER_TABLE.getD n 0) 0 = 0 then tcLenNoTrailing bl n else n + 1

def encTcLengths (tc cl : List Nat) : Nat → Nat → List Op
  | 0, _ => []
  | n + 1, i =>
      let o := TREE_CODE_ORDER_TABLE.getD i 0
      Op.corr C_TREECODE_BITLEN (encDiff (tc.getD o 0) (cl.getD o 0)) :: encTcLengths tc cl n (i + 1)

def decTcLengths (tc : List Nat) : Nat → Nat → List Nat → List Op → R (List Nat × List Op)
  | 0, _, acc, ops => .ok (acc, ops)
  | n + 1, i, acc, ops => do
      let o := TREE_CODE_ORDER_TABLE.getD i 0
      let (c, ops) ← popCorr C_TREECODE_BITLEN ops
      let v ← decDiff (tc.getD o 0) c
      decTcLengths tc n (i + 1) (acc.set o (v % 256)) ops

/-- predict_tree_for_block -/
def encTree (P : Pred H) (h : Header) (freq : List Nat × List Nat) : R (List Op) := do
  let bl := P.calcBitLengths freq.1 15
  let a := [Op.mis M_LITERAL_COUNT (bl.length ≠ h.numLiterals)] ++
    (if bl.length ≠ h.numLiterals then [Op.value 5 ((h.numLiterals - 257) % 65536)] else [])
  let bl := if bl.length ≠ h.numLiterals then resizeTo bl h.numLiterals else bl
  let dl := P.calcBitLengths freq.2 15
  let b := [Op.mis M_DISTANCE_COUNT (dl.length ≠ h.numDist)] ++
    (if dl.length ≠ h.numDist then [Op.value 5 ((h.numDist - 1) % 65536)] else [])
  let dl := if dl.length ≠ h.numDist then resizeTo dl h.numDist else dl
  let syms := bl ++ dl
  if (h.items.map itemSpan).sum ≠ syms.length then
    throw (.panic "predict_ld_trees: target_codes RLE encoding should sum to the same length")
  let c ← encLdTrees syms none h.items
  let tc := P.calcBitLengths (codetreeFreq h.items (List.replicate CODETREE_CODE_COUNT 0)) 7
  let tcLen := tcLenNoTrailing tc tc.length
  let d := if tcLen ≠ h.numCodeLengths then
      [Op.mis M_TREECODE_COUNT true, Op.value 4 ((h.numCodeLengths - 4) % 65536)]
    else [Op.mis M_TREECODE_COUNT false]
  let tc := resizeTo tc CODETREE_CODE_COUNT
  .ok (a ++ b ++ c ++ d ++ encTcLengths tc h.codeLengths h.numCodeLengths 0)

/-- recreate_tree_for_block -/
def decTree (P : Pred H) (freq : List Nat × List Nat) (ops : List Op) : R (Header × List Op) := do
  let bl := P.calcBitLengths freq.1 15
  let (wrong, ops) ← popMis M_LITERAL_COUNT ops
  let (bl, ops) ← (if wrong then do
      let (v, ops) ← popValue 5 ops
      pure (resizeTo bl (v + NONLEN_CODE_COUNT), ops)
    else pure (bl, ops) : R (List Nat × List Op))
  let dl := P.calcBitLengths freq.2 15
  let (wrong, ops) ← popMis M_DISTANCE_COUNT ops
  let (dl, ops) ← (if wrong then do
      let (v, ops) ← popValue 5 ops
      pure (resizeTo dl (v + 1), ops)
    else pure (dl, ops) : R (List Nat × List Op))
  let syms := bl ++ dl
  let (items, ops) ← decLdTrees (syms.length + 1) syms none ops
  let tc := P.calcBitLengths (codetreeFreq items (List.replicate CODETREE_CODE_COUNT 0)) 7
  let tcLen := tcLenNoTrailing tc tc.length
  let (wrong, ops) ← popMis M_TREECODE_COUNT ops
  let (tcLen, ops) ← (if wrong then do
      let (v, ops) ← popValue 4 ops
      pure (v + 4, ops)
    else pure (tcLen, ops) : R (Nat × List Op))
  let tc := resizeTo tc CODETREE_CODE_COUNT
  if tcLen > CODETREE_CODE_COUNT then throw (.panic "recreate_tree_for_block: TREE_CODE_ORDER_TABLE index")
  let (cl, ops) ← decTcLengths tc tcLen 0 (List.replicate CODETREE_CODE_COUNT 0) ops
  .ok (⟨bl.length, dl.length, tcLen, cl, items⟩, ops)

-- ---------------------------------------------------------------------------------------------
-- blocks

/-- BlockType discriminants: DynamicHuff = 0, Stored = 1, StaticHuff = 2 -/
def blockTypeNum : Block → Nat
  | .dynamic _ _ => 0
  | .stored _ _ => 1
  | .fixed _ => 2

def blockTokens : Block → List Token
  | .dynamic _ ts => ts
  | .fixed ts => ts
  | .stored _ _ => []

/-- predict_block followed (for dynamic blocks) by predict_tree_for_block -/
def encBlock (P : Pred H) (plain : Array Nat) (s : PState H) (b : Block) (last : Bool) :
    R (List Op × PState H) :=
  let s : PState H := { s with count := 0, pending := none }
  let bt := Op.corr C_BLOCK_TYPE (encDiff 0 (blockTypeNum b))
  match b with
  | .stored pad data =>
      .ok ([bt, Op.value 16 (data.length % 65536), Op.corr C_NONZERO_PADDING pad],
           commitStored P plain data.length s)
  | _ => do
      let ts := blockTokens b
      let n := ts.length
      if n ≥ 2 ^ 32 then throw (.panic "predict_block: u32::try_from(tokens.len())")
      let tc := if (!last && n ≠ P.maxTokenCount) || n > P.maxTokenCount
                then Op.corr C_TOKEN_COUNT (n + 1) else Op.corr C_TOKEN_COUNT 0
      let (tokOps, s) ← encToks P plain s ts
      let treeOps ← (match b with
        | .dynamic h _ => encTree P h (blockFreq ts)
        | _ => pure [] : R (List Op))
      .ok (bt :: tc :: tokOps ++ treeOps, s)

/-- recreate_block followed (for dynamic blocks) by recreate_tree_for_block -/
def decBlock (P : Pred H) (plain : Array Nat) (s : PState H) (ops : List Op) :
    R (Block × List Op × PState H) := do
  let s : PState H := { s with count := 0, pending := none }
  let (c, ops) ← popCorr C_BLOCK_TYPE ops
  let bt ← decDiff 0 c
  if bt = 1 then do
    let (len, ops) ← popValue 16 ops
    let (pad, ops) ← popCorr C_NONZERO_PADDING ops
    if s.pos + len > plain.size then throw (.panic "recreate_block: cur_char index")
    let data := (List.range len).map fun i => plain.getD (s.pos + i) 0
    .ok (.stored (pad % 256) data, ops, commitStored P plain len s)
  else if bt = 2 ∨ bt = 0 then do
    let (tc, ops) ← popCorr C_TOKEN_COUNT ops
    let blocksize := if tc = 0 then P.maxTokenCount else tc - 1
    let (ts, ops, s) ← decToks P plain blocksize (blocksize + 1) s ops
    if bt = 2 then .ok (.fixed ts, ops, s)
    else do
      let (h, ops) ← decTree P (blockFreq ts) ops
      .ok (.dynamic h ts, ops, s)
  else .error .err

/-- predict_blocks -/
def encBlocks (P : Pred H) (plain : Array Nat) : PState H → List Block → R (List Op × PState H)
  | s, [] => .ok ([], s)
  | s, b :: rest => do
      let eofOp := if s.eof plain then [Op.mis M_EOF true] else []
      let (a, s) ← encBlock P plain s b rest.isEmpty
      let (r, s) ← encBlocks P plain s rest
      .ok (eofOp ++ a ++ r, s)

/-- encode_mispredictions: the blocks, `assert!(input_eof())`, EOF flag, final padding -/
def encStream (P : Pred H) (plain : Array Nat) (blocks : List Block) (eofPadding : Nat) : R (List Op) := do
  let s0 : PState H := ⟨P.init, none, 0, 0⟩
  let (ops, s) ← encBlocks P plain s0 blocks
  if !s.eof plain then throw (.panic "predict_blocks: assert!(input_eof())")
  .ok (ops ++ [Op.mis M_EOF false, Op.corr C_NONZERO_PADDING eofPadding])

/-- `is_eof = token_predictor.input_eof() && !decoder.decode_misprediction(EOFMisprediction)` -/
def decIsEof (plain : Array Nat) (s : PState H) (ops : List Op) : R (Bool × List Op) :=
  if s.eof plain then do
    let (f, ops) ← popMis M_EOF ops
    .ok (!f, ops)
  else .ok (false, ops)

/-- recreate_blocks: the loop body runs once per block (`fuel` bounds the number of blocks) -/
def decBlocks (P : Pred H) (plain : Array Nat) : Nat → PState H → List Op → R (List Block × List Op × PState H)
  | 0, _, _ => .error .fuel
  | fuel + 1, s, ops => do
      let (b, ops, s) ← decBlock P plain s ops
      let (isEof, ops) ← decIsEof plain s ops
      if isEof then .ok ([b], ops, s)
      else do
        let (r, ops, s) ← decBlocks P plain fuel s ops
        .ok (b :: r, ops, s)

/-- decode_mispredictions: blocks (none if the stream signals EOF at once) and the final padding -/
def decStream (P : Pred H) (plain : Array Nat) (ops : List Op) : R (List Block × Nat × List Op) := do
  let s0 : PState H := ⟨P.init, none, 0, 0⟩
  let (isEof, ops) ← decIsEof plain s0 ops
  let (blocks, ops) ← (if isEof then pure ([], ops) else do
      let (b, ops, _) ← decBlocks P plain (ops.length + 1) s0 ops
      pure (b, ops) : R (List Block × List Op))
  let (pad, ops) ← popCorr C_NONZERO_PADDING ops
  .ok (blocks, pad % 256, ops)

end Preflate
