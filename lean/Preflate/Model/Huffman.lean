/-
huffman_helper.rs: validity of a code length vector, canonical codes, symbol decoding.

`validLengths` transcribes `is_valid_huffman_code_lengths`. `codeBits` is the canonical code of
RFC 1951 §3.2.2 (what `calc_huffman_codes` computes, already in stream order: the code's most
significant bit comes first). `decodeSym` decodes by matching the canonical codes against the
head of the bit list; the array-encoded tree of `calculate_huffman_code_tree` / `decode_symbol`
is modelled separately (Model/HuffTree.lean) and related to this one there.
-/
import Preflate.Model.Bits
namespace Preflate

/-- how many entries of `l` equal `n` -/
def countEq (l : List Nat) (n : Nat) : Nat := (l.filter (· == n)).length

/-- the loop of `is_valid_huffman_code_lengths`: `nodes` is `internal_nodes` (i32 in the code,
    never negative when the loop continues) -/
def kraftLoop (l : List Nat) : Nat → Nat → Nat → Bool
  | 0, _, nodes => nodes == 0
  | fuel + 1, i, nodes =>
      let c := countEq l i
      if nodes < c then false else kraftLoop l fuel (i + 1) ((nodes - c) * 2)

def validLengths (l : List Nat) : Bool :=
  !l.isEmpty && l.all (· < 16) && kraftLoop l 15 1 2

/-- smallest code of each length: step 2 of the RFC algorithm (`next_code`) -/
def nextCode (l : List Nat) : Nat → Nat
  | 0 => 0
  | b + 1 => (nextCode l b + (if b = 0 then 0 else countEq l b)) * 2

/-- canonical code value of symbol `s`: step 3 -/
def codeOf (l : List Nat) (s : Nat) : Nat :=
  nextCode l (l.getD s 0) + countEq (l.take s) (l.getD s 0)

/-- the code of symbol `s` as it appears in the stream -/
def codeBits (l : List Nat) (s : Nat) : Bits :=
  (bitsOfNat (l.getD s 0) (codeOf l s)).reverse

/-- decoding table: every symbol with a non-zero length, with its code -/
def codeTable (l : List Nat) : List (Bits × Nat) :=
  (List.range l.length).filterMap fun s =>
    if l.getD s 0 = 0 then none else some (codeBits l s, s)

def isPrefix : Bits → Bits → Bool
  | [], _ => true
  | _ :: _, [] => false
  | a :: as, b :: bs => a == b && isPrefix as bs

/-- decode one symbol: the first table entry whose code is a prefix of the input. With a complete
    code the only way to match nothing is to run out of bits, which is `Err` in the code too. -/
def decodeSym (t : List (Bits × Nat)) (bs : Bits) : R (Nat × Bits) :=
  match t.find? (fun e => isPrefix e.1 bs) with
  | some (c, s) => .ok (s, bs.drop c.length)
  | none => .error .err

/-- `calculate_huffman_code_tree` refuses invalid length vectors -/
def mkTable (l : List Nat) : R (List (Bits × Nat)) :=
  if validLengths l then .ok (codeTable l) else .error .err

end Preflate
