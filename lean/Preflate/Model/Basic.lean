/-
Model of preflate-rs — basic conventions (DESIGN.md §3.2).

Rust panics are not totalised away: every model function that mirrors an index, `unwrap`,
`assert!`, overflow-checked arithmetic or narrowing cast returns `Except Fail α` with
`Fail.panic site` as a distinguished outcome. `Fail.err` is an ordinary `Err(PreflateError)`.
`Fail.fuel` can only be produced by a fuel-bounded loop running out of fuel; theorems show it
never is.
-/
namespace Preflate

inductive Fail where
  | err
  | panic (site : String)
  | fuel
deriving Repr, DecidableEq, Inhabited

abbrev R := Except Fail

abbrev Bits := List Bool

def Fail.isPanic : Fail → Bool
  | .panic _ => true
  | _ => false

/-- lookup that models Rust slice indexing: out of range is a panic -/
def idx (l : List Nat) (i : Nat) (site : String) : R Nat :=
  match l[i]? with
  | some v => .ok v
  | none => .error (.panic site)

end Preflate
