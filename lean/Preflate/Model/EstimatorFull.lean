/-
The rest of the parameter estimator: depth_estimator.rs (`HashTableDepthEstimatorImpl`,
`HashTableDepthEstimatorLibdeflate`: `internal_update_hash`, `internal_update_hash3`, `update_hash`,
`get_node_depth`, `match_depth`, `new_depth_estimator`), complevel_estimator.rs (`CandidateInfo`,
`CompLevelEstimatorState::new` / `update_candidate_hashes` / `check_match` / `check_dump` /
`recommend`, `estimate_preflate_comp_level`), the level tables of preflate_parse_config.rs, and the
assembly in preflate_parameter_estimator.rs `estimate_preflate_parameters` — transcribed literally
and executable. `Est.estimate plain blocks` is the COMPLETE parameter vector; it is compared field
by field with the hook `estimate` on every run (`estimatefull` requests).

Conventions (as in the rest of the model):
 * `u16` positions wrap explicitly (`pos as u16`, `wrapping_add`); `chain_depth` is an `i32` that is
   never negative (it starts at 0 and only ever takes `x + 1`), so it is a `Nat` with the i32
   overflow check of a debug build made explicit.
 * Rust panics are `.error (.panic site)`: slice indexing in `get_hash` (fewer bytes left than the
   hash reads), overflow-checked `-` / `+`, `debug_assert!` / `debug_assert_eq!` (the harness builds
   the library with debug assertions), slice starts out of range. `Err(PreflateError)` is
   `.error .err` ("no candidates found", "max_chain_found too large").
 * `chars` (a sub-slice of the plaintext) is represented by its start offset; every call site passes
   `chars = plain[pos..]`, so the offset and `pos` coincide (`&input[length - 1..]` with
   `pos + length - 1` keeps that invariant) — the same collapse as `Chains.Chain.update`.
 * `PreflateInput.pos` is an `i32`; `advance` carries the overflow check and the debug assertion
   `pos <= data.len()`, which keep every position below 2^31, so the `u32` sums `pos + i`,
   `pos + length - 1`, `reference_count + 1` cannot overflow and carry no check of their own.
 * the 64K-entry tables are `Array Nat` that are threaded linearly (destructured before they are
   updated) so that the native driver updates them in place.

The hash functions are the validated ones of Model/Chains.lean (`Chains.hashAt`, `Chains.hash3At`),
selected by a `Params` value of which only `hashAlg` / `hashShift` / `hashMask` matter — called through
`hashAtA` / `hash3AtA`, the same functions with array tables (proved equal in Proofs/EstimatorFull.lean).
-/
import Preflate.Model.Estimator
import Preflate.Model.Chains
namespace Preflate.Est
open Preflate

/-- a `HashAlgorithm` as the `Params` value `Chains.hashAt` dispatches on -/
def hashParams (alg shift mask : Nat) : Params :=
  ⟨0, 0, false, 0, alg, shift, mask, 0, 0, false, false, false, 0, 0, 0, 0, 0, 0, 0⟩

/-- the two lookup tables of hash_algorithm.rs as arrays (Gen/Consts.lean has them as lists) -/
def RANDOM_VECTOR_A : Array Nat := Gen.RANDOM_VECTOR.toArray
def CRC32C_TABLE_A : Array Nat := Gen.CRC32C_TABLE.toArray

/-- `Chains.hashAt` arranged for the native driver: table lookups in arrays, constant left shifts as
    multiplications (the runtime's `Nat` shift-left goes through bignums). Equal to `Chains.hashAt`
    (`Proofs/EstimatorFull.hashAtA_eq`); the candidate tables call it once per inserted position. -/
def hashAtA (p : Params) (plain : Array Nat) (i : Nat) : Nat :=
  let b0 := Chains.byteAt plain i
  let b1 := Chains.byteAt plain (i + 1)
  let b2 := Chains.byteAt plain (i + 2)
  match p.hashAlg with
  | 1 =>
      let m := if p.hashShift = 5 then 32 else if p.hashShift = 4 then 16 else 2 ^ p.hashShift
      let c := Chains.u16 (Chains.u16 (b0 * m) ^^^ b1)
      let c := Chains.u16 (Chains.u16 (c * m) ^^^ b2)
      c &&& p.hashMask
  | 2 =>
      let h := b0 ||| (b1 * 256) ||| (b2 * 65536)
      (h ^^^ (h >>> 17)) &&& Gen.MINIZ_LEVEL1_HASH_SIZE_MASK
  | 3 | 4 =>
      let le32 := b0 ||| (b1 * 256) ||| (b2 * 65536) ||| (Chains.byteAt plain (i + 3) * 16777216)
      Chains.u16 (Chains.u32 (le32 * 0x1E35A7BD) >>> 16)
  | 5 =>
      let le32 := b0 ||| (b1 * 256) ||| (b2 * 65536) ||| (Chains.byteAt plain (i + 3) * 16777216)
      Chains.u16 (Chains.u32 (le32 * 2654435761) >>> 16)
  | 6 => RANDOM_VECTOR_A.getD b0 0 ^^^ RANDOM_VECTOR_A.getD (b1 + 256) 0 ^^^ RANDOM_VECTOR_A.getD (b2 + 512) 0
  | 7 =>
      let crc := CRC32C_TABLE_A.getD b0 0
      let crc := (crc >>> 8) ^^^ CRC32C_TABLE_A.getD ((crc ^^^ b1) &&& 255) 0
      let crc := (crc >>> 8) ^^^ CRC32C_TABLE_A.getD ((crc ^^^ b2) &&& 255) 0
      let crc := (crc >>> 8) ^^^ CRC32C_TABLE_A.getD ((crc ^^^ Chains.byteAt plain (i + 3)) &&& 255) 0
      Chains.u16 crc
  | _ => 0

/-- `Chains.hash3At`, same arrangement -/
def hash3AtA (plain : Array Nat) (i : Nat) : Nat :=
  let h := Chains.byteAt plain i ||| (Chains.byteAt plain (i + 1) * 256) ||| (Chains.byteAt plain (i + 2) * 65536)
  Chains.u16 (Chains.u32 (h * 0x1E35A7BD) >>> 17)

/-- `self.hash.get_hash(input.cur_chars(0))` outside the guarded insertion loop: the hash functions
    index `b[0..=2]` or `b[..4]` (Crc32cHash: `assert!(b.len() >= 4)`), a panic when fewer bytes are left -/
def getHash (hp : Params) (plain : Array Nat) (pos : Nat) : R Nat :=
  if plain.size < pos + Chains.numHashBytes hp then .error (.panic "get_hash: index out of range")
  else .ok (hashAtA hp plain pos)

/-- `LIB_DEFLATE3_HASH.get_hash(input.cur_chars(0))` -/
def getHash3 (plain : Array Nat) (pos : Nat) : R Nat :=
  if plain.size < pos + 3 then .error (.panic "get_hash (3 byte secondary): index out of range")
  else .ok (hash3AtA plain pos)

/-- HashTableDepthEstimatorImpl: `head: [u16; 65536]`, `chain_depth: [i32; 65536]`,
    `chain_depth_hash_verify: [u16; 65536]` -/
structure Depth where
  head : Array Nat
  chainDepth : Array Nat
  verify : Array Nat

def Depth.empty : Depth :=
  ⟨Array.replicate 65536 0, Array.replicate 65536 0, Array.replicate 65536 0⟩

def I32_MAX : Nat := 2147483647

/-- the `for i in 0..length` loop of internal_update_hash; `hashf i` = `get_hash(&chars[i..])`,
    `pos` is the u16 cursor -/
def insertLoop (hashf : Nat → Nat) (length : Nat) (i pos : Nat) (head cd vf : Array Nat) : R Depth :=
  if i < length then
    let h := hashf i
    let nd := cd[head[h]!]! + 1
    if nd > I32_MAX then .error (.panic "internal_update_hash: add with overflow")
    else insertLoop hashf length (i + 1) (Chains.u16 (pos + 1)) (head.set! h pos) (cd.set! pos nd) (vf.set! pos h)
  else .ok ⟨head, cd, vf⟩
termination_by length - i

/-- HashTableDepthEstimatorImpl::internal_update_hash(chars = plain[pos..], pos, length) -/
def Depth.internalUpdate (hp : Params) (plain : Array Nat) (d : Depth) (pos length : Nat) : R Depth :=
  let avail := plain.size - pos
  if length > avail then .error (.panic "internal_update_hash: debug_assert!(length <= chars.len())")
  else if length + Chains.numHashBytes hp - 1 ≥ avail then .ok d
  else match d with
    | ⟨head, cd, vf⟩ =>
        insertLoop (fun i => hashAtA hp plain (pos + i)) length 0 (Chains.u16 pos) head cd vf

/-- the loop of HashTableDepthEstimatorLibdeflate::internal_update_hash3 (`head3: [u32; 65536]`) -/
def insertLoop3 (plain : Array Nat) (pos length : Nat) (i : Nat) (head3 : Array Nat) : Array Nat :=
  if i < length then
    insertLoop3 plain pos length (i + 1) (head3.set! (hash3AtA plain (pos + i)) (pos + i))
  else head3
termination_by length - i

/-- HashTableDepthEstimatorLibdeflate::internal_update_hash3 -/
def internalUpdate3 (plain : Array Nat) (head3 : Array Nat) (pos length : Nat) : R (Array Nat) :=
  let avail := plain.size - pos
  if length > avail then .error (.panic "internal_update_hash3: debug_assert!(length <= chars.len())")
  else if length + 3 - 1 ≥ avail then .ok head3
  else .ok (insertLoop3 plain pos length 0 head3)

/-- DictionaryAddPolicy::update_hash(input = plain[pos..], pos, length, update_fn), for an update
    function that may panic; `avail` = `input.len()`. (`Chains.policyUpdate` is the same dispatch for
    the panic-free chain update of the predictor.) -/
def policyUpdateR {σ : Type} (pol lim : Nat) (avail : Nat) (upd : σ → Nat → Nat → R σ)
    (s : σ) (pos length : Nat) : R σ :=
  if length = 1 then upd s pos 1
  else match pol with
    | 0 => upd s pos length
    | 1 => if length ≤ lim then upd s pos length else upd s pos 1
    | 2 =>
        if length ≤ lim then upd s pos length
        else do
          let s ← upd s pos 1
          if length - 1 > avail then throw (.panic "update_hash: &input[length - 1..] out of range")
          upd s (pos + length - 1) 1
    | 3 => if (pos &&& 4095) < 4093 then upd s pos 1 else .ok s
    | _ => do
        let s ← upd s pos 1
        if Chains.is32kBoundary length pos then
          if length - 1 > avail then throw (.panic "update_hash: &input[length - 1..] out of range")
          upd s (pos + length - 1) 1
        else .ok s

/-- HashTableDepthEstimatorImpl::get_node_depth -/
def Depth.getNodeDepth (d : Depth) (node expected : Nat) : R Nat :=
  if d.verify[node]! ≠ expected then .error (.panic "get_node_depth: debug_assert_eq!(chain_depth_hash_verify[node], expected_hash)")
  else .ok d.chainDepth[node]!

/-- HashTableDepthEstimatorImpl::match_depth -/
def Depth.matchDepth (hp : Params) (plain : Array Nat) (d : Depth) (pos dist : Nat) : R Nat := do
  if dist > pos then throw (.panic "match_depth: subtract with overflow")
  let matchPos := Chains.u16 (pos - dist)
  let h ← getHash hp plain pos
  let head := d.head[h]!
  let cur ← d.getNodeDepth head h
  let m ← d.getNodeDepth matchPos h
  if cur < m then throw (.panic "match_depth: debug_assert!(cur_depth >= match_depth)")
  .ok (cur - m)

/-- CandidateInfo with its boxed depth estimator: `d` for every algorithm, `head3` only used by
    Libdeflate4 (`HashTableDepthEstimatorLibdeflate`; empty array otherwise) -/
structure Candidate where
  hp : Params
  d : Depth
  head3 : Array Nat
  longestDistAtHop0 : Nat := 0
  longestDistAtHop1Plus : Nat := 0
  maxChainFound : Nat := 0

/-- CandidateInfo::new / new_depth_estimator (HashAlgorithm::None — `panic!("No hash algorithm
    specified")` — is never requested by CompLevelEstimatorState::new) -/
def Candidate.new (alg shift mask : Nat) : Candidate :=
  { hp := hashParams alg shift mask, d := Depth.empty,
    head3 := if alg = 3 then Array.replicate 65536 0 else #[] }

/-- HashTableDepthEstimator::update_hash of the candidate's estimator (both impls) -/
def Candidate.updateHash (plain : Array Nat) (pol lim : Nat) (c : Candidate) (pos length : Nat) : R Candidate :=
  let avail := plain.size - pos
  if c.hp.hashAlg = 3 then
    policyUpdateR pol lim avail (fun (c : Candidate) p l =>
      match c with
      | ⟨hp, d, head3, l0, l1, mc⟩ => do
          let d ← d.internalUpdate hp plain p l
          let head3 ← internalUpdate3 plain head3 p l
          .ok ⟨hp, d, head3, l0, l1, mc⟩) c pos length
  else
    policyUpdateR pol lim avail (fun (c : Candidate) p l =>
      match c with
      | ⟨hp, d, head3, l0, l1, mc⟩ => do
          let d ← d.internalUpdate hp plain p l
          .ok ⟨hp, d, head3, l0, l1, mc⟩) c pos length

/-- the candidate's `depth_estimator.match_depth(token, input)` -/
def Candidate.estimatorMatchDepth (plain : Array Nat) (c : Candidate) (pos len dist : Nat) : R Nat :=
  if c.hp.hashAlg = 3 then do
    -- HashTableDepthEstimatorLibdeflate::match_depth
    let h3 ← getHash3 plain pos
    let hd := c.head3[h3]!
    if hd > pos then throw (.panic "match_depth (libdeflate): subtract with overflow")
    let distance3 := pos - hd
    if distance3 = dist then .ok 1
    else if len = 3 then .ok 65535
    else do
      let m ← c.d.matchDepth c.hp plain pos dist
      .ok ((if distance3 < 32768 then 1 else 0) + m)
  else c.d.matchDepth c.hp plain pos dist

/-- CandidateInfo::match_depth: `none` = `false` (the candidate is dropped by `retain_mut`) -/
def Candidate.matchDepth (plain : Array Nat) (c : Candidate) (pos len dist : Nat) : R (Option Candidate) := do
  let mdepth ← c.estimatorMatchDepth plain pos len dist
  if mdepth < 8196 then
    let c := { c with maxChainFound := max c.maxChainFound mdepth }
    if mdepth = 0 then .ok (some { c with longestDistAtHop0 := max c.longestDistAtHop0 dist })
    else .ok (some { c with longestDistAtHop1Plus := max c.longestDistAtHop1Plus dist })
  else .ok none

/-- `Vec::retain_mut` with a closure that may panic (front to back, order kept) -/
def retainCands (f : Candidate → R (Option Candidate)) : List Candidate → R (List Candidate)
  | [] => .ok []
  | c :: cs => do
      let r ← f c
      let rest ← retainCands f cs
      .ok (match r with | some c => c :: rest | none => rest)

/-- `for i in &mut self.candidates { i.depth_estimator.update_hash(..) }` -/
def updateCands (f : Candidate → R Candidate) : List Candidate → R (List Candidate)
  | [] => .ok []
  | c :: cs => do
      let c ← f c
      let rest ← updateCands f cs
      .ok (c :: rest)

/-- the mutable part of CompLevelEstimatorState (`input.pos`, the candidates, the counters);
    plaintext, add policy, window size and min_len are parameters -/
structure CLState where
  pos : Nat := 0
  cands : List Candidate
  referenceCount : Nat := 0
  unfoundReferences : Nat := 0
  matchToStart : Bool := false
  longestLen3Dist : Nat := 0

/-- CompLevelEstimatorState::new — the candidate list (`hashparameters` / `mem_hash_shift` /
    `mem_hash_mask` are computed there but never used) -/
def candidatesFor (minLen : Nat) : List Candidate :=
  if minLen = 3 then
    [Candidate.new 2 0 0, Candidate.new 1 5 32767, Candidate.new 1 4 2047, Candidate.new 3 0 0,
     Candidate.new 6 0 0]
  else [Candidate.new 4 0 0, Candidate.new 5 0 0, Candidate.new 7 0 0]

/-- update_candidate_hashes, then `self.input.advance(length)` (i32 `+=`, debug assertion) -/
def updateCandidateHashes (plain : Array Nat) (pol lim : Nat) (s : CLState) (length : Nat) : R CLState :=
  match s with
  | ⟨pos, cands, rc, ur, mts, l3⟩ => do
      let cands ← updateCands (fun c => c.updateHash plain pol lim pos length) cands
      if pos + length > I32_MAX then throw (.panic "advance: add with overflow")
      if pos + length > plain.size then throw (.panic "advance: debug_assert!(pos <= data.len())")
      .ok ⟨pos + length, cands, rc, ur, mts, l3⟩

/-- check_match -/
def checkMatch (plain : Array Nat) (s : CLState) (len dist : Nat) : R CLState :=
  match s with
  | ⟨pos, cands, rc, ur, mts, l3⟩ =>
      if pos < dist ∨ cands.isEmpty then .ok ⟨pos, cands, rc + 1, ur + 1, mts, l3⟩
      else do
        let cands ← retainCands (fun c => c.matchDepth plain pos len dist) cands
        .ok ⟨pos, cands, rc + 1, ur, mts || dist == pos, if len = 3 then max l3 dist else l3⟩

/-- `for _i in 0..b.uncompressed.len() { self.update_candidate_hashes(1) }` -/
def dumpStored (plain : Array Nat) (pol lim : Nat) : CLState → Nat → R CLState
  | s, 0 => .ok s
  | s, n + 1 => do
      let s ← updateCandidateHashes plain pol lim s 1
      dumpStored plain pol lim s n

def dumpTokens (plain : Array Nat) (pol lim : Nat) : CLState → List Token → R CLState
  | s, [] => .ok s
  | s, .lit _ :: ts => do
      let s ← updateCandidateHashes plain pol lim s 1
      dumpTokens plain pol lim s ts
  | s, .ref len dist _ :: ts => do
      let s ← checkMatch plain s len dist
      let s ← updateCandidateHashes plain pol lim s len
      dumpTokens plain pol lim s ts

/-- check_dump -/
def checkDump (plain : Array Nat) (pol lim : Nat) : CLState → List Block → R CLState
  | s, [] => .ok s
  | s, .stored _ data :: bs => do
      let s ← dumpStored plain pol lim s data.length
      checkDump plain pol lim s bs
  | s, .fixed ts :: bs | s, .dynamic _ ts :: bs => do
      let s ← dumpTokens plain pol lim s ts
      checkDump plain pol lim s bs

/-- PreflateParserConfig: (lazy?, good_length, max_lazy, nice_length, max_chain) -/
structure LevelConfig where
  isLazy : Bool
  goodLength : Nat
  maxLazy : Nat
  niceLength : Nat
  maxChain : Nat
deriving Repr, DecidableEq, Inhabited

/-- ZLIB_PREFLATE_PARSER_SETTINGS -/
def ZLIB_SETTINGS : List LevelConfig :=
  [⟨false, 0, 0, 8, 4⟩, ⟨false, 0, 0, 16, 8⟩, ⟨false, 0, 0, 32, 32⟩]

/-- SLOW_PREFLATE_PARSER_SETTINGS -/
def SLOW_SETTINGS : List LevelConfig :=
  [⟨true, 4, 4, 16, 16⟩, ⟨true, 8, 16, 32, 32⟩, ⟨true, 8, 16, 128, 128⟩, ⟨true, 8, 32, 128, 256⟩,
   ⟨true, 32, 128, 258, 1024⟩, ⟨true, 32, 258, 258, 4096⟩]

/-- `Iterator::min_by` on max_chain_found: the FIRST of several equally minimal elements -/
def minByChain : List Candidate → Option Candidate
  | [] => none
  | c :: cs => some (cs.foldl (fun (best : Candidate) x => if x.maxChainFound < best.maxChainFound then x else best) c)

/-- CompLevelInfo (the fields estimate_preflate_parameters reads) -/
structure CompLevelInfo where
  zlibCompatible : Bool
  matchesToStart : Bool
  veryFar : Bool
  maxDist3 : Nat
  hashAlg : Nat
  hashShift : Nat
  hashMask : Nat
  isLazy : Bool
  goodLength : Nat
  maxLazy : Nat
  niceLength : Nat
  maxChain : Nat
deriving Repr, DecidableEq, Inhabited

/-- recommend; `wsize` = `1 << wbits` (a u16: wbits ≤ 15 from estimate_preflate_window_bits) -/
def recommend (wsize pol : Nat) (s : CLState) : R CompLevelInfo :=
  match minByChain s.cands with
  | none => .error .err                      -- "no candidates found"
  | some cand =>
      let found := cand.maxChainFound
      let table := if pol = 0 then SLOW_SETTINGS else ZLIB_SETTINGS
      let cfg : LevelConfig := (table.find? (fun c => found < c.maxChain)).getD ⟨false, 0, 0, 258, 0⟩
      if found ≥ 4096 then .error .err       -- "max_chain_found too large"
      else if wsize < 262 then .error (.panic "recommend: subtract with overflow")
      else
        let veryFar := cand.longestDistAtHop0 > wsize - 262 || cand.longestDistAtHop1Plus ≥ wsize - 262
        .ok { zlibCompatible := !s.matchToStart && !veryFar && (s.longestLen3Dist < 4096 || pol != 0)
              matchesToStart := s.matchToStart
              veryFar := veryFar
              maxDist3 := Chains.u16 s.longestLen3Dist
              hashAlg := cand.hp.hashAlg
              hashShift := cand.hp.hashShift
              hashMask := cand.hp.hashMask
              isLazy := cfg.isLazy
              goodLength := cfg.goodLength
              maxLazy := cfg.maxLazy
              niceLength := cfg.niceLength
              maxChain := found + 1 }

/-- estimate_preflate_comp_level -/
def compLevel (wbits minLen : Nat) (plain : Array Nat) (pol lim : Nat) (blocks : List Block) : R CompLevelInfo := do
  if wbits ≥ 16 then throw (.panic "CompLevelEstimatorState::new: 1 << wbits does not fit u16")
  let s ← checkDump plain pol lim { cands := candidatesFor minLen } blocks
  recommend (1 <<< wbits) pol s

/-- estimate_preflate_parameters: the complete parameter vector. The part that does not need the
    candidate tables is `front` (Model/Estimator.lean), used as is. -/
def estimate (plain : Array Nat) (blocks : List Block) : R Params := do
  let f ← front blocks
  if f.noDictionary then
    .ok ⟨f.strategy, f.huffStrategy, true, 0, 0, 0, 0, 16386, 0, false, false, false, 0, 0, 0, 0, 0, 0, 0⟩
  else do
    let i := extractInfo blocks
    let cl ← compLevel f.windowBits i.minLen plain f.addPolicy f.addLimit blocks
    .ok { strategy := f.strategy, huffStrategy := f.huffStrategy, zlibCompatible := cl.zlibCompatible,
          windowBits := f.windowBits, hashAlg := cl.hashAlg, hashShift := cl.hashShift,
          hashMask := cl.hashMask, maxTokenCount := f.maxTokenCount, maxDist3 := cl.maxDist3,
          veryFar := cl.veryFar, matchesToStart := cl.matchesToStart, isLazy := cl.isLazy,
          goodLength := cl.goodLength, maxLazy := cl.maxLazy, niceLength := cl.niceLength,
          maxChain := cl.maxChain, minLen := i.minLen, addPolicy := f.addPolicy, addLimit := f.addLimit }

end Preflate.Est
