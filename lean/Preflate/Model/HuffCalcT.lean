/-
huffman_calc.rs `calc_zlib::calc_bit_lengths` — TOTAL transcription with explicit panic modelling.

Same algorithm, same tie-breaks and same results as `Preflate.HuffCalc.calcBitLengths` (the
executable-only, kernel-opaque transcription), but

* every loop is structural recursion or carries explicit fuel (`.error .fuel` when it runs out);
* every Rust slice / `Vec` index (`heap[..]`, `n[index]`, `node_bit_len[..]`, `bl_count[..]`),
  `heap.pop().unwrap()`, and every overflow-checked arithmetic operation that is not trivially in
  range (`u32` `freq` / `depth` additions, `u8` `depth + 1` in `count_recursive`,
  `usize` `max_bits - 1`, `bits -= 1`, `nodes.len() - 1`) is `.error (.panic site)` when it would
  panic in the Rust (profile with `overflow-checks` on, DESIGN.md §4.2).

Rust types that matter (huffman_calc.rs, `mod calc_zlib`):
  `HuffTreeNode.freq : u32`, `.depth : u32` (sums are *checked* `+`, not wrapping);
  `count_recursive(.., depth: u8)` calls itself with `depth + 1` (checked);
  `bl_count : Vec<i32>` and `overflow : i32` (integer-literal fallback), so `overflow -= 2` may
  reach `-1` and that is *not* a panic; `bl_count[max_bits] -= 1` could go negative without a
  panic in Rust — the model keeps `Nat` counters and refuses (`panic "model: … negative"`) if that
  would happen; `calcBitLengths_no_panic` shows it never does, so on the stated domain the `Nat`
  model and the `i32` code coincide;
  `bits : usize`, so `bits -= 1` at `0` panics (with or without overflow checks: in release the
  wrapped index is out of range).
-/
import Preflate.Model.Basic
namespace Preflate.HuffCalcT

structure Node where
  freq : Nat
  depth : Nat
  /-- leaf: `some symbol`; inner node: `none` with children -/
  leaf : Option Nat
  left : Nat := 0
  right : Nat := 0
deriving Inhabited, Repr, DecidableEq

def smaller (n m : Node) : Bool := n.freq < m.freq || (n.freq == m.freq && n.depth ≤ m.depth)

/-- Rust `a[i]` (read) -/
def aget {α : Type} (a : Array α) (i : Nat) (site : String) : R α :=
  match a[i]? with
  | some v => .ok v
  | none => .error (.panic site)

/-- Rust `a[i] = v` -/
def aset {α : Type} (a : Array α) (i : Nat) (v : α) (site : String) : R (Array α) :=
  if i < a.size then .ok (a.setIfInBounds i v) else .error (.panic site)

def panic {α : Type} (site : String) : R α := .error (.panic site)

/-- the `while child < heap.len()` loop of `pqdownheap`; `v` is the element taken out at the start -/
def downGo (v : Node) : Nat → Array Node → Nat → Nat → R (Array Node)
  | 0, _, _, _ => .error .fuel
  | fuel + 1, heap, root, child =>
    if child < heap.size then do
      let c0 ← aget heap child "pqdownheap: heap[child]"
      let child ←
        if child + 1 < heap.size then do
          let c1 ← aget heap (child + 1) "pqdownheap: heap[child + 1]"
          pure (if smaller c1 c0 then child + 1 else child)
        else pure child
      let c ← aget heap child "pqdownheap: heap[child] (2)"
      if smaller v c then aset heap root v "pqdownheap: heap[root] = v (break)"
      else do
        let heap ← aset heap root c "pqdownheap: heap[root] = heap[child]"
        downGo v fuel heap child (2 * child + 1)
    else aset heap root v "pqdownheap: heap[root] = v"

/-- pqdownheap -/
def downheap (heap : Array Node) (root : Nat) : R (Array Node) := do
  let v ← aget heap root "pqdownheap: heap[root]"
  downGo v (heap.size + 1) heap root (2 * root + 1)

/-- `let mut n = heap.len() / 2; while n >= 1 { n -= 1; pqdownheap(&mut heap, n); }` -/
def heapify : Nat → Array Node → R (Array Node)
  | 0, heap => .ok heap
  | n + 1, heap => do
    let heap ← downheap heap n
    heapify n heap

def u32Max : Nat := 4294967295

/-- the main `loop`: returns the node list (children before parents, root last) -/
def combine : Nat → Array Node → Array Node → R (Array Node)
  | 0, _, _ => .error .fuel
  | fuel + 1, heap, nodes => do
    let least1 ← aget heap 0 "heap[SMALLEST] (least1)"
    let last ← match heap.back? with
      | some x => pure x
      | none => panic "heap.pop().unwrap()"
    let heap := heap.pop
    let heap ← aset heap 0 last "heap[SMALLEST] = heap.pop().unwrap()"
    let heap ← downheap heap 0
    let least2 ← aget heap 0 "heap[SMALLEST] (least2)"
    if least1.freq + least2.freq > u32Max then panic "least1.freq + least2.freq (u32)" else
    if max least1.depth least2.depth + 1 > u32Max then panic "max(depth) + 1 (u32)" else
    let nodes := (nodes.push least1).push least2
    let node : Node :=
      { freq := least1.freq + least2.freq, depth := max least1.depth least2.depth + 1,
        leaf := none, left := nodes.size - 1, right := nodes.size - 2 }
    if heap.size == 1 then pure (nodes.push node)
    else do
      let heap ← aset heap 0 node "heap[SMALLEST] = node"
      let heap ← downheap heap 0
      combine fuel heap nodes

/-- count_recursive; `depth : u8`, `depth + 1` is overflow-checked. The fuel is the recursion
depth budget; 257 is always enough because a call at depth 255 on an inner node panics. -/
def countRec (n : Array Node) : Nat → Nat → Array Nat → Nat → R (Array Nat)
  | 0, _, _, _ => .error .fuel
  | fuel + 1, index, lens, depth => do
    let x ← aget n index "count_recursive: n[index]"
    match x.leaf with
    | some sym => aset lens sym depth "count_recursive: node_bit_len[symbol]"
    | none =>
      if depth + 1 > 255 then panic "count_recursive: depth + 1 (u8)" else do
      let lens ← countRec n fuel x.left lens (depth + 1)
      countRec n fuel x.right lens (depth + 1)

/-- `for &bit_len in &node_bit_len { … bl_count[new_len] += 1 }`; returns (bl_count, overflow) -/
def countLens (maxBits : Nat) : List Nat → Array Nat → Nat → R (Array Nat × Nat)
  | [], bl, overflow => pure (bl, overflow)
  | l :: rest, bl, overflow => do
    let (nl, overflow) := if l > maxBits then (maxBits, overflow + 1) else (l, overflow)
    let c ← aget bl nl "bl_count[new_len]"
    let bl ← aset bl nl (c + 1) "bl_count[new_len] += 1"
    countLens maxBits rest bl overflow

/-- `while bl_count[bits] == 0 { bits -= 1; }` (`bits : usize`) -/
def findBits (bl : Array Nat) : Nat → R Nat
  | 0 => do
    let c ← aget bl 0 "bl_count[bits]"
    if c == 0 then panic "bits -= 1 (usize underflow)" else pure 0
  | b + 1 => do
    let c ← aget bl (b + 1) "bl_count[bits]"
    if c == 0 then findBits bl b else pure (b + 1)

/-- one round of the `while overflow > 0` loop -/
def redistStep (maxBits : Nat) (bl : Array Nat) : R (Array Nat) := do
  if maxBits == 0 then panic "max_bits - 1 (usize underflow)" else
  let bits ← findBits bl (maxBits - 1)
  let c ← aget bl bits "bl_count[bits] -= 1 (read)"
  let bl ← aset bl bits (c - 1) "bl_count[bits] -= 1"
  let c ← aget bl (bits + 1) "bl_count[bits + 1] += 2 (read)"
  let bl ← aset bl (bits + 1) (c + 2) "bl_count[bits + 1] += 2"
  let c ← aget bl maxBits "bl_count[max_bits] -= 1 (read)"
  if c == 0 then panic "model: bl_count[max_bits] would become negative (i32 in Rust)" else
  aset bl maxBits (c - 1) "bl_count[max_bits] -= 1"

/-- `while overflow > 0 { …; overflow -= 2; }` with `overflow : i32`: structural recursion on the
(non-negative) counter; from `1` the Rust goes to `-1` and leaves the loop. -/
def redistribute (maxBits : Nat) : Nat → Array Nat → R (Array Nat)
  | 0, bl => pure bl
  | 1, bl => redistStep maxBits bl
  | overflow + 2, bl => do
    let bl ← redistStep maxBits bl
    redistribute maxBits overflow bl

/-- `for node in nodes.iter() { if let Leaf(idx) = node.tree { … } }` -/
def reassign : List Node → Nat → Array Nat → Array Nat → R (Array Nat)
  | [], _, _, lens => pure lens
  | x :: rest, bits, bl, lens =>
    match x.leaf with
    | none => reassign rest bits bl lens
    | some sym => do
      let bits ← findBits bl bits
      let lens ← aset lens sym (bits % 256) "node_bit_len[idx] = bits as u8"
      let c ← aget bl bits "bl_count[bits] -= 1 (reassign, read)"
      let bl ← aset bl bits (c - 1) "bl_count[bits] -= 1 (reassign)"
      reassign rest bits bl lens

/-- `for (index, &freq) in sym_freq.iter().enumerate()`: returns (heap, max_code) -/
def scan : List Nat → Nat → Array Node → Nat → Array Node × Nat
  | [], _, heap, maxCode => (heap, maxCode)
  | f :: rest, idx, heap, maxCode =>
    if f > 0 then scan rest (idx + 1) (heap.push { freq := f, depth := 0, leaf := some idx }) idx
    else scan rest (idx + 1) heap maxCode

/-- calc_bit_lengths(Zlib, sym_freq, max_bits) -/
def calcBitLengths (symFreq : List Nat) (maxBits : Nat) : R (List Nat) := do
  let (heap, maxCode) := scan symFreq 0 #[] 0
  let lens : Array Nat := Array.replicate (maxCode + 1) 0
  if heap.size ≤ 1 then do
    let lens ← aset lens maxCode 1 "node_bit_len[max_code] = 1"
    if maxCode != 0 then do
      let lens ← aset lens 0 1 "node_bit_len[0] = 1"
      pure lens.toList
    else pure (lens.push 1).toList
  else do
    let heap ← heapify (heap.size / 2) heap
    let nodes ← combine heap.size heap #[]
    if nodes.size == 0 then panic "nodes.len() - 1 (usize underflow)" else
    let lens ← countRec nodes 257 (nodes.size - 1) lens 0
    let bl : Array Nat := Array.replicate (maxBits + 1) 0
    let (bl, overflow) ← countLens maxBits lens.toList bl 0
    if overflow > 0 then do
      let bl ← redistribute maxBits overflow bl
      let lens ← reassign nodes.toList maxBits bl lens
      pure lens.toList
    else pure lens.toList

end Preflate.HuffCalcT
