/-
huffman_calc.rs `calc_zlib::calc_bit_lengths`: zlib-style Huffman code length calculation
(binary heap with depth tie-break, length limiting by overflow redistribution), transcribed
literally. Executable only: for the proofs the calculator is an arbitrary function
(`Pred.calcBitLengths`); it has to EQUAL the code for the byte-level correspondence and for C04.
-/
import Preflate.Model.Basic
namespace Preflate.HuffCalc

structure Node where
  freq : Nat
  depth : Nat
  /-- leaf: `some symbol`; inner node: `none` with children -/
  leaf : Option Nat
  left : Nat := 0
  right : Nat := 0
deriving Inhabited

def smaller (n m : Node) : Bool := n.freq < m.freq || (n.freq == m.freq && n.depth ≤ m.depth)

/-- pqdownheap -/
partial def downheap (heap : Array Node) (root : Nat) : Array Node :=
  if root ≥ heap.size then heap else
  let v := heap[root]!
  let rec go (heap : Array Node) (root child : Nat) : Array Node :=
    if child < heap.size then
      let child := if child + 1 < heap.size && smaller heap[child + 1]! heap[child]! then child + 1 else child
      if smaller v heap[child]! then heap.set! root v
      else go (heap.set! root heap[child]!) child (2 * child + 1)
    else heap.set! root v
  go heap root (2 * root + 1)

/-- the main loop: returns the node list (children before parents, root last) -/
partial def combine (heap : Array Node) (nodes : Array Node) : Array Node :=
  let least1 := heap[0]!
  let last := heap.back!
  let heap := heap.pop
  let heap := if heap.size > 0 then downheap (heap.set! 0 last) 0 else heap
  let least2 := heap[0]!
  let nodes := (nodes.push least1).push least2
  let node : Node := { freq := least1.freq + least2.freq, depth := max least1.depth least2.depth + 1,
                       leaf := none, left := nodes.size - 1, right := nodes.size - 2 }
  if heap.size == 1 then nodes.push node
  else combine (downheap (heap.set! 0 node) 0) nodes

/-- count_recursive -/
partial def countRec (n : Array Node) (index : Nat) (lens : Array Nat) (depth : Nat) : Array Nat :=
  match n[index]!.leaf with
  | some sym => lens.set! sym (depth % 256)
  | none => countRec n n[index]!.right (countRec n n[index]!.left lens (depth + 1)) (depth + 1)

partial def redistribute (bl : Array Nat) (maxBits : Nat) (overflow : Int) : Array Nat :=
  if overflow > 0 then
    let rec findBits (bits : Nat) : Nat := if bits > 0 && bl[bits]! == 0 then findBits (bits - 1) else bits
    let bits := findBits (maxBits - 1)
    let bl := bl.set! bits (bl[bits]! - 1)
    let bl := bl.set! (bits + 1) (bl[bits + 1]! + 2)
    let bl := bl.set! maxBits (bl[maxBits]! - 1)
    redistribute bl maxBits (overflow - 2)
  else bl

/-- calc_bit_lengths(Zlib, sym_freq, max_bits) -/
def calcBitLengths (symFreq : List Nat) (maxBits : Nat) : List Nat := Id.run do
  let mut heap : Array Node := #[]
  let mut maxCode := 0
  let mut idx := 0
  for f in symFreq do
    if f > 0 then
      heap := heap.push { freq := f, depth := 0, leaf := some idx }
      maxCode := idx
    idx := idx + 1
  let mut lens : Array Nat := Array.replicate (maxCode + 1) 0
  if heap.size ≤ 1 then
    lens := lens.set! maxCode 1
    if maxCode != 0 then lens := lens.set! 0 1 else lens := lens.push 1
    return lens.toList
  let mut n := heap.size / 2
  while n ≥ 1 do
    n := n - 1
    heap := downheap heap n
  let nodes := combine heap #[]
  lens := countRec nodes (nodes.size - 1) lens 0
  let mut bl : Array Nat := Array.replicate (maxBits + 1) 0
  let mut overflow : Int := 0
  for l in lens do
    let mut nl := l
    if nl > maxBits then
      nl := maxBits
      overflow := overflow + 1
    bl := bl.set! nl (bl[nl]! + 1)
  if overflow > 0 then
    bl := redistribute bl maxBits overflow
    let mut bits := maxBits
    for node in nodes do
      if let some sym := node.leaf then
        while bits > 0 && bl[bits]! == 0 do
          bits := bits - 1
        lens := lens.set! sym bits
        bl := bl.set! bits (bl[bits]! - 1)
  return lens.toList

end Preflate.HuffCalc
