/-
preflate_container.rs: `decompress_deflate_stream` / `recompress_deflate_stream` — the public
stream pair, at the level of codec operations (C10 carries operations to binary decisions; the
bool coder below that is the remaining assumption, see Model/VP8.lean).

The parameter estimator is the function `est` of the parse result ONLY (that is its Rust
signature: `estimate_preflate_parameters(&plain_text, &blocks)`), otherwise arbitrary; `mk` turns a
parameter vector into a predictor (in the executable model: `Chains.pred`), otherwise arbitrary.
-/
import Preflate.Model.Params
import Preflate.Model.Deflate
namespace Preflate

variable {H : Type}

/-- `DecompressResult` (the corrections as operations) -/
structure StreamResult where
  plain : Array Nat
  corr : List Op
  size : Nat
  params : Params
deriving Repr

/-- the `if verify { … }` part of `decompress_deflate_stream` -/
def verifyStream (mk : Params → Pred H) (params : Params) (plain : Array Nat) (ops : List Op)
    (expected : List UInt8) : R Unit := do
  let (rp, rest) ← readParams ops
  if rp ≠ params then throw (.panic "assert_eq!(params, reread_params)")
  let (blocks, pad, _) ← decStream (mk rp) plain rest
  let out ← writeStream blocks pad
  if out ≠ expected then throw .err      -- ExitCode::RoundtripMismatch
  .ok ()

/-- `decompress_deflate_stream(compressed_data, verify, _)` -/
def decompressStream (est : Array Nat → List Block → R Params) (mk : Params → Pred H)
    (verify : Bool) (d : List UInt8) : R StreamResult := do
  let p ← parse d
  let params ← est p.plain p.blocks
  let hdr ← writeParams params
  let body ← encStream (mk params) p.plain p.blocks p.eofPadding
  let ops := hdr ++ body
  let size := p.consumed d
  if verify then
    let _ ← verifyStream mk params p.plain ops (d.take size)
  .ok ⟨p.plain, ops, size, params⟩

/-- `recompress_deflate_stream(plain_text, prediction_corrections)` -/
def recompressStream (mk : Params → Pred H) (plain : Array Nat) (ops : List Op) : R (List UInt8) := do
  let (rp, rest) ← readParams ops
  let (blocks, pad, _) ← decStream (mk rp) plain rest
  writeStream blocks pad

end Preflate
