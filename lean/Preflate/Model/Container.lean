/-
preflate_container.rs (varint, chunk writer / reader, expand_zlib_chunks, recreated_zlib_chunks),
idat_parse.rs (parse_idat / recreate_idat / IdatContents), scan_deflate.rs
(split_into_deflate_streams and the header skippers).

Bytes are `Nat`s; theorems assume they are below 256 where the code converts bytes to numbers and
back. What the scanner knows about the analysis of a candidate stream is an ORACLE (`Oracle`):
`analyze` may accept or reject anything; acceptance by the scanner is `verified`, which performs
the same reconstruction check as `decompress_deflate_stream(.., verify = true, ..)`. CRC-32 is an
arbitrary function.
-/
import Preflate.Model.Basic
import Preflate.Gen.Consts
namespace Preflate
open Gen

abbrev Bytes := List Nat

/-- DecompressResult (without the informational parameters) -/
structure Res where
  plain : Bytes
  corr : Bytes
  size : Nat
deriving Repr, DecidableEq, Inhabited

structure Oracle where
  /-- decompress_deflate_stream without the verification step -/
  analyze : Bytes → R Res
  /-- recompress_deflate_stream -/
  recompress : Bytes → Bytes → R Bytes

/-- decompress_deflate_stream(d, verify = true): accepted only if reconstruction reproduces the
    consumed prefix (`recompressed[..] != compressed_data[..compressed_size]` ⇒ RoundtripMismatch;
    the slice panics when compressed_size is out of range) -/
def Oracle.verified (o : Oracle) (d : Bytes) : R Res := do
  let r ← o.analyze d
  let back ← o.recompress r.plain r.corr
  if r.size > d.length then throw (.panic "decompress_deflate_stream: slice end index")
  if back = d.take r.size then .ok r else .error .err

-- ---------------------------------------------------------------------------------------------
-- varint, big/little endian numbers

/-- write_varint on a u32 -/
def writeVarint : Nat → Nat → Bytes
  | 0, _ => []
  | fuel + 1, v =>
      if v / 128 ≠ 0 then (v % 128 + 128) :: writeVarint fuel (v / 128) else [v % 128]

def varint (v : Nat) : Bytes := writeVarint 5 (v % 4294967296)

/-- read_varint: `((byte & 0x7F) as u32) << shift` overflows (panic in the checked build) from the
    sixth byte on; bits shifted out of the u32 are lost -/
def readVarint : Nat → Nat → Nat → Bytes → R (Nat × Bytes)
  | 0, _, _, _ => .error .fuel
  | _ + 1, _, _, [] => .error .err
  | fuel + 1, shift, acc, b :: rest =>
      if shift ≥ 32 then .error (.panic "read_varint: shift left with overflow")
      else
        let acc := acc ||| (((b % 128) <<< shift) % 4294967296)
        if b / 128 % 2 = 0 then .ok (acc, rest) else readVarint fuel (shift + 7) acc rest

def getVarint (bs : Bytes) : R (Nat × Bytes) := readVarint (bs.length + 1) 0 0 bs

def be32 (v : Nat) : Bytes := [v / 16777216 % 256, v / 65536 % 256, v / 256 % 256, v % 256]

def ofBe32 : Bytes → Nat
  | [a, b, c, d] => ((a * 256 + b) * 256 + c) * 256 + d
  | _ => 0

def ofLe16 : Bytes → Nat
  | [a, b] => a + 256 * b
  | _ => 0

def ofLe32 : Bytes → Nat
  | [a, b, c, d] => a + 256 * (b + 256 * (c + 256 * d))
  | _ => 0

/-- read_exact of `n` bytes from a slice cursor -/
def takeExact (n : Nat) (bs : Bytes) : R (Bytes × Bytes) :=
  if n ≤ bs.length then .ok (bs.take n, bs.drop n) else .error .err

-- ---------------------------------------------------------------------------------------------
-- IDAT

def idatTag : Bytes := [73, 68, 65, 84]   -- "IDAT"

structure IdatContents where
  chunkSizes : List Nat
  zlibHeader : Bytes        -- two bytes
  totalChunkLength : Nat
  adler : Nat
deriving Repr, DecidableEq, Inhabited

/-- the `while pos + 12 <= len` loop of parse_idat: (payload so far, sizes so far, pos) -/
def idatChunks (crc : Bytes → Nat) (s : Bytes) : Nat → Nat → Bytes → List Nat → R (Bytes × List Nat × Nat)
  | 0, _, _, _ => .error .fuel
  | fuel + 1, pos, payload, sizes =>
      if pos + 12 ≤ s.length then
        let chunkLen := ofBe32 ((s.drop pos).take 4)
        let ty := (s.drop (pos + 4)).take 4
        if ty ≠ idatTag ∨ pos + chunkLen + 12 > s.length then .ok (payload, sizes, pos)
        else if chunkLen = 0 then .ok (payload, sizes, pos)
        else
          let chunk := (s.drop (pos + 8)).take chunkLen
          if crc (ty ++ chunk) ≠ ofBe32 ((s.drop (pos + chunkLen + 8)).take 4) then .ok (payload, sizes, pos)
          else idatChunks crc s fuel (pos + chunkLen + 12) (payload ++ chunk) (sizes ++ [chunkLen])
      else .ok (payload, sizes, pos)

/-- parse_idat -/
def parseIdat (crc : Bytes → Nat) (s : Bytes) : R (IdatContents × Bytes) := do
  if s.length < 12 ∨ (s.drop 4).take 4 ≠ idatTag then throw .err
  let (payload, sizes, pos) ← idatChunks crc s (s.length + 1) 0 [] []
  if payload.length < 6 then throw .err
  let hdr := payload.take 2
  let adler := ofBe32 (payload.drop (payload.length - 4))
  .ok (⟨sizes, hdr, pos, adler⟩, (payload.drop 2).take (payload.length - 6))

/-- the per-chunk loop of recreate_idat -/
def idatEmit (crc : Bytes → Nat) (contents : Bytes) : Nat → List Nat → R Bytes
  | _, [] => .ok []
  | index, size :: rest =>
      if index + size > contents.length then .error (.panic "recreate_idat: slice index")
      else do
        let content := (contents.drop index).take size
        let r ← idatEmit crc contents (index + size) rest
        .ok (be32 size ++ idatTag ++ content ++ be32 (crc (idatTag ++ content)) ++ r)

/-- recreate_idat -/
def recreateIdat (crc : Bytes → Nat) (idat : IdatContents) (deflate : Bytes) : R Bytes :=
  if idat.chunkSizes.sum % 4294967296 ≠ deflate.length + 6 then .error .err
  else idatEmit crc (idat.zlibHeader ++ deflate ++ be32 idat.adler) 0 idat.chunkSizes

/-- IdatContents::write_to_bytestream -/
def writeIdatContents (i : IdatContents) : Bytes :=
  i.chunkSizes.flatMap varint ++ varint 0 ++ i.zlibHeader ++ be32 i.adler

/-- the varint loop of IdatContents::read_from_bytestream -/
def readSizes : Nat → Bytes → R (List Nat × Bytes)
  | 0, _ => .error .fuel
  | fuel + 1, bs => do
      let (v, bs) ← getVarint bs
      if v = 0 then .ok ([], bs)
      else do
        let (r, bs) ← readSizes fuel bs
        .ok (v :: r, bs)

/-- IdatContents::read_from_bytestream (total_chunk_length is recomputed there and not used) -/
def readIdatContents (bs : Bytes) : R (IdatContents × Bytes) := do
  let (sizes, bs) ← readSizes (bs.length + 1) bs
  let (hdr, bs) ← takeExact 2 bs
  let (ad, bs) ← takeExact 4 bs
  .ok (⟨sizes, hdr, sizes.sum + 2 + 4, ofBe32 ad⟩, bs)

-- ---------------------------------------------------------------------------------------------
-- chunks

/-- scan_deflate.rs `BlockChunk` -/
inductive Chunk where
  | literal (n : Nat)
  | deflate (r : Res)
  | idat (c : IdatContents) (r : Res)
deriving Repr, DecidableEq, Inhabited

/-- what write_chunk_block returns: how many input bytes the chunk stands for -/
def Chunk.extent : Chunk → Nat
  | .literal n => n
  | .deflate r => r.size
  | .idat c _ => c.totalChunkLength

def streamPayload (r : Res) : Bytes :=
  varint r.plain.length ++ r.plain ++ varint r.corr.length ++ r.corr

/-- write_chunk_block; `data` = the input from the running index on -/
def writeChunk (data : Bytes) : Chunk → R Bytes
  | .literal n =>
      if n ≤ data.length then .ok ([0] ++ varint n ++ data.take n)
      else .error (.panic "write_chunk_block: literal slice")
  | .deflate r => .ok ([1] ++ streamPayload r)
  | .idat c r => .ok ([2] ++ writeIdatContents c ++ streamPayload r)

/-- the loop of expand_zlib_chunks: `index += write_chunk_block(loc, &compressed_data[index..], ..)` -/
def writeChunks (src : Bytes) : Nat → List Chunk → R Bytes
  | _, [] => .ok []
  | index, c :: rest =>
      if index > src.length then .error (.panic "expand_zlib_chunks: slice start index")
      else do
        let a ← writeChunk (src.drop index) c
        let b ← writeChunks src (index + c.extent) rest
        .ok (a ++ b)

/-- read_chunk_block on an in-memory source: none = clean end of input -/
def readChunk (o : Oracle) (crc : Bytes → Nat) (bs : Bytes) : R (Option (Bytes × Bytes)) :=
  match bs with
  | [] => .ok none
  | tag :: bs =>
      if tag = 0 then do
        let (n, bs) ← getVarint bs
        let (d, bs) ← takeExact n bs
        .ok (some (d, bs))
      else if tag = 1 ∨ tag = 2 then do
        let (idat, bs) ← (if tag = 2 then do
            let (c, bs) ← readIdatContents bs
            pure (some c, bs)
          else pure (none, bs) : R (Option IdatContents × Bytes))
        let (pl, bs) ← getVarint bs
        let (plain, bs) ← takeExact pl bs
        let (cl, bs) ← getVarint bs
        let (corr, bs) ← takeExact cl bs
        let back ← o.recompress plain corr
        match idat with
        | some c => do
            let out ← recreateIdat crc c back
            .ok (some (out, bs))
        | none => .ok (some (back, bs))
      else .error .err

/-- the `loop { if !read_chunk_block(..)? { break } }` of recreated_zlib_chunks -/
def readChunks (o : Oracle) (crc : Bytes → Nat) : Nat → Bytes → R Bytes
  | 0, _ => .error .fuel
  | fuel + 1, bs => do
      match ← readChunk o crc bs with
      | none => .ok []
      | some (out, bs) => do
          let r ← readChunks o crc fuel bs
          .ok (out ++ r)

/-- recreated_zlib_chunks on an in-memory container -/
def recreate (o : Oracle) (crc : Bytes → Nat) (c : Bytes) : R Bytes :=
  match c with
  | [] => .error .err
  | v :: rest => if v ≠ WRAPPER_VERSION then .error .err else readChunks o crc (rest.length + 1) rest

-- ---------------------------------------------------------------------------------------------
-- scanner

inductive Sig where
  | zlib
  | zip
  | gzip
  | idat
deriving Repr, DecidableEq, Inhabited

/-- the `match sig` of next_signature on the little-endian u16 at a position -/
def sigOf (b0 b1 : Nat) : Option Sig :=
  let v := b0 + 256 * b1
  if v = 0x0178 ∨ v = 0x5E78 ∨ v = 0x9C78 ∨ v = 0xDA78 then some .zlib
  else if v = 0x4B50 then some .zip
  else if v = 0x8B1F then some .gzip
  else if v = 0x4449 then some .idat
  else none

/-- next_signature: first i ≥ index with i + 1 < len carrying a signature -/
def nextSignature (src : Bytes) : Nat → Nat → Option (Nat × Sig)
  | 0, _ => none
  | fuel + 1, i =>
      if i + 1 < src.length then
        match sigOf (src.getD i 0) (src.getD (i + 1) 0) with
        | some s => some (i, s)
        | none => nextSignature src fuel (i + 1)
      else none

/-- `while reader.read_u8()? != 0 {}`: position after the terminating zero -/
def skipCString : Bytes → Nat → R Nat
  | [], _ => .error .err
  | b :: rest, n => if b = 0 then .ok (n + 1) else skipCString rest (n + 1)

/-- skip_gzip_header: length of the header -/
def skipGzipHeader (s : Bytes) : R Nat := do
  if s.length < 10 then throw .err
  if s.getD 2 0 ≠ 8 then throw .err
  let flags := s.getD 3 0
  let n := 10
  let n ← (if flags / 4 % 2 = 1 then do
      if s.length < n + 2 then throw .err
      let xlen := ofLe16 ((s.drop n).take 2)
      if s.length < n + 2 + xlen then throw .err
      pure (n + 2 + xlen)
    else pure n : R Nat)
  let n ← (if flags / 8 % 2 = 1 then skipCString (s.drop n) n else pure n : R Nat)
  let n ← (if flags / 16 % 2 = 1 then skipCString (s.drop n) n else pure n : R Nat)
  let n ← (if flags / 2 % 2 = 1 then (if s.length < n + 2 then throw .err else pure (n + 2)) else pure n : R Nat)
  .ok n

/-- parse_zip_stream: (offset of the stream inside `s`, analysis result) -/
def parseZipStream (o : Oracle) (s : Bytes) : R (Nat × Res) := do
  if s.length < 30 then throw .err
  if ofLe32 (s.take 4) ≠ ZIP_LOCAL_FILE_HEADER_SIGNATURE then throw .err
  let method := ofLe16 ((s.drop 8).take 2)
  let nameLen := ofLe16 ((s.drop 26).take 2)
  let extraLen := ofLe16 ((s.drop 28).take 2)
  if s.length < 30 + nameLen then throw .err
  let start := 30 + nameLen + extraLen
  if method = 8 then
    if start > s.length then throw .err
    else match o.verified (s.drop start) with
      | .ok r => .ok (start, r)
      | .error (.panic m) => .error (.panic m)
      | .error _ => .error .err
  else .error .err

/-- a probe that panics is a panic of the scanner; any other failure is "not a stream here" -/
def probe {α} (x : R α) : R (Option α) :=
  match x with
  | .ok a => .ok (some a)
  | .error (.panic m) => .error (.panic m)
  | .error _ => .ok none

/-- one iteration of the scanner loop at a signature found at `index`:
    `some (chunks to append, new index)` when a stream is accepted there, `none` otherwise -/
def scanAt (o : Oracle) (crc : Bytes → Nat) (src : Bytes) (index prev : Nat) : Sig → R (Option (List Chunk × Nat))
  | .zlib => do
      match ← probe (o.verified (src.drop (index + 2))) with
      | some r =>
          if r.plain.length > MIN_BLOCKSIZE then
            .ok (some ([.literal (index + 2 - prev), .deflate r], index + 2 + r.size))
          else .ok none
      | none => .ok none
  | .gzip => do
      match ← probe (skipGzipHeader (src.drop index)) with
      | some h =>
          let start := index + h
          match ← probe (o.verified (src.drop start)) with
          | some r =>
              if r.plain.length > MIN_BLOCKSIZE then
                .ok (some ([.literal (start - prev), .deflate r], start + r.size))
              else .ok none
          | none => .ok none
      | none => .ok none
  | .zip => do
      match ← probe (parseZipStream o (src.drop index)) with
      | some (h, r) =>
          if r.plain.length > MIN_BLOCKSIZE then
            .ok (some ([.literal (index - prev + h), .deflate r], index + h + r.size))
          else .ok none
      | none => .ok none
  | .idat =>
      if index ≥ 4 ∧ index - 4 ≥ prev then do
        let realStart := index - 4
        match ← probe (parseIdat crc (src.drop realStart)) with
        | some (c, payload) =>
            match ← probe (o.verified payload) with
            | some r =>
                if c.totalChunkLength > MIN_BLOCKSIZE ∧ r.size = payload.length then
                  .ok (some ([.literal (realStart - prev), .idat c r], realStart + c.totalChunkLength))
                else .ok none
            | none => .ok none
        | none => .ok none
      else .ok none

/-- split_into_deflate_streams -/
def scanLoop (o : Oracle) (crc : Bytes → Nat) (src : Bytes) : Nat → Nat → Nat → R (List Chunk)
  | 0, _, _ => .error .fuel
  | fuel + 1, index, prev =>
      match nextSignature src (src.length + 1) index with
      | none => .ok (if prev < src.length then [.literal (src.length - prev)] else [])
      | some (i, s) => do
          match ← scanAt o crc src i prev s with
          | some (chunks, next) => do
              let r ← scanLoop o crc src fuel next next
              .ok (chunks ++ r)
          | none => scanLoop o crc src fuel (i + 1) prev

def scan (o : Oracle) (crc : Bytes → Nat) (src : Bytes) : R (List Chunk) :=
  scanLoop o crc src (src.length + 1) 0 0

/-- expand_zlib_chunks -/
def expand (o : Oracle) (crc : Bytes → Nat) (src : Bytes) : R Bytes := do
  let chunks ← scan o crc src
  let body ← writeChunks src 0 chunks
  .ok (WRAPPER_VERSION :: body)

end Preflate
