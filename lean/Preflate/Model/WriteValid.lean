/-
Well-formedness of a block list for the WRITER (the completeness direction of C07).

`WellFormed plain blocks pad` = `StreamValid plain blocks` (Model/Valid.lean) plus exactly what the
model parser checks in addition and the model writer needs, stated on the block list:

* literals and stored bytes are bytes (`< 256`);
* dynamic blocks: the code-length code lengths, and the literal/length and distance length vectors
  obtained from the header items (`litLens` / `distLens`, the two halves `litDistLengths` returns)
  pass `validLengths` (complete codes); every run-length item is coded with a symbol of non-zero
  length in the code-length code;
* every literal, length symbol and distance symbol a token uses, and the end-of-block symbol 256, has
  a non-zero length in the code of its block (`TokCoded`);
* the plain-text limit of the reader: a Huffman block ends at `≤ PLAIN_LIMIT` bytes of plain text, a
  stored block starts at `≤ PLAIN_LIMIT` (this is exactly when `check_plain_text_size` passes every
  time it is called);
* stored padding and the final padding fit the number of padding bits at their position. The
  position is the running bit offset, computed declaratively by `blockBits` (the number of bits the
  writer emits for a block: `Proofs/ParseWrite*.lean` proves it is).

Nothing here mentions `parse` or the writer functions. No Mathlib / Batteries.
-/
import Preflate.Model.Valid
namespace Preflate
open Gen

-- ---------------------------------------------------------------------------------------------
-- symbols used by a token

/-- the length code (0..28) the writer uses for a match of length `len`; the irregular encoding of
    258 uses code 27 (symbol 284) with extra bits 31 -/
def lenCode (len : Nat) (irr : Bool) : Nat :=
  if irr then LEN_CODE_COUNT - 2 else LENGTH_CODE_TABLE.getD (len - MIN_MATCH) 0

/-- the literal/length symbol of a match -/
def lenSym (len : Nat) (irr : Bool) : Nat := NONLEN_CODE_COUNT + lenCode len irr

/-- the distance symbol (0..29) of a match at distance `dist` (`quantize_distance`) -/
def distCode (dist : Nat) : Nat :=
  if dist ≤ 256 then DIST_CODE_TABLE.getD (dist - 1) 0
  else DIST_CODE_TABLE.getD (256 + ((dist - 1) >>> 7)) 0

/-- every symbol the token needs has a code (a non-zero length) -/
def TokCoded (ll dl : List Nat) : Token → Prop
  | .lit b => b < 256 ∧ ll.getD b 0 ≠ 0
  | .ref len dist irr => ll.getD (lenSym len irr) 0 ≠ 0 ∧ dl.getD (distCode dist) 0 ≠ 0

/-- number of bits of a token in the code `(ll, dl)` -/
def tokenBits (ll dl : List Nat) : Token → Nat
  | .lit b => ll.getD b 0
  | .ref len dist irr =>
      (ll.getD (lenSym len irr) 0 + lengthExtra (lenCode len irr)) +
      (dl.getD (distCode dist) 0 + distExtra (distCode dist))

/-- number of bits of a token list followed by the end-of-block symbol -/
def tokensBits (ll dl : List Nat) : List Token → Nat
  | [] => ll.getD 256 0
  | t :: ts => tokenBits ll dl t + tokensBits ll dl ts

/-- the code `(ll, dl)` is complete and codes everything the tokens use -/
structure CodesOK (ll dl : List Nat) (ts : List Token) : Prop where
  lit_valid : validLengths ll = true
  dist_valid : validLengths dl = true
  eob : ll.getD 256 0 ≠ 0
  toks : ∀ t ∈ ts, TokCoded ll dl t

-- ---------------------------------------------------------------------------------------------
-- dynamic headers

/-- the code-length symbol that codes a run-length item -/
def itemSym (it : RleItem) : Nat := if it.kind = 0 then it.data else it.kind

def itemBits (cl : List Nat) (it : RleItem) : Nat :=
  cl.getD (itemSym it) 0 + (if it.kind = 0 then 0 else (treeCodeAdjust it.kind).2)

/-- HLIT, HDIST, HCLEN, the 3-bit code lengths, the items -/
def headerBits (h : Header) : Nat :=
  14 + 3 * h.numCodeLengths + (h.items.map (itemBits h.codeLengths)).sum

/-- the two halves `litDistLengths` returns -/
def litLens (h : Header) : List Nat := (expandItems h.items 0).take h.numLiterals
def distLens (h : Header) : List Nat := (expandItems h.items 0).drop h.numLiterals

/-- on top of `HeaderValid`: the code-length code is complete and codes every item -/
structure HeaderCoded (h : Header) : Prop where
  cl_valid : validLengths h.codeLengths = true
  items_coded : ∀ it ∈ h.items, h.codeLengths.getD (itemSym it) 0 ≠ 0

-- ---------------------------------------------------------------------------------------------
-- blocks

/-- number of bits of a block written at bit offset `off` -/
def blockBits (off : Nat) : Block → Nat
  | .stored _ data => 3 + padCount (off + 3) + 32 + 8 * data.length
  | .fixed ts => 3 + tokensBits fixedLitLengths fixedDistLengths ts
  | .dynamic h ts => 3 + headerBits h + tokensBits (litLens h) (distLens h) ts

/-- what a block at bit offset `off` and plain-text position `pos` needs on top of `ValidBlock` -/
def BlockCoded (off pos : Nat) : Block → Prop
  | .stored pad data =>
      pad < 2 ^ padCount (off + 3) ∧ (∀ x ∈ data, x < 256) ∧ pos ≤ PLAIN_LIMIT
  | .fixed ts =>
      (∀ t ∈ ts, TokCoded fixedLitLengths fixedDistLengths t) ∧ toksEnd pos ts ≤ PLAIN_LIMIT
  | .dynamic h ts =>
      HeaderCoded h ∧ CodesOK (litLens h) (distLens h) ts ∧ toksEnd pos ts ≤ PLAIN_LIMIT

/-- all blocks, threading the bit offset and the plain-text position; at the end the final padding
    must fit the bits left in the last byte -/
def BlocksCoded : Nat → Nat → List Block → Nat → Prop
  | off, _, [], pad => pad < 2 ^ padCount off
  | off, pos, b :: bs, pad =>
      BlockCoded off pos b ∧ BlocksCoded (off + blockBits off b) (blockEnd pos b) bs pad

/-- a block list the writer serialises and the parser reads back as the same list -/
def WellFormed (plain : Array Nat) (blocks : List Block) (pad : Nat) : Prop :=
  StreamValid plain blocks ∧ BlocksCoded 0 0 blocks pad

end Preflate
