/-
huffman_helper.rs: the array-encoded Huffman tree, transcribed literally.

`buildTree` = `calculate_huffman_code_tree` (after the validity check), `walkTree` = `decode_symbol`.
Indexing the node array is modelled with explicit panics. `Proofs/HuffTree.lean` relates this to
the canonical-code decoder `decodeSym (codeTable l)` used everywhere else in the model.
-/
import Preflate.Model.Huffman
namespace Preflate

/-- the leaves of one level: `-1 - j` for every symbol j whose length is `bits`, in symbol order -/
def levelLeaves (l : List Nat) (bits : Nat) : List Int :=
  (List.range l.length).filterMap fun j => if l.getD j 0 = bits then some (-1 - (j : Int)) else none

/-- parent links for the nodes of the previous level: `j` for j = from, from+2, … < to -/
def parentLinks : Nat → Nat → Nat → List Int
  | 0, _, _ => []
  | fuel + 1, j, to => if j < to then (j : Int) :: parentLinks fuel (j + 2) to else []

/-- the `for c_bits_cur in (1..=c_bits_largest).rev()` loop: (nodes so far, start of previous level) -/
def buildLevels (l : List Nat) : Nat → List Int → Nat → List Int
  | 0, nodes, _ => nodes
  | bits + 1, nodes, prevStart =>
      let start := nodes.length
      let nodes := nodes ++ levelLeaves l (bits + 1)
      let nodes := nodes ++ parentLinks (start + 1) prevStart start
      buildLevels l bits nodes start

/-- calculate_huffman_code_tree for a length vector that passed `validLengths`. The Rust allocates
    `(c_codes - 1) * 2` slots and writes by index; writing past the end would panic. -/
def buildTree (l : List Nat) : R (Array Int) :=
  let maxBits := l.foldl max 0
  let nodes := buildLevels l maxBits [] 0
  let codes := (l.filter (· ≠ 0)).length
  if nodes.length ≤ (codes - 1) * 2 then
    .ok ((nodes ++ List.replicate ((codes - 1) * 2 - nodes.length) 0).toArray)
  else .error (.panic "calculate_huffman_code_tree: index out of bounds")

/-- decode_symbol: start at `len - 2`, follow `tree[bit + node]` until negative -/
def walkTree (tree : Array Int) : Nat → Int → Bits → R (Nat × Bits)
  | 0, _, _ => .error .fuel
  | _ + 1, _, [] => .error .err
  | fuel + 1, node, b :: bs =>
      let i := node + (if b then 1 else 0)
      if i < 0 ∨ i.toNat ≥ tree.size then .error (.panic "decode_symbol: index out of bounds")
      else
        let next := tree.getD i.toNat 0
        if next < 0 then .ok ((0 - (next + 1)).toNat, bs) else walkTree tree fuel next bs

def decodeSymTree (tree : Array Int) (bs : Bits) : R (Nat × Bits) :=
  walkTree tree (bs.length + 1) ((tree.size : Int) - 2) bs

end Preflate
