/-
Well-formedness of a parsed stream relative to its plaintext: what `parse` guarantees about the
blocks it returns (`Proofs/Expands.lean`: `parse_valid`) and what the predictor round trip needs.
-/
import Preflate.Model.Predict
namespace Preflate
open Gen

/-- a token is a genuine LZ77 step at position `pos` of `plain` -/
def ValidTok (plain : Array Nat) (pos : Nat) : Token → Prop
  | .lit b => pos < plain.size ∧ b = plain.getD pos 0
  | .ref len dist irr =>
      3 ≤ len ∧ len ≤ 258 ∧ 1 ≤ dist ∧ dist ≤ pos ∧ dist ≤ 32768 ∧ pos + len ≤ plain.size ∧
      matchAt plain pos len dist = true ∧ (irr = true → len = 258)

def ValidToks (plain : Array Nat) : Nat → List Token → Prop
  | _, [] => True
  | pos, t :: ts => ValidTok plain pos t ∧ ValidToks plain (pos + tokenLen t) ts

def toksEnd : Nat → List Token → Nat
  | pos, [] => pos
  | pos, t :: ts => toksEnd (pos + tokenLen t) ts

/-- what `HuffmanOriginalEncoding::read` guarantees -/
structure HeaderValid (h : Header) : Prop where
  lit_lo : 257 ≤ h.numLiterals
  lit_hi : h.numLiterals ≤ 288
  dist_lo : 1 ≤ h.numDist
  dist_hi : h.numDist ≤ 32
  cl_lo : 4 ≤ h.numCodeLengths
  cl_hi : h.numCodeLengths ≤ 19
  cl_len : h.codeLengths.length = 19
  cl_small : ∀ x ∈ h.codeLengths, x < 8
  cl_unused : ∀ i, h.numCodeLengths ≤ i → i < 19 →
    h.codeLengths.getD (TREE_CODE_ORDER_TABLE.getD i 0) 0 = 0
  items_kind : ∀ it ∈ h.items,
    (it.kind = 0 ∧ it.data ≤ 15) ∨ (it.kind = 16 ∧ 3 ≤ it.data ∧ it.data ≤ 6) ∨
    (it.kind = 17 ∧ 3 ≤ it.data ∧ it.data ≤ 10) ∨ (it.kind = 18 ∧ 11 ≤ it.data ∧ it.data ≤ 138)
  items_sum : (h.items.map itemSpan).sum = h.numLiterals + h.numDist

def blockEnd (pos : Nat) : Block → Nat
  | .stored _ data => pos + data.length
  | .fixed ts => toksEnd pos ts
  | .dynamic _ ts => toksEnd pos ts

def ValidBlock (plain : Array Nat) (pos : Nat) : Block → Prop
  | .stored pad data =>
      pad < 256 ∧ data.length < 65536 ∧ pos + data.length ≤ plain.size ∧
      data = (List.range data.length).map fun i => plain.getD (pos + i) 0
  | .fixed ts => ValidToks plain pos ts ∧ ts.length < 2 ^ 32 - 1
  | .dynamic h ts => ValidToks plain pos ts ∧ ts.length < 2 ^ 32 - 1 ∧ HeaderValid h

def ValidBlocks (plain : Array Nat) : Nat → List Block → Prop
  | _, [] => True
  | pos, b :: bs => ValidBlock plain pos b ∧ ValidBlocks plain (blockEnd pos b) bs

def blocksEnd : Nat → List Block → Nat
  | pos, [] => pos
  | pos, b :: bs => blocksEnd (blockEnd pos b) bs

/-- a non-empty block list that expands to exactly `plain` -/
def StreamValid (plain : Array Nat) (blocks : List Block) : Prop :=
  blocks ≠ [] ∧ ValidBlocks plain 0 blocks ∧ blocksEnd 0 blocks = plain.size

end Preflate
