/-
RFC 1951 transcription used as the specification side of C03: the same decoding procedure as the
RFC's §3.2 pseudo-code, written WITHOUT the repository's tables — length / distance bases and
extra bits by closed formula (§3.2.5), the fixed code by its ranges (§3.2.6), the code length
order as the RFC lists it (§3.2.7), canonical codes by the RFC's three steps (§3.2.2; that part is
`Huffman.lean`, which already is that algorithm and takes no table from the source).
-/
import Preflate.Model.Deflate
namespace Preflate.Spec
open Preflate

/-- §3.2.5: extra bits of length code 257 + c -/
def lengthExtra (c : Nat) : Nat := if c < 8 ∨ c = 28 then 0 else (c - 4) / 4

/-- §3.2.5: smallest length of code 257 + c, minus 3 -/
def lengthBase (c : Nat) : Nat :=
  if c < 8 then c else if c = 28 then 255 else (4 + c % 4) <<< ((c - 4) / 4)

/-- §3.2.5: extra bits of distance code c -/
def distExtra (c : Nat) : Nat := if c < 4 then 0 else (c - 2) / 2

/-- §3.2.5: smallest distance of code c, minus 1 -/
def distBase (c : Nat) : Nat := if c < 4 then c else (2 + c % 2) <<< ((c - 2) / 2)

/-- §3.2.7: order of the code length code lengths -/
def codeLengthOrder : List Nat := [16, 17, 18, 0, 8, 7, 9, 6, 10, 5, 11, 4, 12, 3, 13, 2, 14, 1, 15]

/-- §3.2.6 -/
def fixedLitLengths : List Nat :=
  List.replicate 144 8 ++ List.replicate 112 9 ++ List.replicate 24 7 ++ List.replicate 8 8

def fixedDistLengths : List Nat := List.replicate 32 5

def readCodeLengths : Nat → Nat → List Nat → Bits → R (List Nat × Bits)
  | 0, _, acc, bs => .ok (acc, bs)
  | n + 1, i, acc, bs => do
      let (v, bs) ← readBits 3 bs
      readCodeLengths n (i + 1) (acc.set (codeLengthOrder.getD i 0) v) bs

def readHeader (bs : Bits) : R (Header × Bits) := do
  let (a, bs) ← readBits 5 bs
  let (b, bs) ← readBits 5 bs
  let (c, bs) ← readBits 4 bs
  let hlit := a + 257
  let hdist := b + 1
  let hclen := c + 4
  let (cl, bs) ← readCodeLengths hclen 0 (List.replicate 19 0) bs
  let t ← mkTable cl
  let (items, bs) ← readRleItems t (hlit + hdist) (bs.length + 1) 0 bs
  .ok (⟨hlit, hdist, hclen, cl, items⟩, bs)

/-- NOT part of RFC 1951: an implementation limit of the analysed library. Its reader refuses to
    continue once the plain text is longer than `i32::MAX - 65535` bytes (it keeps plain-text
    positions as `i32`); the check sits before every literal/length symbol and before the bytes
    of a stored block. It is transcribed here only so that this procedure stays EQUAL, as a
    function, to the model parser (`parseBits_eq_spec`); on every plain text up to that size the
    procedure below is the RFC's. -/
def implPlainLimit : Nat := 2147483647 - 65535

def decodeTokens (lt dt : List (Bits × Nat)) : Nat → Array Nat → Bits → R (List Token × Array Nat × Bits)
  | 0, _, _ => .error .fuel
  | fuel + 1, plain, bs =>
    -- implementation limit of the analysed library, not RFC 1951 (see `implPlainLimit`)
    if plain.size > implPlainLimit then .error .err
    else do
      let (sym, bs) ← decodeSym lt bs
      if sym < 256 then do
        let (ts, plain, bs) ← decodeTokens lt dt fuel (plain.push sym) bs
        .ok (.lit sym :: ts, plain, bs)
      else if sym = 256 then .ok ([], plain, bs)
      else do
        let lcode := sym - 257
        if lcode ≥ 29 then throw .err
        let (ex, bs) ← readBits (lengthExtra lcode) bs
        let len := 3 + lengthBase lcode + ex
        let irregular := len == 258 && lcode != 28
        let (dcode, bs) ← decodeSym dt bs
        if dcode ≥ 30 then throw .err
        let (dx, bs) ← readBits (distExtra dcode) bs
        let dist := 1 + distBase dcode + dx
        if dist > plain.size then throw .err
        let (ts, plain, bs) ← decodeTokens lt dt fuel (copyRef plain dist len) bs
        .ok (.ref len dist irregular :: ts, plain, bs)

def readBlock (plain : Array Nat) (bs : Bits) : R (Bool × Block × Array Nat × Bits) := do
  let (last, bs) ← readBits 1 bs
  let (mode, bs) ← readBits 2 bs
  if mode = 0 then do
    let (pad, bs) ← readBits (bs.length % 8) bs
    let (len, bs) ← readBits 16 bs
    let (ilen, bs) ← readBits 16 bs
    if len + ilen ≠ 65535 then throw .err
    -- implementation limit of the analysed library, not RFC 1951 (see `implPlainLimit`)
    if plain.size > implPlainLimit then throw .err
    let (data, bs) ← readBytes len bs
    .ok (last == 1, .stored pad data, pushAll plain data, bs)
  else if mode = 1 then do
    let lt ← mkTable fixedLitLengths
    let dt ← mkTable fixedDistLengths
    let (ts, plain, bs) ← decodeTokens lt dt (bs.length + 1) plain bs
    .ok (last == 1, .fixed ts, plain, bs)
  else if mode = 2 then do
    let (h, bs) ← readHeader bs
    let (ll, dl) ← litDistLengths h
    let lt ← mkTable ll
    let dt ← mkTable dl
    let (ts, plain, bs) ← decodeTokens lt dt (bs.length + 1) plain bs
    .ok (last == 1, .dynamic h ts, plain, bs)
  else .error .err

def readBlocks : Nat → Array Nat → Bits → R (List Block × Array Nat × Bits)
  | 0, _, _ => .error .fuel
  | fuel + 1, plain, bs => do
      let (last, b, plain, bs) ← readBlock plain bs
      if last then .ok ([b], plain, bs)
      else do
        let (r, plain, bs) ← readBlocks fuel plain bs
        .ok (b :: r, plain, bs)

def parseBits (bs : Bits) : R Parsed := do
  let (blocks, plain, bs) ← readBlocks (bs.length + 1) #[] bs
  let (pad, bs) ← readBits (bs.length % 8) bs
  .ok ⟨blocks, pad, plain, bs⟩

/-- the RFC-table inflater: plaintext and number of bytes consumed -/
def inflate (d : List UInt8) : Option (Array Nat × Nat) :=
  match parseBits (bytesToBits d) with
  | .ok p => some (p.plain, d.length - p.rest.length / 8)
  | .error _ => none

end Preflate.Spec
