/-
cabac_codec.rs + statistical_codec.rs + the default methods of cabac::traits
(put_unary_encoded, put_n_bits, get_unary_encoded, get_n_bits).

The correction codec is modelled down to the sequence of binary decisions handed to the
arithmetic coder: each decision is either a bypass bit or a bit coded under an adaptive
context, identified by (family, row, index). The arithmetic coder itself (crate `cabac`,
VP8 bool coder) is Model/VP8.lean.
-/
import Preflate.Model.Basic
namespace Preflate

/-- CodecAction without VerifyState (a no-op for the cabac codec) -/
inductive Op where
  | value (bits v : Nat)          -- encode_value(v, bits)
  | mis (ctx : Nat) (flag : Bool) -- encode_misprediction(ctx, flag)
  | corr (ctx : Nat) (v : Nat)    -- encode_correction(ctx, v)
deriving Repr, DecidableEq, Inhabited

inductive OpKind where
  | value (bits : Nat)
  | mis (ctx : Nat)
  | corr (ctx : Nat)
deriving Repr, DecidableEq, Inhabited

def Op.kind : Op → OpKind
  | .value b _ => .value b
  | .mis c _ => .mis c
  | .corr c _ => .corr c

/-- identity of an adaptive context inside `PredictionCabacContext`:
    family 0 = default_encoding[i], 1 = default_encoding_nbits[i],
    2 = correction[row][i], 3 = correction_bits[row][i] -/
structure CtxId where
  family : Nat
  row : Nat
  index : Nat
deriving Repr, DecidableEq, Inhabited

/-- one binary decision: `ctx = none` is a bypass bit -/
structure Ev where
  ctx : Option CtxId
  bit : Bool
deriving Repr, DecidableEq, Inhabited

/-- array sizes of the four context families -/
def famSize (family : Nat) : Nat := if family < 2 then 16 else 8

def ctxAt (family row i : Nat) : CtxId := ⟨family, row, min (famSize family - 1) i⟩

/-- bit_helper.rs `bit_length`: 32 - leading_zeros -/
def bitLength : Nat → Nat
  | 0 => 0
  | n + 1 => Nat.log2 (n + 1) + 1

/-- CabacWriter::put_unary_encoded: `v` ones then a zero, context index min(A-1, i) -/
def putUnary (family row : Nat) : Nat → Nat → List Ev
  | 0, i => [⟨some (ctxAt family row i), false⟩]
  | v + 1, i => ⟨some (ctxAt family row i), true⟩ :: putUnary family row v (i + 1)

/-- CabacWriter::put_n_bits: bits num_bits-1 … 0 of `bits`, context index min(A-1, i) -/
def putNBits (family row : Nat) (bits : Nat) : Nat → List Ev
  | 0 => []
  | n + 1 => ⟨some (ctxAt family row n), bits.testBit n⟩ :: putNBits family row bits n

/-- write_exp_encoded. `1 << bl` is a u32 shift in the code: bl = 32 (value ≥ 2^31) panics. -/
def writeExp (family row : Nat) (value : Nat) : R (List Ev) :=
  let bl := bitLength value
  if bl ≥ 32 then .error (.panic "write_exp_encoded: 1 << bl overflow")
  else if bl > 1 then
    .ok (putUnary family row bl 0 ++ putNBits (family + 1) row (value % 2 ^ bl) (bl - 1))
  else .ok (putUnary family row bl 0)

/-- write_bypass: bits max_bits-1 … 0 -/
def writeBypass (value : Nat) : Nat → List Ev
  | 0 => []
  | n + 1 => ⟨none, value.testBit n⟩ :: writeBypass value n

/-- write_default: the pending default count, then reset -/
def writeDefault (count : Nat) : R (List Ev) := writeExp 0 0 count

/-- the `if self.default_count > 0 { self.write_default(writer) }` prologue of every encode call -/
def flushDefault (count : Nat) : R (List Ev) :=
  if count > 0 then writeDefault count else .ok []

/-- one encode_* call: (events emitted, new default_count) -/
def encodeOp (count : Nat) : Op → R (List Ev × Nat)
  | .value bits v => do
      let a ← flushDefault count
      .ok (a ++ writeBypass v bits, 0)
  | .mis _ flag => do
      let a ← flushDefault count
      if flag then do
        let b ← writeDefault 0
        .ok (a ++ b, 0)
      else .ok (a, 1)
  | .corr ctx v => do
      let a ← flushDefault count
      if v ≠ 0 then do
        let b ← writeDefault 0
        let c ← writeExp 2 ctx v
        .ok (a ++ b ++ c, 0)
      else .ok (a, 1)

/-- all encode calls followed by `finish` (flush_encode; the arithmetic coder's own flush is
    part of VP8) -/
def encodeOps : Nat → List Op → R (List Ev)
  | count, [] => flushDefault count
  | count, op :: rest => do
      let (a, count) ← encodeOp count op
      let b ← encodeOps count rest
      .ok (a ++ b)

-- ---------------------------------------------------------------------------------------------
-- decoder: consumes events; every read states the context it is made under, and a read under a
-- different context than the one the event was written with is a failure (`Fail.err`), so a
-- successful decode implies that both sides used the same context sequence

def getBit (c : Option CtxId) : List Ev → R (Bool × List Ev)
  | [] => .error .err
  | e :: rest => if e.ctx = c then .ok (e.bit, rest) else .error .err

/-- CabacReader::get_unary_encoded (fuel: the events available) -/
def getUnary (family row : Nat) : Nat → Nat → List Ev → R (Nat × List Ev)
  | 0, _, _ => .error .fuel
  | fuel + 1, value, evs => do
      let (b, evs) ← getBit (some (ctxAt family row value)) evs
      if b then getUnary family row fuel (value + 1) evs else .ok (value, evs)

/-- CabacReader::get_n_bits -/
def getNBits (family row : Nat) : Nat → List Ev → R (Nat × List Ev)
  | 0, evs => .ok (0, evs)
  | n + 1, evs => do
      let (b, evs) ← getBit (some (ctxAt family row n)) evs
      let (lo, evs) ← getNBits family row n evs
      .ok ((if b then 2 ^ n else 0) + lo, evs)

/-- read_exp_value -/
def readExp (family row : Nat) (evs : List Ev) : R (Nat × List Ev) := do
  let (found, evs) ← getUnary family row (evs.length + 1) 0 evs
  if found = 0 then .ok (0, evs)
  else if found = 1 then .ok (1, evs)
  else do
    let (lo, evs) ← getNBits (family + 1) row (found - 1) evs
    .ok (lo + 2 ^ (found - 1), evs)

/-- read_bypass -/
def readBypass : Nat → Nat → List Ev → R (Nat × List Ev)
  | 0, acc, evs => .ok (acc, evs)
  | n + 1, acc, evs => do
      let (b, evs) ← getBit none evs
      readBypass n (acc * 2 + (if b then 1 else 0)) evs

/-- one decode_* call: (operation read, new default_count, remaining events) -/
def decodeOp (count : Nat) : OpKind → List Ev → R (Op × Nat × List Ev)
  | .value bits, evs =>
      if count ≠ 0 then .error (.panic "decode_value: default count should be 0")
      else do
        let (v, evs) ← readBypass bits 0 evs
        -- `r as u16`
        .ok (.value bits (v % 65536), 0, evs)
  | .mis ctx, evs => do
      let (count, evs) ← if count = 0 then readExp 0 0 evs else .ok (count, evs)
      if count > 0 then .ok (.mis ctx false, count - 1, evs)
      else .ok (.mis ctx true, 0, evs)
  | .corr ctx, evs => do
      let (count, evs) ← if count = 0 then readExp 0 0 evs else .ok (count, evs)
      if count > 0 then .ok (.corr ctx 0, count - 1, evs)
      else do
        let (v, evs) ← readExp 2 ctx evs
        .ok (.corr ctx v, 0, evs)

def decodeOps : Nat → List OpKind → List Ev → R (List Op × Nat × List Ev)
  | count, [], evs => .ok ([], count, evs)
  | count, k :: rest, evs => do
      let (op, count, evs) ← decodeOp count k evs
      let (ops, count, evs) ← decodeOps count rest evs
      .ok (op :: ops, count, evs)

/-- the operations the property quantifies over: widths 1..16 with values that fit,
    corrections below 2^31, contexts inside the enums -/
def Op.WF : Op → Prop
  | .value bits v => 1 ≤ bits ∧ bits ≤ 16 ∧ v < 2 ^ bits
  | .mis ctx _ => ctx < 7
  | .corr ctx v => ctx < 10 ∧ v < 2 ^ 31

instance : DecidablePred Op.WF := fun o => by
  cases o <;> simp only [Op.WF] <;> exact inferInstance

end Preflate
