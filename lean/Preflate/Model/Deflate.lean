/-
deflate_reader.rs, deflate_writer.rs, huffman_encoding.rs, preflate_token.rs,
process.rs::parse_deflate — DEFLATE parse and re-serialise.

All tables come from `Preflate.Gen` (regenerated from the Rust source on every run).
Loops that the Rust writes as `loop { … }` over the input take a fuel argument here; the
top-level functions supply `bits.length + 1`, and `Props/C05` proves fuel is never exhausted.
-/
import Preflate.Model.Huffman
import Preflate.Gen.Consts
namespace Preflate
open Gen

/-- preflate_token.rs `PreflateToken` (len is the real length 3..258) -/
inductive Token where
  | lit (b : Nat)
  | ref (len dist : Nat) (irregular258 : Bool)
deriving Repr, DecidableEq, Inhabited

/-- one run-length item of a dynamic header: `TreeCodeType` discriminant and its datum -/
structure RleItem where
  kind : Nat      -- 0 = Code, 16 = Repeat, 17 = ZeroShort, 18 = ZeroLong
  data : Nat
deriving Repr, DecidableEq, Inhabited

/-- huffman_encoding.rs `HuffmanOriginalEncoding` -/
structure Header where
  numLiterals : Nat
  numDist : Nat
  numCodeLengths : Nat
  codeLengths : List Nat      -- 19 entries, indexed by code-length symbol
  items : List RleItem
deriving Repr, DecidableEq, Inhabited

inductive Block where
  | stored (padding : Nat) (data : List Nat)
  | fixed (tokens : List Token)
  | dynamic (hdr : Header) (tokens : List Token)
deriving Repr, DecidableEq, Inhabited

structure Parsed where
  blocks : List Block
  eofPadding : Nat
  plain : Array Nat
  rest : Bits
deriving Repr

-- ---------------------------------------------------------------------------------------------
-- tables

def lengthBase (c : Nat) : Nat := LENGTH_BASE_TABLE.getD c 0
def lengthExtra (c : Nat) : Nat := LENGTH_EXTRA_TABLE.getD c 0
def distBase (c : Nat) : Nat := DIST_BASE_TABLE.getD c 0
def distExtra (c : Nat) : Nat := DIST_EXTRA_TABLE.getD c 0

/-- preflate_constants.rs `quantize_length` (indexing a 256-entry table with `len - 3`) -/
def quantizeLength (len : Nat) : R Nat :=
  if len < MIN_MATCH then .error (.panic "quantize_length: subtract with overflow")
  else idx LENGTH_CODE_TABLE (len - MIN_MATCH) "quantize_length: index"

/-- preflate_constants.rs `quantize_distance` -/
def quantizeDistance (dist : Nat) : R Nat :=
  if dist = 0 then .error (.panic "quantize_distance: subtract with overflow")
  else if dist ≤ 256 then idx DIST_CODE_TABLE (dist - 1) "quantize_distance: index"
  else idx DIST_CODE_TABLE (256 + ((dist - 1) >>> 7)) "quantize_distance: index"

/-- `get_fixed_distance_lengths` -/
def fixedLitLengths : List Nat :=
  (List.range 288).map fun i => if 144 ≤ i ∧ i ≤ 255 then 9 else if 256 ≤ i ∧ i ≤ 279 then 7 else 8

def fixedDistLengths : List Nat := List.replicate 32 5

-- ---------------------------------------------------------------------------------------------
-- dynamic header

/-- `get_tree_code_adjustment`: (amount to subtract, bits) -/
def treeCodeAdjust (kind : Nat) : Nat × Nat :=
  if kind = 16 then (3, 2) else if kind = 17 then (3, 3) else (11, 7)

/-- the `for i in 0..hclen` loop reading 3-bit code lengths in TREE_CODE_ORDER_TABLE order -/
def readCodeLengths : Nat → Nat → List Nat → Bits → R (List Nat × Bits)
  | 0, _, acc, bs => .ok (acc, bs)
  | n + 1, i, acc, bs => do
      let (v, bs) ← readBits 3 bs
      readCodeLengths n (i + 1) (acc.set (TREE_CODE_ORDER_TABLE.getD i 0) v) bs

/-- the `while codes_read < c_lengths_combined` loop -/
def readRleItems (t : List (Bits × Nat)) (total : Nat) : Nat → Nat → Bits → R (List RleItem × Bits)
  | 0, _, _ => .error .fuel
  | fuel + 1, read, bs =>
      if read < total then do
        let (w, bs) ← decodeSym t bs
        if w ≤ 15 then do
          let (items, bs) ← readRleItems t total fuel (read + 1) bs
          .ok (⟨0, w⟩ :: items, bs)
        else if w ≤ 18 then do
          let (sub, nbits) := treeCodeAdjust w
          let (x, bs) ← readBits nbits bs
          let v := x + sub
          let (items, bs) ← readRleItems t total fuel (read + v) bs
          .ok (⟨w, v⟩ :: items, bs)
        else .error .err
      else if read = total then .ok ([], bs) else .error .err

/-- `HuffmanOriginalEncoding::read` -/
def readHeader (bs : Bits) : R (Header × Bits) := do
  let (a, bs) ← readBits 5 bs
  let (b, bs) ← readBits 5 bs
  let (c, bs) ← readBits 4 bs
  let hlit := a + 257
  let hdist := b + 1
  let hclen := c + 4
  let (cl, bs) ← readCodeLengths hclen 0 (List.replicate 19 0) bs
  let t ← mkTable cl
  let (items, bs) ← readRleItems t (hlit + hdist) (bs.length + 1) 0 bs
  .ok (⟨hlit, hdist, hclen, cl, items⟩, bs)

/-- `get_literal_distance_lengths`, first half: expand the run-length items -/
def expandItems : List RleItem → Nat → List Nat
  | [], _ => []
  | ⟨k, d⟩ :: rest, prev =>
      if k = 0 then d :: expandItems rest d
      else if k = 16 then List.replicate d prev ++ expandItems rest prev
      else List.replicate d 0 ++ expandItems rest prev

/-- `get_literal_distance_lengths`: split at `num_literals` (slicing panics when out of range) -/
def litDistLengths (h : Header) : R (List Nat × List Nat) :=
  let all := expandItems h.items 0
  if h.numLiterals ≤ all.length then .ok (all.take h.numLiterals, all.drop h.numLiterals)
  else .error (.panic "get_literal_distance_lengths: slice index")

def writeCodeLengths (cl : List Nat) : Nat → Nat → R Bits
  | 0, _ => .ok []
  | n + 1, i => do
      let o ← idx TREE_CODE_ORDER_TABLE i "write: TREE_CODE_ORDER_TABLE index"
      let v ← idx cl o "write: code_lengths index"
      let b ← emit v 3 "write: code length does not fit 3 bits"
      let rest ← writeCodeLengths cl n (i + 1)
      .ok (b ++ rest)

def writeRleItems (cl : List Nat) : List RleItem → R Bits
  | [] => .ok []
  | ⟨k, d⟩ :: rest => do
      let b ←
        if k = 0 then
          if d < cl.length then .ok (codeBits cl d) else .error (.panic "write: codes index")
        else do
          if ¬ k < cl.length then throw (.panic "write: codes index")
          let (sub, nbits) := treeCodeAdjust k
          if d < sub then throw (.panic "write: length - sub overflow")
          let x ← emit (d - sub) nbits "write: repeat count does not fit"
          .ok (codeBits cl k ++ x)
      let r ← writeRleItems cl rest
      .ok (b ++ r)

/-- `HuffmanOriginalEncoding::write` -/
def writeHeader (h : Header) : R Bits := do
  if h.numLiterals < 257 then throw (.panic "write: num_literals - 257")
  if h.numDist < 1 then throw (.panic "write: num_dist - 1")
  if h.numCodeLengths < 4 then throw (.panic "write: num_code_lengths - 4")
  let a ← emit (h.numLiterals - 257) 5 "write: hlit"
  let b ← emit (h.numDist - 1) 5 "write: hdist"
  let c ← emit (h.numCodeLengths - 4) 4 "write: hclen"
  let cl ← writeCodeLengths h.codeLengths h.numCodeLengths 0
  let items ← writeRleItems h.codeLengths h.items
  .ok (a ++ b ++ c ++ cl ++ items)

-- ---------------------------------------------------------------------------------------------
-- tokens

/-- DeflateReader::write_reference: copy `len` bytes from `dist` back, one at a time -/
def copyRef (plain : Array Nat) (dist : Nat) : Nat → Array Nat
  | 0 => plain
  | n + 1 => copyRef (plain.push (plain.getD (plain.size - dist) 0)) dist n

/-- DeflateReader::check_plain_text_size: plain-text positions are kept as `i32` everywhere
    (PreflateInput, hash chains), so the reader refuses to grow a plain text that is already
    longer than `i32::MAX - 65535`; a single step (literal, match, stored block) adds at most
    65535 bytes. -/
def PLAIN_LIMIT : Nat := 2147483647 - 65535

/-- DeflateReader::decode_block; `check_plain_text_size()?` opens every iteration of the loop -/
def decodeTokens (lt dt : List (Bits × Nat)) : Nat → Array Nat → Bits → R (List Token × Array Nat × Bits)
  | 0, _, _ => .error .fuel
  | fuel + 1, plain, bs =>
    if plain.size > PLAIN_LIMIT then .error .err
    else do
      let (sym, bs) ← decodeSym lt bs
      if sym < 256 then do
        let (ts, plain, bs) ← decodeTokens lt dt fuel (plain.push sym) bs
        .ok (.lit sym :: ts, plain, bs)
      else if sym = 256 then .ok ([], plain, bs)
      else do
        let lcode := sym - NONLEN_CODE_COUNT
        if lcode ≥ LEN_CODE_COUNT then throw .err
        let (ex, bs) ← readBits (lengthExtra lcode) bs
        let len := MIN_MATCH + lengthBase lcode + ex
        let irregular := len == 258 && lcode != LEN_CODE_COUNT - 1
        let (dcode, bs) ← decodeSym dt bs
        if dcode ≥ DIST_CODE_COUNT then throw .err
        let (dx, bs) ← readBits (distExtra dcode) bs
        let dist := 1 + distBase dcode + dx
        if dist > plain.size then throw .err
        let (ts, plain, bs) ← decodeTokens lt dt fuel (copyRef plain dist len) bs
        .ok (.ref len dist irregular :: ts, plain, bs)

/-- HuffmanWriter::write_literal / write_distance: `codes[sym]` with `lengths[sym]` bits -/
def writeSym (l : List Nat) (s : Nat) (site : String) : R Bits :=
  if s < l.length then .ok (codeBits l s) else .error (.panic site)

/-- DeflateWriter::encode_block_with_decoder, one token -/
def writeToken (ll dl : List Nat) : Token → R Bits
  | .lit b => writeSym ll b "write_literal: index"
  | .ref len dist irregular => do
      let lenBits ←
        if irregular then do
          let s ← writeSym ll (LITLEN_CODE_COUNT - 2) "write_literal: index"
          let x ← emit 31 5 "write: irregular 258"
          .ok (s ++ x)
        else do
          let lc ← quantizeLength len
          let s ← writeSym ll (NONLEN_CODE_COUNT + lc) "write_literal: index"
          let nb ← idx LENGTH_EXTRA_TABLE lc "LENGTH_EXTRA_TABLE index"
          if nb > 0 then do
            let base ← idx LENGTH_BASE_TABLE lc "LENGTH_BASE_TABLE index"
            if len < MIN_MATCH + base then throw (.panic "write: length extra underflow")
            let x ← emit (len - MIN_MATCH - base) nb "write: length extra bits"
            .ok (s ++ x)
          else .ok s
      let dc ← quantizeDistance dist
      let s ← writeSym dl dc "write_distance: index"
      let nb ← idx DIST_EXTRA_TABLE dc "DIST_EXTRA_TABLE index"
      let distBits ←
        if nb > 0 then do
          let base ← idx DIST_BASE_TABLE dc "DIST_BASE_TABLE index"
          if dist < 1 + base then throw (.panic "write: distance extra underflow")
          let x ← emit (dist - 1 - base) nb "write: distance extra bits"
          .ok (s ++ x)
        else .ok s
      .ok (lenBits ++ distBits)

def writeTokens (ll dl : List Nat) : List Token → R Bits
  | [] => writeSym ll 256 "write_literal: index"
  | t :: ts => do
      let a ← writeToken ll dl t
      let b ← writeTokens ll dl ts
      .ok (a ++ b)

-- ---------------------------------------------------------------------------------------------
-- blocks

def readBytes : Nat → Bits → R (List Nat × Bits)
  | 0, bs => .ok ([], bs)
  | n + 1, bs => do
      let (b, bs) ← readBits 8 bs
      let (r, bs) ← readBytes n bs
      .ok (b :: r, bs)

def pushAll (plain : Array Nat) : List Nat → Array Nat
  | [] => plain
  | b :: r => pushAll (plain.push b) r

/-- DeflateReader::read_block. Returns (last, block, plain, rest). -/
def readBlock (plain : Array Nat) (bs : Bits) : R (Bool × Block × Array Nat × Bits) := do
  let (last, bs) ← readBits 1 bs
  let (mode, bs) ← readBits 2 bs
  if mode = 0 then do
    let (pad, bs) ← readBits (bs.length % 8) bs
    let (len, bs) ← readBits 16 bs
    let (ilen, bs) ← readBits 16 bs
    if len + ilen ≠ 65535 then throw .err   -- (len ^ ilen) != 0xffff on 16-bit values
    -- flush_buffer_to_byte_boundary(); check_plain_text_size()?; then the byte loop
    if plain.size > PLAIN_LIMIT then throw .err
    let (data, bs) ← readBytes len bs
    .ok (last == 1, .stored pad data, pushAll plain data, bs)
  else if mode = 1 then do
    let lt ← mkTable fixedLitLengths
    let dt ← mkTable fixedDistLengths
    let (ts, plain, bs) ← decodeTokens lt dt (bs.length + 1) plain bs
    .ok (last == 1, .fixed ts, plain, bs)
  else if mode = 2 then do
    let (h, bs) ← readHeader bs
    let (ll, dl) ← litDistLengths h
    let lt ← mkTable ll
    let dt ← mkTable dl
    let (ts, plain, bs) ← decodeTokens lt dt (bs.length + 1) plain bs
    .ok (last == 1, .dynamic h ts, plain, bs)
  else .error .err

/-- the `while !last` loop of parse_deflate -/
def readBlocks : Nat → Array Nat → Bits → R (List Block × Array Nat × Bits)
  | 0, _, _ => .error .fuel
  | fuel + 1, plain, bs => do
      let (last, b, plain, bs) ← readBlock plain bs
      if last then .ok ([b], plain, bs)
      else do
        let (r, plain, bs) ← readBlocks fuel plain bs
        .ok (b :: r, plain, bs)

/-- process.rs `parse_deflate` on the bit list of the input -/
def parseBits (bs : Bits) : R Parsed := do
  let (blocks, plain, bs) ← readBlocks (bs.length + 1) #[] bs
  let (pad, bs) ← readBits (bs.length % 8) bs
  .ok ⟨blocks, pad, plain, bs⟩

def parse (d : List UInt8) : R Parsed := parseBits (bytesToBits d)

/-- compressed_size: the byte cursor after the final padding -/
def Parsed.consumed (p : Parsed) (d : List UInt8) : Nat := d.length - p.rest.length / 8

/-- DeflateWriter::encode_block; `off` = bits written before this block -/
def writeBlock (off : Nat) (last : Bool) : Block → R Bits
  | .stored pad data => do
      let hdr := (if last then true else false) :: [false, false]
      let p := padBits (off + 3) pad
      let n := data.length
      -- `len as u16` / `!len as u16`
      let lenBits := bitsOfNat 16 (n % 65536)
      let nlenBits := bitsOfNat 16 (65535 - n % 65536)
      .ok (hdr ++ p ++ lenBits ++ nlenBits ++ data.flatMap (bitsOfNat 8))
  | .fixed ts => do
      let body ← writeTokens fixedLitLengths fixedDistLengths ts
      .ok ((if last then true else false) :: [true, false] ++ body)
  | .dynamic h ts => do
      let hb ← writeHeader h
      let (ll, dl) ← litDistLengths h
      let body ← writeTokens ll dl ts
      .ok ((if last then true else false) :: [false, true] ++ hb ++ body)

def writeBlocks (off : Nat) : List Block → R Bits
  | [] => .ok []
  | [b] => writeBlock off true b
  | b :: r => do
      let x ← writeBlock off false b
      let y ← writeBlocks (off + x.length) r
      .ok (x ++ y)

/-- encode all blocks, then `flush_with_padding` -/
def writeStreamBits (blocks : List Block) (eofPadding : Nat) : R Bits := do
  let x ← writeBlocks 0 blocks
  .ok (x ++ padBits x.length eofPadding)

def writeStream (blocks : List Block) (eofPadding : Nat) : R (List UInt8) := do
  let x ← writeStreamBits blocks eofPadding
  .ok (bitsToBytes x)

end Preflate
