/-
Specification side of C06, written independently of the scanner: how a raw DEFLATE stream `s` is
embedded in the four supported wrappers (RFC 1950 zlib, RFC 1952 gzip, ZIP local file header
(APPNOTE 4.3.7), PNG IDAT chunks).
-/
import Preflate.Model.Container
namespace Preflate

def le16 (v : Nat) : Bytes := [v % 256, v / 256 % 256]
def le32 (v : Nat) : Bytes := [v % 256, v / 256 % 256, v / 65536 % 256, v / 16777216 % 256]

/-- the four zlib header byte pairs the scanner knows: 78 01, 78 5E, 78 9C, 78 DA -/
def zlibSecond : List Nat := [0x01, 0x5E, 0x9C, 0xDA]

/-- zlib: 2 header bytes, the stream, anything after (normally the Adler-32) -/
def zlibWrap (h1 : Nat) (s : Bytes) : Bytes := [0x78, h1] ++ s

/-- gzip member header with any combination of optional fields (RFC 1952 §2.3). `name` and
    `comment` must not contain a zero byte; `extra` may contain anything. -/
structure GzipFields where
  mtime : Bytes          -- 4 bytes
  xfl : Nat
  os : Nat
  extra : Option Bytes
  name : Option Bytes
  comment : Option Bytes
  hcrc : Option Bytes    -- 2 bytes
  reservedFlags : Nat := 0  -- bits 5..7 and FTEXT (bit 0) as found in the file, 0..255 with bits 1..4 clear

def GzipFields.flags (g : GzipFields) : Nat :=
  g.reservedFlags + (if g.hcrc.isSome then 2 else 0) + (if g.extra.isSome then 4 else 0) +
  (if g.name.isSome then 8 else 0) + (if g.comment.isSome then 16 else 0)

def gzipHeader (g : GzipFields) : Bytes :=
  [0x1f, 0x8b, 8, g.flags] ++ g.mtime ++ [g.xfl, g.os] ++
  (match g.extra with | some e => le16 e.length ++ e | none => []) ++
  (match g.name with | some n => n ++ [0] | none => []) ++
  (match g.comment with | some c => c ++ [0] | none => []) ++
  (match g.hcrc with | some h => h | none => [])

structure GzipFields.WF (g : GzipFields) : Prop where
  mtime : g.mtime.length = 4
  extra : ∀ e, g.extra = some e → e.length < 65536
  name : ∀ n, g.name = some n → ∀ b ∈ n, b ≠ 0
  comment : ∀ c, g.comment = some c → ∀ b ∈ c, b ≠ 0
  hcrc : ∀ h, g.hcrc = some h → h.length = 2
  reserved : g.reservedFlags % 2 ^ 5 / 2 = 0 ∧ g.reservedFlags < 256   -- bits 1..4 clear

/-- ZIP local file header with compression method 8 -/
structure ZipFields where
  version : Nat
  flags : Nat
  time : Nat
  date : Nat
  crc : Nat
  csize : Nat
  usize : Nat
  name : Bytes
  extra : Bytes

def zipHeader (z : ZipFields) : Bytes :=
  le32 0x04034b50 ++ le16 z.version ++ le16 z.flags ++ le16 8 ++ le16 z.time ++ le16 z.date ++
  le32 z.crc ++ le32 z.csize ++ le32 z.usize ++ le16 z.name.length ++ le16 z.extra.length ++ z.name ++ z.extra

/-- one PNG chunk -/
def pngChunk (crc : Bytes → Nat) (ty data : Bytes) : Bytes :=
  be32 data.length ++ ty ++ data ++ be32 (crc (ty ++ data))

/-- consecutive IDAT chunks whose payloads concatenate to zlib header + stream + Adler-32 -/
def idatWrap (crc : Bytes → Nat) (pieces : List Bytes) : Bytes :=
  pieces.flatMap (pngChunk crc idatTag)

/-- what may follow the IDAT run: anything that is not itself a well-formed, non-empty IDAT chunk with a
    matching CRC (such a chunk would belong to the run). After the repair of parse_idat an empty or
    CRC-failing chunk ends the run instead of rejecting it. -/
def IdatEnd (crc : Bytes → Nat) (suf : Bytes) : Prop :=
  suf.length < 12 ∨ (suf.drop 4).take 4 ≠ idatTag ∨ suf.length < ofBe32 (suf.take 4) + 12 ∨
  ofBe32 (suf.take 4) = 0 ∨
  crc (idatTag ++ (suf.drop 8).take (ofBe32 (suf.take 4))) ≠ ofBe32 ((suf.drop (ofBe32 (suf.take 4) + 8)).take 4)

end Preflate
