/-
The DEMAND-DRIVEN, BYTE-LEVEL decoder: `recompress_deflate_stream(plain_text, prediction_corrections: &[u8])`
(preflate_container.rs) as it really runs — the reconstruction code asks a `PredictionDecoderCabac`
(cabac_codec.rs) for the next value / misprediction flag / correction, and the decoder pulls binary
decisions out of a `VP8Reader` (crate cabac 0.6.0) as they are asked for.

Model/Predict.lean and Model/Params.lean write the reconstruction side over a LIST of operations
(`popValue / popMis / popCorr`, check-and-fail). Here the same functions are written once more,
generically over an OPERATION SOURCE (`Src σ`: a state type and the three pops), with the control flow
of the originals, literally. Two instances:

* `listSrc`  — the pops of Model/Predict.lean; `Proofs/DecodeBytes.lean` shows every generic function
  at `listSrc` IS the existing definition, so every existing theorem transfers;
* `byteSrc`  — `PredictionDecoderCabac<VP8Reader<Cursor<&[u8]>>, VP8Context>`: state = (VP8 reader, the
  192 adaptive context counts, default_count); pops = decode_value / decode_misprediction /
  decode_correction transcribed from cabac_codec.rs, over get_unary_encoded / get_n_bits (default
  methods of cabac::traits::CabacReader) and `VP8Reader::get / get_bypass` (Model/VP8.lean).

Loops without a bound of their own in the Rust
----------------------------------------------
* `CabacReader::get_unary_encoded` is `loop { if !self.get(..)? { break }; value += 1 }` — there is NO
  iteration limit in the crate, and `VP8Reader` never reports end of input (`vpx_reader_fill` stops
  filling at EOF and the window is padded with zero bits). The loop ends because the reader runs dry:
  in a reader state with `value < range << 56` (every state reached from an input whose first byte is
  not 0xFF; the encoder never produces that byte first) the window is an exact dyadic number with at
  most 8·len fractional bits; a `true` decision either renormalises (consumes ≥ 1 bit) or lowers
  `range` by ≥ 1 within 128..255, and once the fraction is exhausted at most 8 more renormalisations
  are possible. Hence at most 128·(8·len + 9) consecutive `true`s. `unaryFuel` is above that bound;
  `Fail.fuel` from `getUnary` therefore stands for "the Rust loop is still running after
  128·(8·len + 64) iterations" (this informal argument is NOT one of the proved theorems; the proved
  theorems only need fuel ≥ 33, since the encoder's unary prefixes are bit lengths ≤ 32).
  What IS bounded in the Rust is what happens after the loop: `read_exp_value` computes
  `get_n_bits(found - 1) as u32 | (1 << (found - 1))`; `1 << 32` on u32 (found = 33) and
  `(bit as u64) << 64` inside get_n_bits (found ≥ 66) are shift overflows, so every `found ≥ 33` ends
  in a panic (overflow checks on, the convention of Model/Codec.lean `writeExp`).
* `recreate_blocks` is `while !is_eof { … }` with no limit either, and on adversarial bytes it need
  not terminate (max_token_count = 0 read from the header, then blocks that consume nothing). The list
  model bounds it by the number of operations left (`ops.length + 1`); bytes have no such measure, so
  `byteSrc.blockFuel` is the constant 2^64 (no input reaches it; the parser
  side never produces that many blocks for an input below 2^61 bytes). `Fail.fuel` from `decBlocksS byteSrc` stands for "more than 2^64
  blocks reconstructed".
-/
import Preflate.Model.Stream
import Preflate.Model.VP8
namespace Preflate
open Gen

/-- an operation source: the decoder side of the `PredictionDecoder` trait -/
structure Src (σ : Type) where
  /-- decode_value(bits) -/
  popValue : Nat → σ → R (Nat × σ)
  /-- decode_misprediction(ctx) -/
  popMis : Nat → σ → R (Bool × σ)
  /-- decode_correction(ctx) -/
  popCorr : Nat → σ → R (Nat × σ)
  /-- bound handed to the `while !is_eof` loop of recreate_blocks (see the header comment) -/
  blockFuel : σ → Nat

/-- the LIST instance: the pops of Model/Predict.lean -/
def listSrc : Src (List Op) where
  popValue := popValue
  popMis := popMis
  popCorr := popCorr
  blockFuel := fun ops => ops.length + 1

variable {H σ : Type}

-- ---------------------------------------------------------------------------------------------
-- the reconstruction side, generic in the source (same text as Params.lean / Predict.lean)

/-- PreflateParameters::read -/
def readParamsS (S : Src σ) (ops : σ) : R (Params × σ) := do
  let (ver, ops) ← S.popValue 8 ops
  if ver ≠ Gen.FILE_VERSION then throw (.panic "read: assert_eq!(FILE_VERSION, ..)")
  let (strategy, ops) ← S.popValue 4 ops
  let (huff, ops) ← S.popValue 4 ops
  let (zc, ops) ← S.popValue 1 ops
  let (wb, ops) ← S.popValue 8 ops
  let (alg, ops) ← S.popValue 4 ops
  let (shift, mask, ops) ← (if alg = 1 then do
      let (s, ops) ← S.popValue 8 ops
      let (m, ops) ← S.popValue 16 ops
      pure (s, m, ops)
    else pure (0, 0, ops) : R (Nat × Nat × σ))
  let (mtc, ops) ← S.popValue 16 ops
  let (md3, ops) ← S.popValue 16 ops
  let (vf, ops) ← S.popValue 1 ops
  let (mts, ops) ← S.popValue 1 ops
  let (good, ops) ← S.popValue 16 ops
  let (mlazy, ops) ← S.popValue 16 ops
  let (nice, ops) ← S.popValue 16 ops
  let (chain, ops) ← S.popValue 16 ops
  let (minLen, ops) ← S.popValue 16 ops
  let (pol, ops) ← S.popValue 3 ops
  let (limit, ops) ← (if pol = 1 ∨ pol = 2 then S.popValue 8 ops
    else if pol = 0 ∨ pol = 3 ∨ pol = 4 then pure (0, ops) else throw .err : R (Nat × σ))
  if strategy > 3 then throw .err
  if alg > 7 then throw .err
  if huff > 2 then throw .err
  .ok (⟨strategy, huff, zc ≠ 0, wb, alg, shift, mask, mtc, md3, vf ≠ 0, mts ≠ 0,
        mlazy > 0, if mlazy > 0 then good else 0, mlazy, nice, chain, minLen, pol, limit⟩, ops)

/-- recreate_block, one iteration of the token loop -/
def decTokS (S : Src σ) (P : Pred H) (plain : Array Nat) (s : PState H) (ops : σ) :
    R (Token × σ × PState H) := do
  let (pt, pend) := P.predictTok plain s
  let s1 : PState H := { s with pending := pend }
  let cur := plain.getD s.pos 0
  let step ← (match pt with
    | .lit => do
        let (wrong, ops) ← S.popMis M_LITERAL_WRONG ops
        if !wrong then pure (Sum.inl (Token.lit cur, ops, s1))
        else do
          let (l, d) ← P.repredictTok plain s1
          pure (Sum.inr (l, d, ops, ({ s1 with pending := none } : PState H)))
    | .ref l d => do
        let (wrong, ops) ← S.popMis M_REFERENCE_WRONG ops
        if wrong then pure (Sum.inl (Token.lit cur, ops, s1))
        else pure (Sum.inr (l, d, ops, s1)) :
      R ((Token × σ × PState H) ⊕ (Nat × Nat × σ × PState H)))
  match step with
  | .inl (t, ops, s1) => .ok (t, ops, commit P plain s1 t)
  | .inr (plen, pdist, ops, s2) => do
      let (c, ops) ← S.popCorr C_LEN ops
      let newLen ← decDiff plen c
      let (len, dist, ops) ← (
        if newLen ≠ plen then do
          let (hops, ops) ← S.popCorr C_DIST_AFTER_LEN ops
          let d ← hopMatch P plain s2 newLen hops
          pure (newLen, d, ops)
        else do
          let (hops, ops) ← S.popCorr C_DIST_ONLY ops
          if hops ≠ 0 then do
            let d ← hopMatch P plain s2 plen hops
            pure (newLen, d, ops)
          else pure (plen, pdist, ops) : R (Nat × Nat × σ))
      let (irr, ops) ← (if len = 258 then S.popMis M_IRREGULAR258 ops else pure (false, ops) : R (Bool × σ))
      let t := Token.ref len dist irr
      .ok (t, ops, commit P plain s2 t)

/-- the loop `while !self.input_eof() && self.current_token_count < blocksize` -/
def decToksS (S : Src σ) (P : Pred H) (plain : Array Nat) (blocksize : Nat) :
    Nat → PState H → σ → R (List Token × σ × PState H)
  | 0, _, _ => .error .fuel
  | fuel + 1, s, ops =>
      if !s.eof plain && s.count < blocksize then do
        let (t, ops, s) ← decTokS S P plain s ops
        let (ts, ops, s) ← decToksS S P plain blocksize fuel s ops
        .ok (t :: ts, ops, s)
      else .ok ([], ops, s)

/-- reconstruct_ld_trees -/
def decLdTreesS (S : Src σ) : Nat → List Nat → Option Nat → σ → R (List RleItem × σ)
  | 0, _, _, _ => .error .fuel
  | fuel + 1, syms, prev, ops =>
      if syms.isEmpty then .ok ([], ops)
      else do
        let pt := predictCodeType syms prev
        let (c, ops) ← S.popCorr C_LD_TYPE ops
        let kind ← decDiff pt c
        if ¬ (kind = 0 ∨ kind = 16 ∨ kind = 17 ∨ kind = 18) then throw .err
        let pd := predictCodeData syms kind
        let (c, ops) ← S.popCorr (if kind ≠ 0 then C_REPEAT_COUNT else C_LD_BITLEN) ops
        let data ← decDiff pd c
        let data := data % 256
        let it : RleItem := ⟨kind, data⟩
        if itemSpan it > syms.length then throw (.panic "reconstruct_ld_trees: slice index")
        let (r, ops) ← decLdTreesS S fuel (syms.drop (itemSpan it)) (some (syms.headD 0)) ops
        .ok (it :: r, ops)

def decTcLengthsS (S : Src σ) (tc : List Nat) : Nat → Nat → List Nat → σ → R (List Nat × σ)
  | 0, _, acc, ops => .ok (acc, ops)
  | n + 1, i, acc, ops => do
      let o := TREE_CODE_ORDER_TABLE.getD i 0
      let (c, ops) ← S.popCorr C_TREECODE_BITLEN ops
      let v ← decDiff (tc.getD o 0) c
      decTcLengthsS S tc n (i + 1) (acc.set o (v % 256)) ops

/-- recreate_tree_for_block -/
def decTreeS (S : Src σ) (P : Pred H) (freq : List Nat × List Nat) (ops : σ) : R (Header × σ) := do
  let bl := P.calcBitLengths freq.1 15
  let (wrong, ops) ← S.popMis M_LITERAL_COUNT ops
  let (bl, ops) ← (if wrong then do
      let (v, ops) ← S.popValue 5 ops
      pure (resizeTo bl (v + NONLEN_CODE_COUNT), ops)
    else pure (bl, ops) : R (List Nat × σ))
  let dl := P.calcBitLengths freq.2 15
  let (wrong, ops) ← S.popMis M_DISTANCE_COUNT ops
  let (dl, ops) ← (if wrong then do
      let (v, ops) ← S.popValue 5 ops
      pure (resizeTo dl (v + 1), ops)
    else pure (dl, ops) : R (List Nat × σ))
  let syms := bl ++ dl
  let (items, ops) ← decLdTreesS S (syms.length + 1) syms none ops
  let tc := P.calcBitLengths (codetreeFreq items (List.replicate CODETREE_CODE_COUNT 0)) 7
  let tcLen := tcLenNoTrailing tc tc.length
  let (wrong, ops) ← S.popMis M_TREECODE_COUNT ops
  let (tcLen, ops) ← (if wrong then do
      let (v, ops) ← S.popValue 4 ops
      pure (v + 4, ops)
    else pure (tcLen, ops) : R (Nat × σ))
  let tc := resizeTo tc CODETREE_CODE_COUNT
  if tcLen > CODETREE_CODE_COUNT then throw (.panic "recreate_tree_for_block: TREE_CODE_ORDER_TABLE index")
  let (cl, ops) ← decTcLengthsS S tc tcLen 0 (List.replicate CODETREE_CODE_COUNT 0) ops
  .ok (⟨bl.length, dl.length, tcLen, cl, items⟩, ops)

/-- recreate_block followed (for dynamic blocks) by recreate_tree_for_block -/
def decBlockS (S : Src σ) (P : Pred H) (plain : Array Nat) (s : PState H) (ops : σ) :
    R (Block × σ × PState H) := do
  let s : PState H := { s with count := 0, pending := none }
  let (c, ops) ← S.popCorr C_BLOCK_TYPE ops
  let bt ← decDiff 0 c
  if bt = 1 then do
    let (len, ops) ← S.popValue 16 ops
    let (pad, ops) ← S.popCorr C_NONZERO_PADDING ops
    if s.pos + len > plain.size then throw (.panic "recreate_block: cur_char index")
    let data := (List.range len).map fun i => plain.getD (s.pos + i) 0
    .ok (.stored (pad % 256) data, ops, commitStored P plain len s)
  else if bt = 2 ∨ bt = 0 then do
    let (tc, ops) ← S.popCorr C_TOKEN_COUNT ops
    let blocksize := if tc = 0 then P.maxTokenCount else tc - 1
    let (ts, ops, s) ← decToksS S P plain blocksize (blocksize + 1) s ops
    if bt = 2 then .ok (.fixed ts, ops, s)
    else do
      let (h, ops) ← decTreeS S P (blockFreq ts) ops
      .ok (.dynamic h ts, ops, s)
  else .error .err

/-- `is_eof = token_predictor.input_eof() && !decoder.decode_misprediction(EOFMisprediction)` -/
def decIsEofS (S : Src σ) (plain : Array Nat) (s : PState H) (ops : σ) : R (Bool × σ) :=
  if s.eof plain then do
    let (f, ops) ← S.popMis M_EOF ops
    .ok (!f, ops)
  else .ok (false, ops)

/-- recreate_blocks: the loop body runs once per block (`fuel` bounds the number of blocks) -/
def decBlocksS (S : Src σ) (P : Pred H) (plain : Array Nat) :
    Nat → PState H → σ → R (List Block × σ × PState H)
  | 0, _, _ => .error .fuel
  | fuel + 1, s, ops => do
      let (b, ops, s) ← decBlockS S P plain s ops
      let (isEof, ops) ← decIsEofS S plain s ops
      if isEof then .ok ([b], ops, s)
      else do
        let (r, ops, s) ← decBlocksS S P plain fuel s ops
        .ok (b :: r, ops, s)

/-- decode_mispredictions: blocks (none if the stream signals EOF at once) and the final padding -/
def decStreamS (S : Src σ) (P : Pred H) (plain : Array Nat) (ops : σ) : R (List Block × Nat × σ) := do
  let s0 : PState H := ⟨P.init, none, 0, 0⟩
  let (isEof, ops) ← decIsEofS S plain s0 ops
  let (blocks, ops) ← (if isEof then pure ([], ops) else do
      let (b, ops, _) ← decBlocksS S P plain (S.blockFuel ops) s0 ops
      pure (b, ops) : R (List Block × σ))
  let (pad, ops) ← S.popCorr C_NONZERO_PADDING ops
  .ok (blocks, pad % 256, ops)

-- ---------------------------------------------------------------------------------------------
-- the BYTE instance: PredictionDecoderCabac over VP8Reader

/-- `PredictionDecoderCabac { context: PredictionCabacContext<VP8Context>, reader: VP8Reader<_> }`:
    the reader, the 192 adaptive contexts (flat, `VP8.ctxIndex`) and `default_count` -/
structure BSt where
  r : VP8.Reader
  cs : Array Nat
  dc : Nat

namespace BSt

/-- `PredictionDecoderCabac::new(VP8Reader::new(Cursor::new(bytes)).unwrap())` -/
def init (bytes : Array UInt8) : BSt := ⟨VP8.Reader.new bytes, VP8.freshContexts, 0⟩

/-- `reader.get(&mut contexts[..])` under the context `c` -/
def get (s : BSt) (c : CtxId) : Bool × BSt :=
  let i := VP8.ctxIndex c
  let g := s.r.get (s.cs.getD i 0x101)
  (g.1, { s with r := g.2.1, cs := s.cs.set! i g.2.2 })

/-- `reader.get_bypass()` -/
def getBypass (s : BSt) : Bool × BSt :=
  let g := s.r.getBypass
  (g.1, { s with r := g.2 })

/-- fuel of the (unbounded) loop of get_unary_encoded; see the header comment -/
def unaryFuel (s : BSt) : Nat := 128 * (8 * s.r.input.size + 64) + 1

/-- CabacReader::get_unary_encoded: context index `min(A-1, value)` -/
def getUnary (family row : Nat) : Nat → Nat → BSt → R (Nat × BSt)
  | 0, _, _ => .error .fuel
  | fuel + 1, value, s =>
      let g := s.get (ctxAt family row value)
      if g.1 then getUnary family row fuel (value + 1) g.2 else .ok (value, g.2)

/-- CabacReader::get_n_bits: `for i in (0..num_bits).rev() { coef |= (get(ctx[min(A-1,i)]) as u64) << i }` -/
def getNBits (family row : Nat) : Nat → BSt → Nat × BSt
  | 0, s => (0, s)
  | n + 1, s =>
      let g := s.get (ctxAt family row n)
      let r := getNBits family row n g.2
      ((if g.1 then 2 ^ n else 0) + r.1, r.2)

/-- read_exp_value. `found ≥ 33`: `1 << (found - 1)` is a u32 shift by ≥ 32 (and for found ≥ 66
    get_n_bits shifts a u64 by ≥ 64 first) — a panic either way. -/
def readExp (family row : Nat) (s : BSt) : R (Nat × BSt) := do
  let (found, s) ← getUnary family row s.unaryFuel 0 s
  if found = 0 then .ok (0, s)
  else if found = 1 then .ok (1, s)
  else if found ≥ 33 then .error (.panic "read_exp_value: shift left with overflow")
  else
    let r := getNBits (family + 1) row (found - 1) s
    .ok (r.1 + 2 ^ (found - 1), r.2)

/-- read_bypass: `retval <<= 1; retval |= bit` (u32; only the low 16 bits survive `as u16`) -/
def readBypass : Nat → Nat → BSt → Nat × BSt
  | 0, acc, s => (acc, s)
  | n + 1, acc, s =>
      let g := s.getBypass
      readBypass n (acc * 2 + (if g.1 then 1 else 0)) g.2

/-- read_default -/
def readDefault (s : BSt) : R BSt := do
  let (c, s) ← readExp 0 0 s
  .ok { s with dc := c }

/-- decode_value -/
def popValue (bits : Nat) (s : BSt) : R (Nat × BSt) :=
  if s.dc ≠ 0 then .error (.panic "decode_value: default count should be 0")
  else
    let r := readBypass bits 0 s
    -- `r as u16`
    .ok (r.1 % 65536, r.2)

/-- decode_misprediction (the context is not used by the decoder) -/
def popMis (_ctx : Nat) (s : BSt) : R (Bool × BSt) := do
  let s ← if s.dc = 0 then readDefault s else .ok s
  if s.dc > 0 then .ok (false, { s with dc := s.dc - 1 }) else .ok (true, s)

/-- decode_correction -/
def popCorr (ctx : Nat) (s : BSt) : R (Nat × BSt) := do
  let s ← if s.dc = 0 then readDefault s else .ok s
  if s.dc > 0 then .ok (0, { s with dc := s.dc - 1 }) else readExp 2 ctx s

end BSt

/-- the BYTE instance with a given bound on the number of blocks -/
def byteSrcWithin (maxBlocks : Nat) : Src BSt where
  popValue := BSt.popValue
  popMis := BSt.popMis
  popCorr := BSt.popCorr
  blockFuel := fun _ => maxBlocks

/-- the BYTE instance (2^64 blocks, see the header comment) -/
def byteSrc : Src BSt := byteSrcWithin (2 ^ 64)

-- ---------------------------------------------------------------------------------------------
-- the public pair at the real API type

/-- `recompress_deflate_stream(plain_text, prediction_corrections)` with the block loop bounded by
    `maxBlocks` iterations -/
def recompressBytesWithin (maxBlocks : Nat) (mk : Params → Pred H) (plain : Array Nat)
    (bytes : Array UInt8) : R (List UInt8) := do
  let (rp, st) ← readParamsS (byteSrcWithin maxBlocks) (BSt.init bytes)
  let (blocks, pad, _) ← decStreamS (byteSrcWithin maxBlocks) (mk rp) plain st
  writeStream blocks pad

/-- `recompress_deflate_stream(plain_text, prediction_corrections)`: bytes in, bytes out -/
def recompressBytes (mk : Params → Pred H) (plain : Array Nat) (bytes : Array UInt8) : R (List UInt8) :=
  recompressBytesWithin (2 ^ 64) mk plain bytes

/-- the `if verify { … }` part of `decompress_deflate_stream`, as the code runs it: a fresh decoder
    over the correction BYTES -/
def verifyBytes (mk : Params → Pred H) (params : Params) (plain : Array Nat) (bytes : Array UInt8)
    (expected : List UInt8) : R Unit := do
  let (rp, st) ← readParamsS byteSrc (BSt.init bytes)
  if rp ≠ params then throw (.panic "assert_eq!(params, reread_params)")
  let (blocks, pad, _) ← decStreamS byteSrc (mk rp) plain st
  let out ← writeStream blocks pad
  if out ≠ expected then throw .err      -- ExitCode::RoundtripMismatch
  .ok ()

/-- `decompress_deflate_stream(compressed_data, verify, _)` with its real result type:
    (plain_text, prediction_corrections, compressed_size, parameters) -/
def decompressBytes (est : Array Nat → List Block → R Params) (mk : Params → Pred H)
    (verify : Bool) (d : List UInt8) : R (Array Nat × Array UInt8 × Nat × Params) := do
  let r ← decompressStream est mk false d
  let bytes ← encodeBytes r.corr
  if verify then
    let _ ← verifyBytes mk r.params r.plain bytes (d.take r.size)
  .ok (r.plain, bytes, r.size, r.params)

/-- a byte-driven decoder of a given sequence of operation kinds (codec level only) -/
def decodeOpsBytes : List OpKind → BSt → R (List Op × BSt)
  | [], s => .ok ([], s)
  | .value bits :: ks, s => do
      let (v, s) ← BSt.popValue bits s
      let (r, s) ← decodeOpsBytes ks s
      .ok (.value bits v :: r, s)
  | .mis ctx :: ks, s => do
      let (f, s) ← BSt.popMis ctx s
      let (r, s) ← decodeOpsBytes ks s
      .ok (.mis ctx f :: r, s)
  | .corr ctx :: ks, s => do
      let (v, s) ← BSt.popCorr ctx s
      let (r, s) ← decodeOpsBytes ks s
      .ok (.corr ctx v :: r, s)

end Preflate
