/-
Panic sites of the match finder / hash chains on the RECONSTRUCTION side.

`recreate_block` (token_predictor.rs:258-393) drives the same match finder as `predict_block`:
`predict_token` at the same states, `repredict_reference`, and `hop_match` (instead of
`calculate_hops`) with a length obtained from `decode_difference`. The checkers below mirror
`decTok` / `decToks` / `decBlock` / `decBlocks` / `decStream` of Model/Predict.lean for the predictor
`Chains.pred p`, reuse the site checkers of Model/ChainsSafe.lean (`predictTokChk`, `repredictTokChk`,
`hopMatchChk`, `commitChk`, `curCharChk`, `remainingChk`) and return `.error (.panic site)` exactly
where the Rust would panic in the match finder, the hash chains or `PreflateInput`. The state advances
as the model's decoder advances it. Whatever ends the Rust function with `Err(..)` — and whatever the
model's decoder answers `.error` for (an operation of the wrong kind, `decode_difference`'s own
overflow check, which is a site of Model/Predict.lean, not of the match finder) — ends the checks.

Additional sites (token_predictor.rs), besides those of Model/ChainsSafe.lean:
  R1  :285 / :344   `self.input.cur_char(0)` (stored byte / literal after a wrong reference) (-> I3)
  R2  :312 / :397   `input_eof()`: `self.input.remaining() == 0` (-> I4)
  R3  :361 / :377   `PreflateTokenReference::new(new_len, ..)`: preflate_token.rs:37 `len - 3` (u32)
  J1–J4, P1–P4, C4 of `hop_match(len, hops)` with the DECODED length: for `len < 3` the assertion of
  `prefix_compare` (P1) or `len - 1` (J4) panics as soon as the chain has a candidate in range
  (`Proofs.hopMatch_short_len_panics`) — reachable with damaged corrections, NOT with the corrections
  the analysis of a valid stream produced (`Proofs.decStreamChk_ok`).
-/
import Preflate.Model.ChainsSafe
namespace Preflate.Chains
open Preflate

/-- the part of `recreate_block` after the predicted reference `(plen, pdist)` is known
    (:354-387; mirror of the tail of `decTok`) -/
def decRefTailChk (p : Params) (plain : Array Nat) (plen : Nat) (ops : List Op) (s2 : PState Chain) : R Unit :=
  match popCorr C_LEN ops with
  | .error _ => .ok ()
  | .ok (c, ops) =>
    match decDiff plen c with
    | .error _ => .ok ()
    | .ok newLen =>
      if newLen ≠ plen then
        match popCorr C_DIST_AFTER_LEN ops with
        | .error _ => .ok ()
        | .ok (hops, _) => do
            hopMatchChk p plain s2 newLen hops
            match hopMatch (pred p) plain s2 newLen hops with
            | .error _ => .ok ()
            | .ok _ => do
                need (3 ≤ newLen) "R3 recreate_block: PreflateTokenReference::new: len - 3 (u32)"
                commitChk p plain s2 newLen
      else
        match popCorr C_DIST_ONLY ops with
        | .error _ => .ok ()
        | .ok (hops, _) =>
            if hops ≠ 0 then do
              hopMatchChk p plain s2 plen hops
              match hopMatch (pred p) plain s2 plen hops with
              | .error _ => .ok ()
              | .ok _ => do
                  need (3 ≤ newLen) "R3 recreate_block: PreflateTokenReference::new: len - 3 (u32)"
                  commitChk p plain s2 newLen
            else commitChk p plain s2 plen

/-- one iteration of the token loop of recreate_block (mirror of `decTok (pred p)`) -/
def decTokChk (p : Params) (plain : Array Nat) (s : PState Chain) (ops : List Op) : R Unit := do
  predictTokChk p plain s
  let (pt, pend) := predictTok p plain s
  let s1 : PState Chain := { s with pending := pend }
  match pt with
  | .lit =>
      match popMis M_LITERAL_WRONG ops with
      | .error _ => .ok ()
      | .ok (wrong, ops) =>
          if !wrong then commitChk p plain s1 1
          else do
            repredictTokChk p plain s1
            match repredictTok p plain s1 with
            | .error _ => .ok ()
            | .ok (l, _) => decRefTailChk p plain l ops { s1 with pending := none }
  | .ref l _ =>
      match popMis M_REFERENCE_WRONG ops with
      | .error _ => .ok ()
      | .ok (wrong, ops) =>
          if wrong then do
            curCharChk plain s.pos
            commitChk p plain s1 1
          else decRefTailChk p plain l ops s1

/-- the loop `while !self.input_eof() && self.current_token_count < blocksize` -/
def decToksChk (p : Params) (plain : Array Nat) (blocksize : Nat) : Nat → PState Chain → List Op → R Unit
  | 0, _, _ => .ok ()
  | fuel + 1, s, ops => do
      remainingChk plain s.pos
      if !s.eof plain && s.count < blocksize then do
        decTokChk p plain s ops
        match decTok (pred p) plain s ops with
        | .error _ => .ok ()
        | .ok (_, ops, s) => decToksChk p plain blocksize fuel s ops
      else .ok ()

/-- stored blocks of recreate_block: `cur_char(0); update_hash(1); advance(1)` per byte -/
def decStoredChk (p : Params) (plain : Array Nat) : Nat → PState Chain → R Unit
  | 0, _ => .ok ()
  | n + 1, s => do
      curCharChk plain s.pos
      commitChk p plain s 1
      decStoredChk p plain n { s with h := policyUpdate p plain s.h s.pos 1, pos := s.pos + 1 }

/-- recreate_block (the predictor part; mirror of `decBlock (pred p)`) -/
def decBlockChk (p : Params) (plain : Array Nat) (s : PState Chain) (ops : List Op) : R Unit :=
  let s : PState Chain := { s with count := 0, pending := none }
  match popCorr C_BLOCK_TYPE ops with
  | .error _ => .ok ()
  | .ok (c, ops) =>
    match decDiff 0 c with
    | .error _ => .ok ()
    | .ok bt =>
      if bt = 1 then
        match popValue 16 ops with
        | .error _ => .ok ()
        | .ok (len, ops) =>
          match popCorr C_NONZERO_PADDING ops with
          | .error _ => .ok ()
          | .ok _ => decStoredChk p plain len s
      else if bt = 2 ∨ bt = 0 then
        match popCorr C_TOKEN_COUNT ops with
        | .error _ => .ok ()
        | .ok (tc, ops) =>
            let blocksize := if tc = 0 then (pred p).maxTokenCount else tc - 1
            decToksChk p plain blocksize (blocksize + 1) s ops
      else .ok ()

/-- `is_eof = token_predictor.input_eof() && ..` followed by the block loop (recreate_blocks) -/
def decBlocksChk (p : Params) (plain : Array Nat) : Nat → PState Chain → List Op → R Unit
  | 0, _, _ => .ok ()
  | fuel + 1, s, ops => do
      decBlockChk p plain s ops
      match decBlock (pred p) plain s ops with
      | .error _ => .ok ()
      | .ok (_, ops, s) => do
          remainingChk plain s.pos
          match decIsEof plain s ops with
          | .error _ => .ok ()
          | .ok (isEof, ops) => if isEof then .ok () else decBlocksChk p plain fuel s ops

/-- TokenPredictor::new followed by decode_mispredictions' block loop (mirror of `decStream (pred p)`) -/
def decStreamChk (p : Params) (plain : Array Nat) (ops : List Op) : R Unit := do
  holderNewChk p
  let s0 : PState Chain := ⟨Chain.init, none, 0, 0⟩
  remainingChk plain s0.pos
  match decIsEof plain s0 ops with
  | .error _ => .ok ()
  | .ok (isEof, ops) => if isEof then .ok () else decBlocksChk p plain (ops.length + 1) s0 ops

end Preflate.Chains
