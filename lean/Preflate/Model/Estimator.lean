/-
The parameter estimator's front part: preflate_stream_info.rs `extract_preflate_info`,
preflate_parameter_estimator.rs `estimate_preflate_strategy` / `estimate_preflate_huff_strategy` /
`estimate_preflate_window_bits` / `estimate_preflate_mem_level` / the no-dictionary shortcut, and
add_policy_estimator.rs `estimate_add_policy` — everything that does not need the candidate hash
tables (complevel_estimator.rs / depth_estimator.rs, which pick the hash algorithm, nice length,
chain depth and matching type and are NOT modelled).

Purpose: tie `EstimatorRange` (Model/Params.lean, the quantifier of C08) to the code — the fields
computed here are compared with the hook `estimate` on every run (`estimate` requests), and
`Proofs/Estimator.lean` shows they land inside the range (window 9..15, block size 2^(6+m)-1,
add-policy limit ≤ 255: the D8 regression; no dictionary ⇔ no references: the D1 regression).
-/
import Preflate.Model.Params
namespace Preflate.Est
open Preflate

/-- PreflateStreamInfo (the fields that are used) -/
structure Info where
  countBlocks : Nat := 0
  countStored : Nat := 0
  countStaticHuff : Nat := 0
  countHuff : Nat := 0       -- non-stored blocks without any reference
  countRle : Nat := 0        -- non-stored blocks whose largest distance is 1
  maxDist : Nat := 0
  minLen : Nat := 4294967295 -- u32::MAX
  maxTokensPerBlock : Nat := 0
  referenceCount : Nat := 0
deriving Repr, DecidableEq, Inhabited

def blockMaxDist (ts : List Token) : Nat :=
  ts.foldl (fun m t => match t with | .ref _ d _ => max m d | .lit _ => m) 0

def blockMinLen (ts : List Token) : Nat :=
  ts.foldl (fun m t => match t with | .ref l _ _ => min m l | .lit _ => m) 4294967295

def blockRefs (ts : List Token) : Nat :=
  ts.foldl (fun n t => match t with | .ref _ _ _ => n + 1 | .lit _ => n) 0

/-- extract_preflate_info -/
def extractInfo (blocks : List Block) : Info :=
  blocks.foldl (fun i b =>
    match b with
    | .stored _ _ => { i with countStored := i.countStored + 1 }
    | .fixed ts | .dynamic _ ts =>
        let md := blockMaxDist ts
        { i with
          countStaticHuff := i.countStaticHuff + (match b with | .fixed _ => 1 | _ => 0)
          maxTokensPerBlock := max i.maxTokensPerBlock ts.length
          maxDist := max i.maxDist md
          minLen := min i.minLen (blockMinLen ts)
          referenceCount := i.referenceCount + blockRefs ts
          countHuff := i.countHuff + (if md = 0 then 1 else 0)
          countRle := i.countRle + (if md = 1 then 1 else 0) })
    { countBlocks := blocks.length }

/-- estimate_preflate_strategy (with the repair of D1): 0 Default, 1 RleOnly, 2 HuffOnly, 3 Store -/
def strategy (i : Info) : Nat :=
  if i.countStored = i.countBlocks then 3
  else if i.countHuff + i.countStored = i.countBlocks then 2
  else if i.countRle = i.countBlocks then 1
  else 0

/-- estimate_preflate_huff_strategy: 0 Dynamic, 1 Mixed, 2 Static -/
def huffStrategy (i : Info) : Nat :=
  if i.countStaticHuff = i.countBlocks then 2
  else if i.countStaticHuff = 0 then 0
  else 1

/-- bit_helper.rs bit_length on u32 -/
def bitLen (n : Nat) : Nat := if n = 0 then 0 else Nat.log2 n + 1

/-- estimate_preflate_window_bits -/
def windowBits (maxDist : Nat) : Nat := min (max (bitLen (maxDist + 262 - 1)) 9) 15

/-- estimate_preflate_mem_level -/
def memLevel (maxBlockSize : Nat) : Nat := min (max (bitLen maxBlockSize) 7) 15 - 6

/-- state of estimate_add_policy: the 32 KiB window of u16 marks and the running statistics -/
structure AddState where
  window : Array Nat            -- 32768 entries
  offset : Nat := 0
  block4k : Bool := true
  maxLength : Nat := 0
  maxLengthLastAdd : Nat := 0
  lastOutside32k : Bool := false

def LAST_ADDED : Nat := 0x8000
def LAST_32K : Nat := 0x4000

def is32k (length pos : Nat) : Bool :=
  length > 1 && (pos &&& 0x7fff) ≤ (32768 - 0x106) && ((pos + length) &&& 0x7fff) ≥ (32768 - 0x106)

def addLiteral (s : AddState) : AddState :=
  { s with window := s.window.set! (s.offset &&& 0x7fff) 0, offset := s.offset + 1 }

/-- one reference token of estimate_add_policy; `current_offset - r.dist()` is a u32 subtraction
    (panics when the distance exceeds the offset; the parser guarantees it does not) -/
def addReference (s : AddState) (len dist : Nat) : R AddState :=
  if dist > s.offset then .error (.panic "estimate_add_policy: subtract with overflow")
  else
    let block4k := if (s.offset &&& 4095) ≥ 4093 then false else s.block4k
    let prev := s.window.getD ((s.offset - dist) &&& 0x7fff) 0
    let ml := prev &&& 0x0fff
    let maxLength := max s.maxLength ml
    let maxLengthLastAdd := if prev &&& LAST_ADDED = 0 then max s.maxLengthLastAdd ml else s.maxLengthLastAdd
    let lastOutside := if ml ≠ 0 ∧ prev &&& LAST_32K = 0 then true else s.lastOutside32k
    let last := LAST_ADDED ||| (if is32k len s.offset then LAST_32K else 0)
    let w := s.window.set! (s.offset &&& 0x7fff) 0
    let w := (List.range (len - 1)).foldl (fun (w : Array Nat) k =>
      let i := k + 1
      w.set! ((s.offset + i) &&& 0x7fff) ((len % 65536) ||| (if i = len - 1 then last else 0))) w
    .ok { window := w, offset := s.offset + len, block4k := block4k, maxLength := maxLength,
          maxLengthLastAdd := maxLengthLastAdd, lastOutside32k := lastOutside }

def addTokens : AddState → List Token → R AddState
  | s, [] => .ok s
  | s, .lit _ :: ts => addTokens (addLiteral s) ts
  | s, .ref len dist _ :: ts => do
      let s ← addReference s len dist
      addTokens s ts

def addBlocks : AddState → List Block → R AddState
  | s, [] => .ok s
  | s, .stored _ data :: bs => addBlocks (data.foldl (fun s _ => addLiteral s) s) bs
  | s, .fixed ts :: bs | s, .dynamic _ ts :: bs => do
      let s ← addTokens s ts
      addBlocks s bs

/-- estimate_add_policy (with the repair of D8): (policy id, limit) as in the parameter vector -/
def addPolicy (blocks : List Block) : R (Nat × Nat) := do
  let s ← addBlocks { window := Array.replicate 32768 0 } blocks
  if s.maxLength = 0 ∧ s.block4k then .ok (3, 0)
  else if !s.lastOutside32k then .ok (4, 0)
  else if s.maxLengthLastAdd < s.maxLength ∧ s.maxLengthLastAdd ≤ 255 then .ok (2, s.maxLengthLastAdd)
  else if s.maxLength ≤ 255 then .ok (1, s.maxLength)
  else .ok (0, 0)

/-- what estimate_preflate_parameters determines without the candidate hash tables:
    (strategy, huff strategy, no dictionary?, window bits, max token count, add policy, limit) -/
structure Front where
  strategy : Nat
  huffStrategy : Nat
  noDictionary : Bool
  windowBits : Nat
  maxTokenCount : Nat
  addPolicy : Nat
  addLimit : Nat
deriving Repr, DecidableEq, Inhabited

def front (blocks : List Block) : R Front := do
  let i := extractInfo blocks
  let st := strategy i
  let hs := huffStrategy i
  if st = 3 ∨ st = 2 then .ok ⟨st, hs, true, 0, 16386, 0, 0⟩
  else do
    let (pol, lim) ← addPolicy blocks
    .ok ⟨st, hs, false, windowBits i.maxDist, 2 ^ (6 + memLevel i.maxTokensPerBlock) - 1, pol, lim⟩

end Preflate.Est
