/-
An INDEPENDENT reading of the dynamic block header, after RFC 1951 §3.2.7 and zlib's `inflate_table`.

`Spec.lean` reuses the model's `litDistLengths` / `mkTable` for the dynamic branch, so two places where
the analysed library deviates from RFC 1951 / zlib are invisible to `parse_eq_spec`:

1. code-length symbol 16 ("copy the previous code length 3–6 times"): the previous code length is the
   last length of the sequence so far, zeros included, and a 16 with nothing before it is an error.
   (The library repeats the last EXPLICIT length, which a zero run does not reset; a leading 16
   repeats 0.)
2. the length vectors accepted: zlib accepts a complete code; or an incomplete code consisting of
   exactly one symbol of length 1 (literal/length and distance codes only); or, for the distance code
   only, no symbol at all. Over-subscribed codes are rejected, and the literal/length code must give
   symbol 256 a non-zero length. (The library demands complete codes everywhere.)

Everything else — header fields, the code-length code (never allowed to be incomplete by zlib), token
decoding, stored and fixed blocks, the final padding — is shared with `Spec.lean`.
`Props/C03RFC.lean` proves that whenever the library's reader and this reading both accept, they agree.
-/
import Preflate.Model.Spec
namespace Preflate.SpecRFC
open Preflate

/-- §3.2.7, symbol by symbol; `acc` is the sequence of code lengths produced so far.
    0–15 (kind 0): that length. 16: copy the previous code length `d` times — the previous length is
    the last element of the sequence so far; none if there is none. 17 / 18: `d` zeros. -/
def expandAcc : List RleItem → List Nat → Option (List Nat)
  | [], acc => some acc
  | ⟨k, d⟩ :: rest, acc =>
      if k = 0 then expandAcc rest (acc ++ [d])
      else if k = 16 then
        match acc.getLast? with
        | none => none
        | some v => expandAcc rest (acc ++ List.replicate d v)
      else expandAcc rest (acc ++ List.replicate d 0)

/-- RFC reading of the run-length items of a dynamic header -/
def expandRFC (items : List RleItem) : Option (List Nat) := expandAcc items []

/-- Kraft sum scaled by 2^15: a code is complete iff this is 2^15, over-subscribed iff larger -/
def kraft : List Nat → Nat
  | [] => 0
  | n :: l => (if n = 0 then 0 else 2 ^ (15 - n)) + kraft l

/-- zlib `inflate_table`: which length vectors give a decoding table, and which table.
    * every length at most 15;
    * literal/length code: symbol 256 must have a code;
    * complete code: the canonical code (§3.2.2);
    * exactly one symbol, of length 1: that symbol has the code `0`, the bit `1` is an invalid code;
    * distance code without any symbol: every distance code is invalid;
    * everything else (over-subscribed, other incomplete codes) is rejected. -/
def tableFor (isDist : Bool) (l : List Nat) : Option (List (Bits × Nat)) :=
  if ¬ l.all (· ≤ 15) = true then none
  else if isDist = false ∧ l.getD 256 0 = 0 then none
  else if kraft l = 2 ^ 15 then some (codeTable l)
  else if l.filter (· ≠ 0) = [1] then some [([false], l.findIdx (· ≠ 0))]
  else if isDist = true ∧ l.all (· = 0) = true then some []
  else none

def optR {α : Type} : Option α → R α
  | some a => .ok a
  | none => .error .err

/-- split the RFC reading of the items at `hlit` (HLIT + 257) -/
def litDistLengths (h : Header) : R (List Nat × List Nat) := do
  let all ← optR (expandRFC h.items)
  if h.numLiterals ≤ all.length then .ok (all.take h.numLiterals, all.drop h.numLiterals)
  else .error .err

def readBlock (plain : Array Nat) (bs : Bits) : R (Bool × Block × Array Nat × Bits) := do
  let (last, bs) ← readBits 1 bs
  let (mode, bs) ← readBits 2 bs
  if mode = 0 then do
    let (pad, bs) ← readBits (bs.length % 8) bs
    let (len, bs) ← readBits 16 bs
    let (ilen, bs) ← readBits 16 bs
    if len + ilen ≠ 65535 then throw .err
    -- implementation limit of the analysed library, not RFC 1951 (see `Spec.implPlainLimit`)
    if plain.size > Spec.implPlainLimit then throw .err
    let (data, bs) ← readBytes len bs
    .ok (last == 1, .stored pad data, pushAll plain data, bs)
  else if mode = 1 then do
    let lt ← mkTable Spec.fixedLitLengths
    let dt ← mkTable Spec.fixedDistLengths
    let (ts, plain, bs) ← Spec.decodeTokens lt dt (bs.length + 1) plain bs
    .ok (last == 1, .fixed ts, plain, bs)
  else if mode = 2 then do
    let (h, bs) ← Spec.readHeader bs
    let (ll, dl) ← litDistLengths h
    let lt ← optR (tableFor false ll)
    let dt ← optR (tableFor true dl)
    let (ts, plain, bs) ← Spec.decodeTokens lt dt (bs.length + 1) plain bs
    .ok (last == 1, .dynamic h ts, plain, bs)
  else .error .err

def readBlocks : Nat → Array Nat → Bits → R (List Block × Array Nat × Bits)
  | 0, _, _ => .error .fuel
  | fuel + 1, plain, bs => do
      let (last, b, plain, bs) ← readBlock plain bs
      if last then .ok ([b], plain, bs)
      else do
        let (r, plain, bs) ← readBlocks fuel plain bs
        .ok (b :: r, plain, bs)

def parseBits (bs : Bits) : R Parsed := do
  let (blocks, plain, bs) ← readBlocks (bs.length + 1) #[] bs
  let (pad, bs) ← readBits (bs.length % 8) bs
  .ok ⟨blocks, pad, plain, bs⟩

/-- the RFC/zlib-reading inflater: plaintext and number of bytes consumed -/
def inflate (d : List UInt8) : Option (Array Nat × Nat) :=
  match parseBits (bytesToBits d) with
  | .ok p => some (p.plain, d.length - p.rest.length / 8)
  | .error _ => none

end Preflate.SpecRFC
