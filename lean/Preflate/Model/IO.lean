/-
std::io::Read / Write as used by recreated_zlib_chunks (preflate_container.rs read_chunk_block,
read_varint, IdatContents::read_from_bytestream; idat_parse.rs recreate_idat), with an ADVERSARIAL
source and sink: every call to `read` / `write` consumes one item of a schedule that decides how
many bytes move, or that the call is interrupted, fails, or (source) reports end of data early /
(sink) accepts nothing. `read_exact` / `write_all` have std's documented semantics: retry on
Interrupted, fail on Ok(0). The state survives errors so that what reached the sink is observable.
-/
import Preflate.Model.Container
namespace Preflate

inductive IoEv where
  | short (k : Nat)      -- move at most max k 1 bytes
  | interrupted          -- Err(ErrorKind::Interrupted)
  | error                -- Err(other)
  | zero                 -- source: Ok(0) although data remains; sink: Ok(0)
deriving Repr, DecidableEq, Inhabited

structure Source where
  data : Bytes
  sched : List IoEv
deriving Repr

structure Sink where
  out : Bytes
  sched : List IoEv
deriving Repr

/-- failures of an I/O call as the caller sees them -/
inductive IoFail where
  | interrupted
  | other
deriving Repr, DecidableEq

/-- one `Read::read(buf)` with `buf.len() = n`: bytes delivered (empty = Ok(0)) -/
def Source.read (s : Source) (n : Nat) : Except IoFail Bytes × Source :=
  match s.sched with
  | [] => (.ok (s.data.take n), { s with data := s.data.drop n })
  | .short k :: rest =>
      let m := min (max k 1) n
      (.ok (s.data.take m), { data := s.data.drop m, sched := rest })
  | .interrupted :: rest => (.error .interrupted, { s with sched := rest })
  | .error :: rest => (.error .other, { s with sched := rest })
  | .zero :: rest => (.ok [], { s with sched := rest })

/-- one `Write::write(buf)`: number of bytes accepted -/
def Sink.write (k : Sink) (buf : Bytes) : Except IoFail Nat × Sink :=
  match k.sched with
  | [] => (.ok buf.length, { k with out := k.out ++ buf })
  | .short n :: rest =>
      let m := min (max n 1) buf.length
      (.ok m, { out := k.out ++ buf.take m, sched := rest })
  | .interrupted :: rest => (.error .interrupted, { k with sched := rest })
  | .error :: rest => (.error .other, { k with sched := rest })
  | .zero :: rest => (.ok 0, { k with sched := rest })

/-- Read::read_exact: Err(UnexpectedEof) on Ok(0), retry on Interrupted -/
def readExactLoop : Nat → Nat → Bytes → Source → R Bytes × Source
  | 0, _, _, s => (.error .fuel, s)
  | fuel + 1, n, acc, s =>
      if n = 0 then (.ok acc, s)
      else
        match s.read n with
        | (.ok got, s) => if got.isEmpty then (.error .err, s) else readExactLoop fuel (n - got.length) (acc ++ got) s
        | (.error .interrupted, s) => readExactLoop fuel n acc s
        | (.error .other, s) => (.error .err, s)

def readExact (n : Nat) (s : Source) : R Bytes × Source :=
  readExactLoop (n + s.sched.length + 1) n [] s

/-- Write::write_all: Err(WriteZero) on Ok(0), retry on Interrupted -/
def writeAllLoop : Nat → Bytes → Sink → R Unit × Sink
  | 0, _, k => (.error .fuel, k)
  | fuel + 1, buf, k =>
      if buf.isEmpty then (.ok (), k)
      else
        match k.write buf with
        | (.ok m, k) => if m = 0 then (.error .err, k) else writeAllLoop fuel (buf.drop m) k
        | (.error .interrupted, k) => writeAllLoop fuel buf k
        | (.error .other, k) => (.error .err, k)

def writeAll (buf : Bytes) (k : Sink) : R Unit × Sink :=
  writeAllLoop (buf.length + k.sched.length + 1) buf k

/-- read_varint over read_exact of single bytes -/
def readVarintIO : Nat → Nat → Nat → Source → R Nat × Source
  | 0, _, _, s => (.error .fuel, s)
  | fuel + 1, shift, acc, s =>
      match readExact 1 s with
      | (.ok [b], s) =>
          if shift ≥ 32 then (.error (.panic "read_varint: shift left with overflow"), s)
          else
            let acc := acc ||| (((b % 128) <<< shift) % 4294967296)
            if b / 128 % 2 = 0 then (.ok acc, s) else readVarintIO fuel (shift + 7) acc s
      | (.ok _, s) => (.error .err, s)
      | (.error e, s) => (.error e, s)

def getVarintIO (s : Source) : R Nat × Source := readVarintIO (s.data.length + 1) 0 0 s

/-- the literal copy loop: 64 KiB staging buffer -/
def copyLiteral : Nat → Nat → Source → Sink → R Unit × Source × Sink
  | 0, _, s, k => (.error .fuel, s, k)
  | fuel + 1, len, s, k =>
      if len = 0 then (.ok (), s, k)
      else
        let amount := min Gen.LITERAL_STAGING len
        match readExact amount s with
        | (.ok buf, s) =>
            match writeAll buf k with
            | (.ok (), k) => copyLiteral fuel (len - amount) s k
            | (.error e, k) => (.error e, s, k)
        | (.error e, s) => (.error e, s, k)

def readSizesIO : Nat → Source → R (List Nat) × Source
  | 0, s => (.error .fuel, s)
  | fuel + 1, s =>
      match getVarintIO s with
      | (.ok v, s) =>
          if v = 0 then (.ok [], s)
          else match readSizesIO fuel s with
            | (.ok r, s) => (.ok (v :: r), s)
            | (.error e, s) => (.error e, s)
      | (.error e, s) => (.error e, s)

def readIdatContentsIO (s : Source) : R IdatContents × Source :=
  match readSizesIO (s.data.length + 1) s with
  | (.ok sizes, s) =>
      match readExact 2 s with
      | (.ok hdr, s) =>
          match readExact 4 s with
          | (.ok ad, s) => (.ok ⟨sizes, hdr, sizes.sum + 2 + 4, ofBe32 ad⟩, s)
          | (.error e, s) => (.error e, s)
      | (.error e, s) => (.error e, s)
  | (.error e, s) => (.error e, s)

/-- recreate_idat writing to the sink: four write_all calls per chunk -/
def idatEmitIO (crc : Bytes → Nat) (contents : Bytes) : Nat → List Nat → Sink → R Unit × Sink
  | _, [], k => (.ok (), k)
  | index, size :: rest, k =>
      match writeAll (be32 size) k with
      | (.ok (), k) =>
          match writeAll idatTag k with
          | (.ok (), k) =>
              if index + size > contents.length then (.error (.panic "recreate_idat: slice index"), k)
              else
                let content := (contents.drop index).take size
                match writeAll content k with
                | (.ok (), k) =>
                    match writeAll (be32 (crc (idatTag ++ content))) k with
                    | (.ok (), k) => idatEmitIO crc contents (index + size) rest k
                    | (.error e, k) => (.error e, k)
                | (.error e, k) => (.error e, k)
          | (.error e, k) => (.error e, k)
      | (.error e, k) => (.error e, k)

def recreateIdatIO (crc : Bytes → Nat) (idat : IdatContents) (deflate : Bytes) (k : Sink) : R Unit × Sink :=
  if idat.chunkSizes.sum % 4294967296 ≠ deflate.length + 6 then (.error .err, k)
  else idatEmitIO crc (idat.zlibHeader ++ deflate ++ be32 idat.adler) 0 idat.chunkSizes k

/-- the stream part of a DEFLATE_STREAM / PNG_COMPRESSED chunk: two length-prefixed byte strings -/
def readStreamIO (s : Source) : R (Bytes × Bytes) × Source :=
  match getVarintIO s with
  | (.ok pl, s) =>
      match readExact pl s with
      | (.ok plain, s) =>
          match getVarintIO s with
          | (.ok cl, s) =>
              match readExact cl s with
              | (.ok corr, s) => (.ok (plain, corr), s)
              | (.error e, s) => (.error e, s)
          | (.error e, s) => (.error e, s)
      | (.error e, s) => (.error e, s)
  | (.error e, s) => (.error e, s)

/-- read_chunk_block: `true` = a chunk was processed, `false` = clean end of input.
    The end-of-stream probe is a RAW one-byte `read`: Interrupted is propagated, not retried. -/
def readChunkIO (o : Oracle) (crc : Bytes → Nat) (s : Source) (k : Sink) : R Bool × Source × Sink :=
  match s.read 1 with
  | (.error _, s) => (.error .err, s, k)
  | (.ok [], s) => (.ok false, s, k)
  | (.ok (tag :: _), s) =>
      if tag = 0 then
        match getVarintIO s with
        | (.ok n, s) =>
            match copyLiteral (n + 1) n s k with
            | (.ok (), s, k) => (.ok true, s, k)
            | (.error e, s, k) => (.error e, s, k)
        | (.error e, s) => (.error e, s, k)
      else if tag = 1 ∨ tag = 2 then
        let (idat, s) : R (Option IdatContents) × Source :=
          if tag = 2 then
            match readIdatContentsIO s with
            | (.ok c, s) => (.ok (some c), s)
            | (.error e, s) => (.error e, s)
          else (.ok none, s)
        match idat with
        | .error e => (.error e, s, k)
        | .ok idat =>
            match readStreamIO s with
            | (.ok (plain, corr), s) =>
                match o.recompress plain corr with
                | .ok back =>
                    match idat with
                    | some c =>
                        match recreateIdatIO crc c back k with
                        | (.ok (), k) => (.ok true, s, k)
                        | (.error e, k) => (.error e, s, k)
                    | none =>
                        match writeAll back k with
                        | (.ok (), k) => (.ok true, s, k)
                        | (.error e, k) => (.error e, s, k)
                | .error e => (.error e, s, k)
            | (.error e, s) => (.error e, s, k)
      else (.error .err, s, k)

def readChunksIO (o : Oracle) (crc : Bytes → Nat) : Nat → Source → Sink → R Unit × Source × Sink
  | 0, s, k => (.error .fuel, s, k)
  | fuel + 1, s, k =>
      match readChunkIO o crc s k with
      | (.ok true, s, k) => readChunksIO o crc fuel s k
      | (.ok false, s, k) => (.ok (), s, k)
      | (.error e, s, k) => (.error e, s, k)

/-- recreated_zlib_chunks over an adversarial source and sink -/
def recreateIO (o : Oracle) (crc : Bytes → Nat) (s : Source) (k : Sink) : R Unit × Source × Sink :=
  match readExact 1 s with
  | (.ok [v], s) =>
      if v ≠ Gen.WRAPPER_VERSION then (.error .err, s, k)
      else readChunksIO o crc (s.data.length + s.sched.length + 2) s k
  | (.ok _, s) => (.error .err, s, k)
  | (.error e, s) => (.error e, s, k)

/-- only fragmentation: every item moves at least one byte -/
def OnlyShort (l : List IoEv) : Prop := ∀ e ∈ l, ∃ k, e = .short k

end Preflate
