/-
Position arithmetic of the u16 hash chains (hash_chain.rs): `InternalPosition::from_absolute`
(`u16::try_from(pos - total_shift).unwrap()`), `InternalPosition::inc` (`pos + 1` on u16) and the
periodic reshift. Only `total_shift` and the plaintext position matter for whether these panic, so
the run of the predictor over a token list is abstracted to that pair. `Proofs/ChainBounds.lean`
shows that the abstraction is what `Chains.policyUpdate` does to `totalShift`, and that no position
ever leaves the u16 range.
-/
import Preflate.Model.Chains
namespace Preflate.Chains

/-- the reshift test at the start of HashChain::update_hash -/
def shiftStep (shift : Int) (pos0 : Nat) : Int :=
  if (pos0 : Int) - shift ≥ 0xfe08 then shift + 0x7e00 else shift

/-- the (position, length) arguments of the HashChain::update_hash calls that committing a token of
    length `len` at plaintext position `pos` makes under the add policy of `p` (mirror of
    `policyUpdate`) -/
def updateCalls (p : Params) (pos len : Nat) : List (Nat × Nat) :=
  if p.hashAlg = 0 then []
  else if len = 1 then [(pos, 1)]
  else match p.addPolicy with
    | 0 => [(pos, len)]
    | 1 => if len ≤ p.addLimit then [(pos, len)] else [(pos, 1)]
    | 2 => if len ≤ p.addLimit then [(pos, len)] else [(pos, 1), (pos + len - 1, 1)]
    | 3 => if (pos &&& 4095) < 4093 then [(pos, 1)] else []
    | _ => if is32kBoundary len pos then [(pos, 1), (pos + len - 1, 1)] else [(pos, 1)]

/-- one update_hash call does not panic: after the reshift test the internal position fits u16 and
    so does every `inc` of the insertion loop -/
def CallSafe (shift : Int) (call : Nat × Nat) : Prop :=
  let s := shiftStep shift call.1
  0 ≤ (call.1 : Int) - s ∧ (call.1 : Int) - s + call.2 ≤ 65535

/-- `iterate(input, offset)` for offset 0 and 1 at plaintext position `pos` does not panic -/
def IterSafe (shift : Int) (pos : Nat) : Prop :=
  0 ≤ (pos : Int) - shift ∧ (pos : Int) + 1 - shift ≤ 65535

def shiftAfter (shift : Int) (calls : List (Nat × Nat)) : Int :=
  calls.foldl (fun s c => shiftStep s c.1) shift

def CallsSafe : Int → List (Nat × Nat) → Prop
  | _, [] => True
  | shift, c :: rest => CallSafe shift c ∧ CallsSafe (shiftStep shift c.1) rest

/-- the predictor's run over token lengths: at every token start the chain may be iterated (both
    offsets), then the token is committed -/
def RunSafe (p : Params) : Int → Nat → List Nat → Prop
  | _, _, [] => True
  | shift, pos, len :: rest =>
      IterSafe shift pos ∧ CallsSafe shift (updateCalls p pos len) ∧
      RunSafe p (shiftAfter shift (updateCalls p pos len)) (pos + len) rest

/-- the estimator chooses the 4 KiB-boundary policy only when no reference starts in the last three
    positions of a 4 KiB page -/
def NoRefAt4k : Nat → List Nat → Prop
  | _, [] => True
  | pos, len :: rest => (len > 1 → (pos &&& 4095) < 4093) ∧ NoRefAt4k (pos + len) rest

/-- the token lengths the predictor commits for a block list: stored bytes one by one -/
def blockLens : Block → List Nat
  | .stored _ data => List.replicate data.length 1
  | .fixed ts => ts.map tokenLen
  | .dynamic _ ts => ts.map tokenLen

def streamLens (bs : List Block) : List Nat := bs.flatMap blockLens

end Preflate.Chains
