/-
bit_reader.rs / bit_writer.rs: DEFLATE packs bits LSB first inside each byte.

The reader is modelled over the list of all bits of the input (`bytesToBits`): `readBits n`
takes the next `n` bits. The number of unread bits left in the current byte — what
`8 - bit_position_in_current_byte()` computes in the code — is `rest.length % 8`, because the
total number of bits is a multiple of 8.
-/
import Preflate.Model.Basic
namespace Preflate

/-- `n` bits of `v`, least significant first -/
def bitsOfNat : Nat → Nat → Bits
  | 0, _ => []
  | n + 1, v => (v % 2 == 1) :: bitsOfNat n (v / 2)

def natOfBits : Bits → Nat
  | [] => 0
  | b :: bs => (if b then 1 else 0) + 2 * natOfBits bs

/-- BitReader::get — an exhausted source is `Err` (UnexpectedEof) -/
def readBits : Nat → Bits → R (Nat × Bits)
  | 0, bs => .ok (0, bs)
  | _ + 1, [] => .error .err
  | n + 1, b :: bs =>
      match readBits n bs with
      | .ok (v, rest) => .ok ((if b then 1 else 0) + 2 * v, rest)
      | .error e => .error e

def byteBits (b : UInt8) : Bits := bitsOfNat 8 b.toNat

def bytesToBits (d : List UInt8) : Bits := d.flatMap byteBits

/-- packs bits into bytes; a trailing partial group is dropped (the writer always pads first) -/
def bitsToBytes : Bits → List UInt8
  | b0 :: b1 :: b2 :: b3 :: b4 :: b5 :: b6 :: b7 :: rest =>
      UInt8.ofNat (natOfBits [b0, b1, b2, b3, b4, b5, b6, b7]) :: bitsToBytes rest
  | _ => []

/-- BitWriter::write with its assertion `bits <= (1 << len) - 1` -/
def emit (v n : Nat) (site : String) : R Bits :=
  if v < 2 ^ n then .ok (bitsOfNat n v) else .error (.panic site)

/-- number of padding bits needed to reach a byte boundary after `off` bits -/
def padCount (off : Nat) : Nat := (8 - off % 8) % 8

/-- BitWriter::pad: the low bits of `fill`, least significant first, up to the byte boundary -/
def padBits (off : Nat) (fill : Nat) : Bits := bitsOfNat (padCount off) fill

end Preflate
