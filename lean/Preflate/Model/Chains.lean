/-
hash_algorithm.rs (the seven hash functions), hash_chain.rs (u16 positions, head / prev tables,
total_shift, reshift), add_policy_estimator.rs `DictionaryAddPolicy::update_hash`,
hash_chain_holder.rs (`match_token_offset`, `prefix_compare`), token_predictor.rs (`predict_token`,
`repredict_reference`) — transcribed literally and packaged as an instance of the abstract
predictor interface `Pred` of Model/Predict.lean, for a given parameter vector.

Executable only: the theorems of C02 / C08 hold for ANY `Pred`, hence for this one; it has to
EQUAL the code for the byte-level correspondence (`analyze` / `recompress` requests) and for C04.
-/
import Preflate.Model.Params
import Preflate.Model.HuffCalc
import Preflate.Model.HuffCalcT
import Preflate.Gen.Consts
namespace Preflate.Chains
open Preflate

def u16 (x : Nat) : Nat := x % 65536
def u32 (x : Nat) : Nat := x % 4294967296

def byteAt (plain : Array Nat) (i : Nat) : Nat := plain.getD i 0

/-- get_hash of the configured algorithm at plaintext offset `i` (reads 3 or 4 bytes) -/
def hashAt (p : Params) (plain : Array Nat) (i : Nat) : Nat :=
  let b0 := byteAt plain i
  let b1 := byteAt plain (i + 1)
  let b2 := byteAt plain (i + 2)
  let b3 := byteAt plain (i + 3)
  let le32 := b0 ||| (b1 <<< 8) ||| (b2 <<< 16) ||| (b3 <<< 24)
  match p.hashAlg with
  | 1 =>
      let c := u16 (u16 (b0 <<< p.hashShift) ^^^ b1)
      let c := u16 (u16 (c <<< p.hashShift) ^^^ b2)
      c &&& p.hashMask
  | 2 =>
      let h := b0 ||| (b1 <<< 8) ||| (b2 <<< 16)
      (h ^^^ (h >>> 17)) &&& Gen.MINIZ_LEVEL1_HASH_SIZE_MASK
  | 3 | 4 => u16 (u32 (le32 * 0x1E35A7BD) >>> 16)
  | 5 => u16 (u32 (le32 * 2654435761) >>> 16)
  | 6 => Gen.RANDOM_VECTOR.getD b0 0 ^^^ Gen.RANDOM_VECTOR.getD (b1 + 256) 0 ^^^ Gen.RANDOM_VECTOR.getD (b2 + 512) 0
  | 7 =>
      let crc := Gen.CRC32C_TABLE.getD b0 0
      let crc := (crc >>> 8) ^^^ Gen.CRC32C_TABLE.getD ((crc ^^^ b1) &&& 255) 0
      let crc := (crc >>> 8) ^^^ Gen.CRC32C_TABLE.getD ((crc ^^^ b2) &&& 255) 0
      let crc := (crc >>> 8) ^^^ Gen.CRC32C_TABLE.getD ((crc ^^^ b3) &&& 255) 0
      u16 crc
  | _ => 0

/-- LibdeflateHash3Secondary -/
def hash3At (plain : Array Nat) (i : Nat) : Nat :=
  let h := byteAt plain i ||| (byteAt plain (i + 1) <<< 8) ||| (byteAt plain (i + 2) <<< 16)
  u16 (u32 (h * 0x1E35A7BD) >>> 17)

def numHashBytes (p : Params) : Nat :=
  match p.hashAlg with
  | 1 | 2 | 6 => 3
  | _ => 4

/-- one HashTable: head and prev, 65536 u16 entries each -/
structure Table where
  head : Array Nat
  prev : Array Nat

def Table.empty : Table := ⟨Array.replicate 65536 0, Array.replicate 65536 0⟩

/-- HashTable::reshift::<DELTA> -/
def Table.reshift (t : Table) (delta : Nat) : Table :=
  let head := t.head.map fun x => x - delta
  let prev := Id.run do
    let mut pv := t.prev
    for i in [delta:65536] do
      pv := pv.set! (i - delta) (t.prev[i]! - delta)
    return pv
  ⟨head, prev⟩

/-- hash chain state: HashChainNormalize (table3 unused) or HashChainNormalizeLibflate4 -/
structure Chain where
  t : Table
  t3 : Table
  totalShift : Int

def Chain.init : Chain := ⟨Table.empty, Table.empty, -8⟩

/-- update_chain: `hashf i` is the hash of the `nbytes`-byte string at plaintext offset `pos0 + i`;
    `avail` = bytes available from pos0 (chars.len()) -/
def updateChain (t : Table) (hashf : Nat → Nat) (nbytes : Nat) (avail : Nat) (ipos : Nat) (length : Nat) : Table :=
  if length + nbytes - 1 ≥ avail then t
  else Id.run do
    let mut head := t.head
    let mut prev := t.prev
    let mut pos := ipos
    for i in [0:length] do
      let h := hashf i
      prev := prev.set! pos (head[h]!)
      head := head.set! h pos
      pos := pos + 1
    return ⟨head, prev⟩

/-- HashChain::update_hash(input = plain[pos0..], pos, length) -/
def Chain.update (p : Params) (plain : Array Nat) (c : Chain) (pos0 : Nat) (length : Nat) : Chain :=
  let c := if (pos0 : Int) - c.totalShift ≥ 0xfe08 then
      ⟨c.t.reshift 0x7e00, if p.hashAlg = 3 then c.t3.reshift 0x7e00 else c.t3, c.totalShift + 0x7e00⟩
    else c
  let ipos := ((pos0 : Int) - c.totalShift).toNat
  let avail := plain.size - pos0
  if p.hashAlg = 3 then
    { c with t := updateChain c.t (fun i => hashAt p plain (pos0 + i)) 4 avail ipos length,
             t3 := updateChain c.t3 (fun i => hash3At plain (pos0 + i)) 3 avail ipos length }
  else
    { c with t := updateChain c.t (fun i => hashAt p plain (pos0 + i)) (numHashBytes p) avail ipos length }

def is32kBoundary (length pos : Nat) : Bool :=
  length > 1 && (pos &&& 0x7fff) ≤ (32768 - 0x106) && ((pos + length) &&& 0x7fff) ≥ (32768 - 0x106)

/-- DictionaryAddPolicy::update_hash driving HashChain::update_hash -/
def policyUpdate (p : Params) (plain : Array Nat) (c : Chain) (pos length : Nat) : Chain :=
  if p.hashAlg = 0 then c
  else if length = 1 then c.update p plain pos 1
  else match p.addPolicy with
    | 0 => c.update p plain pos length
    | 1 => if length ≤ p.addLimit then c.update p plain pos length else c.update p plain pos 1
    | 2 =>
        if length ≤ p.addLimit then c.update p plain pos length
        else (c.update p plain pos 1).update p plain (pos + length - 1) 1
    | 3 => if (pos &&& 4095) < 4093 then c.update p plain pos 1 else c
    | _ =>
        let c := c.update p plain pos 1
        if is32kBoundary length pos then c.update p plain (pos + length - 1) 1 else c

/-- walking a chain: distances `ref - cur` while cur ≠ 0 (fuel bounds pathological cycles) -/
def walk (t : Table) (refPos : Nat) : Nat → Nat → List Nat
  | 0, _ => []
  | fuel + 1, cur => if cur = 0 then [] else (refPos - cur) :: walk t refPos fuel (t.prev[cur]!)

/-- HashChain::iterate(input, offset): the candidate distances in chain order -/
def iterate (p : Params) (plain : Array Nat) (c : Chain) (pos offset : Nat) : List Nat :=
  let refPos := ((pos + offset : Nat) - c.totalShift).toNat
  if p.hashAlg = 3 then
    if offset = 0 then
      let s3 := c.t3.head[hash3At plain pos]!
      let first := if s3 ≠ 0 then [refPos - s3] else []
      first ++ walk c.t refPos 65536 (c.t.head[hashAt p plain pos]!)
    else
      let cur := hashAt p plain (pos + 1)
      let first := if hashAt p plain pos = cur then [1] else []
      first ++ walk c.t refPos 65536 (c.t.head[cur]!)
  else
    let h1 := hashAt p plain pos
    if offset = 0 then walk c.t refPos 65536 (c.t.head[h1]!)
    else
      let cur := hashAt p plain (pos + 1)
      let first := if h1 = cur then [1] else []
      first ++ walk c.t refPos 65536 (c.t.head[cur]!)

/-- prefix_compare(s1 = plain[a..], s2 = plain[b..], best_len, max_len) (assertion not modelled: the
    callers below establish it; a violation would show as a correspondence failure) -/
def prefixCompare (plain : Array Nat) (a b bestLen maxLen : Nat) : Nat :=
  if byteAt plain (a + bestLen) ≠ byteAt plain (b + bestLen) then 0
  else if byteAt plain a ≠ byteAt plain b ∨ byteAt plain (a + 1) ≠ byteAt plain (b + 1) ∨
          byteAt plain (a + 2) ≠ byteAt plain (b + 2) then 0
  else Id.run do
    let mut m := 3
    for i in [3:maxLen] do
      if byteAt plain (a + i) ≠ byteAt plain (b + i) then break
      m := i + 1
    return m

inductive MatchResult where
  | success (len dist : Nat)
  | none
deriving Repr, Inhabited

/-- HashChainHolderImpl::match_token_offset::<OFFSET> -/
def matchToken (p : Params) (plain : Array Nat) (c : Chain) (pos offset prevLen maxDepth : Nat) : MatchResult :=
  if p.hashAlg = 0 then .none else
  let startPos := pos + offset
  let maxLen := min (plain.size - startPos) 258
  if maxLen < max (prevLen + 1) (max (numHashBytes p) 3) then .none else
  let maxDistToStart := startPos - (if p.matchesToStart then 0 else 1)
  let windowBytes := 1 <<< p.windowBits
  -- (hop0 limit, hop1+ limit); none = the strategy never matches
  let limits : Option (Nat × Nat) :=
    if p.veryFar then some (min maxDistToStart windowBytes, min maxDistToStart windowBytes)
    else if p.strategy = 2 ∨ p.strategy = 3 then Option.none
    else if p.strategy = 1 then some (1, 1)
    else
      let maxDist := windowBytes - 262 + 1
      some (min maxDistToStart maxDist, min maxDistToStart (maxDist - 1))
  match limits with
  | Option.none => .none
  | some (hop0, hop1) => Id.run do
      let niceLength := min p.niceLength maxLen
      let mut maxChain := maxDepth
      let mut bestLen := prevLen
      let mut best : MatchResult := .none
      let mut first := true
      for dist in iterate p plain c pos offset do
        if first then
          first := false
          if dist > hop0 then return .none
        else if dist > hop1 then break
        let ml := prefixCompare plain (startPos - dist) startPos bestLen maxLen
        if ml > bestLen then
          if ml ≥ niceLength && (ml > 3 || dist ≤ p.maxDist3) then return .success ml dist
          bestLen := ml
          best := .success ml dist
          if bestLen ≥ maxLen then break
        -- u32 `max_chain -= 1` (wraps in release builds when it is already 0)
        maxChain := if maxChain = 0 then 4294967295 else maxChain - 1
        if maxChain = 0 then return best
      return best

/-- TokenPredictor::predict_token -/
def predictTok (p : Params) (plain : Array Nat) (s : PState Chain) : PTok × Option (Nat × Nat) :=
  if s.pos = 0 ∨ plain.size - s.pos < 3 then (.lit, s.pending)
  else
    let m := match s.pending with
      | some (l, d) => MatchResult.success l d
      | none => matchToken p plain s.h s.pos 0 0 p.maxChain
    match m with
    | .none => (.lit, none)
    | .success len dist =>
        if len < 3 then (.lit, none)
        else if len = 3 ∧ dist > p.maxDist3 then (.lit, none)
        else
          if p.isLazy ∧ len < p.maxLazy ∧ plain.size - s.pos ≥ len + 2 then
            let depth := if p.zlibCompatible ∧ len ≥ p.goodLength then p.maxChain >>> 2 else p.maxChain
            match matchToken p plain s.h s.pos 1 len depth with
            | .success l2 d2 =>
                if l2 > len then (.lit, if p.zlibCompatible then some (l2, d2) else none)
                else (.ref len dist, none)
            | .none => (.ref len dist, none)
          else (.ref len dist, none)

/-- TokenPredictor::repredict_reference -/
def repredictTok (p : Params) (plain : Array Nat) (s : PState Chain) : R (Nat × Nat) :=
  if s.pos = 0 ∨ plain.size - s.pos < 3 then .error .err
  else match matchToken p plain s.h s.pos 0 0 p.maxChain with
    | .success len dist => if len ≥ 3 then .ok (len, dist) else .error .err
    | .none => .error .err

/-- the concrete predictor selected by a parameter vector -/
def pred (p : Params) : Pred Chain where
  init := Chain.init
  maxTokenCount := p.maxTokenCount
  windowBytes := 1 <<< p.windowBits
  predictTok := predictTok p
  repredictTok := repredictTok p
  candidates plain s := if p.hashAlg = 0 then [] else iterate p plain s.h s.pos 0
  update plain h pos len := policyUpdate p plain h pos len
  -- the total transcription (Model/HuffCalcT.lean; `Proofs/HuffCalcT.lean`: no panic, no exhausted
  -- bound, entries ≤ maxBits on the callers' domain). The Rust function returns Vec<u8>: entries are
  -- below 256 by typing. A panic outcome (unreachable for the callers) has no list to return.
  calcBitLengths := fun freq maxBits =>
    match HuffCalcT.calcBitLengths freq maxBits with
    | .ok l => l.map (· % 256)
    | .error _ => []

end Preflate.Chains
