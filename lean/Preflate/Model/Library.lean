/-
THE LIBRARY, ASSEMBLED: the container level (Model/Container.lean, Model/IO.lean — scanner, chunk
writer / reader, IDAT, fragmented I/O), which is generic in an abstract `Oracle` for the analysis of a
candidate stream, with the CONCRETE stream functions plugged in:

* `analyze d`            = `decompress_deflate_stream(d, verify = false, _)` at its real API type
                           (`decompressBytes`, Model/DecodeBytes.lean) with the modelled estimator
                           `Est.estimate` (Model/EstimatorFull.lean) and the executable predictor family
                           `Chains.pred` (Model/Chains.lean);
* `recompress plain corr` = `recompress_deflate_stream(plain, corr)` (`recompressBytes`, the
                           demand-driven decoder over the correction BYTES).

The container level writes bytes as `Nat`s (`Bytes = List Nat`, below 256 in every use), the stream
level as `UInt8`s; `toU8` / `ofU8` convert (`UInt8.ofNat` reduces modulo 256: on a list with an
entry ≥ 256 the analysis runs on the reduced bytes and the reconstruction check of `Oracle.verified`
then fails on the first such entry inside the consumed prefix, i.e. the candidate is rejected).

On `verify`: the real scanner calls `decompress_deflate_stream(.., verify = true, ..)`. In the container
model the reconstruction check is not part of `analyze`; `Oracle.verified` adds it ON TOP of `analyze`
(recompress, compare with the consumed prefix). Using `verify = false` inside `analyze` is therefore
the faithful reading, and it is consistent with the code: `public_bytes_verify_same` (both verify
settings of `decompressBytes` return the same result) and `public_bytes_exact` (reconstruction from
that result returns exactly the consumed prefix) — the check `verified` performs is the one the
`verify = true` path performs, and by `Proofs.lib_verified_eq` it always passes on byte input.
-/
import Preflate.Model.Container
import Preflate.Model.IO
import Preflate.Model.DecodeBytes
import Preflate.Model.EstimatorFull
import Preflate.Model.Chains
namespace Preflate

/-- container bytes → stream bytes -/
def toU8 (d : Bytes) : List UInt8 := d.map UInt8.ofNat

/-- stream bytes → container bytes -/
def ofU8 (d : List UInt8) : Bytes := d.map UInt8.toNat

/-- `decompress_deflate_stream(d, false, _)`, result as the container's `Res`
    (plain_text, prediction_corrections, compressed_size) -/
def libAnalyze (d : Bytes) : R Res := do
  let (plain, bytes, n, _) ← decompressBytes Est.estimate Chains.pred false (toU8 d)
  .ok ⟨plain.toList, ofU8 bytes.toList, n⟩

/-- `recompress_deflate_stream(plain, corr)` -/
def libRecompress (plain corr : Bytes) : R Bytes := do
  let out ← recompressBytes Chains.pred plain.toArray (toU8 corr).toArray
  .ok (ofU8 out)

/-- the concrete oracle: the stream analysis of the library itself -/
def libOracle : Oracle := ⟨libAnalyze, libRecompress⟩

/-- `expand_zlib_chunks` of the library model -/
def libExpand (crc : Bytes → Nat) (src : Bytes) : R Bytes := expand libOracle crc src

/-- `recreated_zlib_chunks` of the library model, in memory -/
def libRecreate (crc : Bytes → Nat) (c : Bytes) : R Bytes := recreate libOracle crc c

/-- `recreated_zlib_chunks` of the library model over an adversarial source and sink -/
def libRecreateIO (crc : Bytes → Nat) (s : Source) (k : Sink) : R Unit × Source × Sink :=
  recreateIO libOracle crc s k

end Preflate
