/-
Panic sites of the hash-chain match finder, made explicit.

`Model/Chains.lean` transcribes hash_chain.rs / hash_chain_holder.rs / token_predictor.rs over `Nat` and
total indexing: it computes what the Rust computes, but it cannot show WHERE the Rust could panic.
This file adds, for every function the predictor calls, a CHECKER (`…Chk : … → R Unit`, for the match
loop `…C : … → R MatchResult`) that follows the control flow of the Rust statement by statement, takes
the VALUES from the existing transcription (`prefixCompare`, `iterate`, `matchToken`, `predictTok`,
`policyUpdate`, `calcHops`, `encTok` …) and returns `.error (.panic "<site>")` exactly where the Rust
(debug profile: overflow checks and `debug_assert!` on) would panic. `Proofs/ChainsSafe.lean` proves
that no checker ever answers `.panic` when driven as `predict_block` drives the predictor on a valid
stream (`encStreamChk_ok`), and that the checked match loop computes what `matchToken` computes
(`matchTokenC_eq`).

Validation against the code (scratch/ChainsSafeGenCases.lean + scratch/rust_harness, dev profile with
overflow checks, `verif_hooks::analyze_with_params`): on 4,300 random valid streams × parameter
vectors (in range; in range with the excluded lazy/zlib/depth<4 combination; out of range in
hash_shift, window_bits, max_chain) the Rust panics exactly when `encStreamChk` answers `.panic`, and
at the source line of the tag (H2 hash_algorithm.rs:42, M2 :271, M7 :315, M13 :362 of
hash_chain_holder.rs): 0 disagreements, 425 panicking cases.

Reconstruction side (NOT covered by the main theorem, which is about `predict_block`): `hop_match(len, ..)`
takes `len` from the correction stream; for `len < 3` it panics (J4 for 0, P1 for 1 and 2:
`Proofs.hopMatch_short_len_panics`). Confirmed on the code through the public
`recompress_deflate_stream` with a mutated LenCorrection (scratch/rust_harness/src/bin/hop.rs): dev and
release profile. `Predict.hopMatch` (Model/Predict.lean) answers `.ok` / `.err` there, i.e. it does not
model this panic.

Conventions. `plain` is `PreflateInput::data`, `pos` is `PreflateInput::pos` (an `i32` that is `>= 0`),
the slice `input.cur_chars(k)` is `plain[pos+k ..]` and is represented by its start index. Facts that
hold by Rust TYPING are not sites: a byte is `< 256` (`RANDOM_VECTOR` / `CRC32C_TABLE` indices), a hash
is a `u16` and `head` / `prev` have 65536 entries, `PreflateTokenReference::len() <= 258`,
`chain distance <= 65535`. Casts `as` never panic. `plain.size < 2^32` is assumed throughout (`size()`
is `data.len() as u32`).

SITES (file:line of /repo/src, tag used in the panic string)

preflate_input.rs
  I1  :27  cur_chars: `self.pos + offset` (i32, overflow-checked)
  I2  :27  cur_chars: `&self.data[k..]`, slice start `k > len` (a negative `k` wraps to a huge usize)
  I3  :31  cur_char: `self.data[k]`, `k >= len`
  I4  :40  remaining: `data.len() as u32 - pos as u32` (u32, underflow)
  I5  :35  advance: `self.pos += l as i32` (i32)        I6  :36  `debug_assert!(pos <= len)`
hash_algorithm.rs (`get_hash(b)`)
  H1  :41-43  ZlibRotatingHash `b[0]`,`b[1]`,`b[2]`      H2  :42-43  `c << self.hash_shift` on u16 (shift >= 16)
  H3  :73  MiniZHash `b[0..2]`        H4  :100 LibdeflateHash4Fast `b[..4]`   H5  :125 LibdeflateHash4 `b[..4]`
  H6  :153 LibdeflateHash3Secondary `b[0..2]`            H7  :178 ZlibNGHash `b[..4]`
  H8  :203 Crc32cHash `assert!(b.len() >= 4)`            H9  :336-338 RandomVectorHash `b[0..2]`
hash_chain.rs
  C1  :50  from_absolute: `pos as i32 - total_shift` (i32)     C2  :50  `u16::try_from(..).unwrap()`
  C3  :35  inc: `self.pos + 1` (u16)                           C4  :43  dist: `self.pos - pos.pos` (u16)
  C5  :86  update_chain: `debug_assert!(length as usize <= chars.len())`
  C6  :94  update_chain: `&chars[i..]`
  C7  :213/:312  update_hash: `assert!(length <= MAX_UPDATE_HASH_BATCH)`
  C8  :215/:314  `pos as i32 - self.total_shift` (i32)         C9  :148/:320  `total_shift += DELTA` (i32)
  C10 :155/:251  iterate: `input.pos() + offset` (u32)         C11 :168/:272  `assert_eq!(offset, 1)`
  (:87 `length as usize + num_hash_bytes() - 1` is usize with `num_hash_bytes() >= 3`: no site)
hash_chain_holder.rs
  M1  :151 update_hash: `debug_assert!(length <= MAX_UPDATE_HASH_BATCH)`
  M2  :271 new: `1 << params.window_bits` (u32, shift >= 32)
  M3  :282 `input.pos() + OFFSET` (u32)       M4  :283 `input.size() - start_pos` (u32)
  M5  :286 `prev_len + 1` (u32)               M6  :293 `start_pos - 1` (u32, when !matches_to_start_detected)
  M7  :315 `self.window_bytes - MIN_LOOKAHEAD + 1` (u32)       M8  :317 `max_dist - 1` (u32)
  M9  :326 `input.cur_chars(OFFSET)` (-> I1, I2)
  M10 :343 `input.cur_chars(OFFSET as i32 - dist as i32)` (-> I1, I2)
  M12 :347 `PreflateTokenReference::new(match_length, ..)`: preflate_token.rs:37 `len - 3` (u32)
  M13 :362 `max_chain -= 1` (u32)
  P1  :383 prefix_compare: `assert!(max_len >= 3 && s1.len() >= max_len && s2.len() >= max_len && best_len < max_len)`
  P2  :390 `s1[best_len]`, `s2[best_len]`     P3  :393 `s1[0..2]`, `s2[0..2]`     P4  :399 `s1[i]`, `s2[i]`
  K1  :130 calculate_hops of the `()` holder (HashAlgorithm::None): `unimplemented!()`
  K2  :177 `input.remaining()` (-> I4)        K3  :195 `input.cur_chars(-(dist as i32))` (-> I1, I2)
  K4  :197 `best_len - 1` (u32)               (:215 `max_chain -= 1` is guarded by `max_chain <= 1`; `hops += 1`
                                               runs at most 65535 times)
  J1  :133 hop_match of the `()` holder: `unimplemented!()`    J2  :224 remaining (-> I4)
  J3  :238 `input.cur_chars(-(dist as i32))`  J4  :240 `len - 1` (u32)
token_predictor.rs
  T1  :401 predict_token: `input.remaining()` (-> I4)    T2  :402/:416/:422/:453/:461 `input.cur_char(0)` (-> I3)
  T3  :433 `match_token.len() + 2` (u32; `len() <= 258` by typing: no site)
  T4  :471 repredict_reference: `input.remaining()`       T5  :512/:520/:112 `input.advance(..)` (-> I5, I6)
add_policy_estimator.rs
  A1  :64/:75 `&input[length as usize - 1..]`  A2  :64/:75 `pos + length - 1` (u32)   A3  :88 `pos + length` (u32)
-/
import Preflate.Model.Chains
import Preflate.Model.ChainBounds
namespace Preflate.Chains
open Preflate

/-- a Rust `assert!` / bounds check / overflow check: `.panic site` unless `c` holds -/
def need (c : Prop) [Decidable c] (site : String) : R Unit :=
  if c then .ok () else .error (.panic site)

/-- the value is representable as an i32 -/
def inI32 (v : Int) : Prop := -2147483648 ≤ v ∧ v < 2147483648

instance (v : Int) : Decidable (inI32 v) := by unfold inI32; infer_instance

-- ---------------------------------------------------------------------------------------------
-- preflate_input.rs

/-- `input.cur_chars(off)` -/
def curCharsChk (plain : Array Nat) (pos : Nat) (off : Int) : R Unit := do
  need (inI32 ((pos : Int) + off)) "I1 cur_chars: self.pos + offset (i32)"
  need (0 ≤ (pos : Int) + off ∧ (pos : Int) + off ≤ plain.size) "I2 cur_chars: slice start out of range"

/-- `input.cur_char(0)` -/
def curCharChk (plain : Array Nat) (pos : Nat) : R Unit :=
  need (pos < plain.size) "I3 cur_char: index out of range"

/-- `input.remaining()` -/
def remainingChk (plain : Array Nat) (pos : Nat) : R Unit :=
  need (pos ≤ plain.size) "I4 remaining: data.len() - pos (u32)"

/-- `input.advance(l)` -/
def advanceChk (plain : Array Nat) (pos l : Nat) : R Unit := do
  need (inI32 ((pos : Int) + l)) "I5 advance: self.pos += l (i32)"
  need (pos + l ≤ plain.size) "I6 advance: debug_assert!(pos <= data.len())"

-- ---------------------------------------------------------------------------------------------
-- hash_algorithm.rs: `get_hash(b)` with `b = plain[i..]` (the slice exists: `i ≤ plain.size`)

def hashChk (p : Params) (plain : Array Nat) (i : Nat) : R Unit :=
  let n := plain.size - i
  match p.hashAlg with
  | 1 => do
      need (1 ≤ n) "H1 ZlibRotatingHash: b[0]"
      need (p.hashShift < 16) "H2 ZlibRotatingHash: c << hash_shift (u16)"
      need (2 ≤ n) "H1 ZlibRotatingHash: b[1]"
      need (3 ≤ n) "H1 ZlibRotatingHash: b[2]"
  | 2 => need (3 ≤ n) "H3 MiniZHash: b[0..2]"
  | 3 => need (4 ≤ n) "H5 LibdeflateHash4: b[..4]"
  | 4 => need (4 ≤ n) "H4 LibdeflateHash4Fast: b[..4]"
  | 5 => need (4 ≤ n) "H7 ZlibNGHash: b[..4]"
  | 6 => need (3 ≤ n) "H9 RandomVectorHash: b[0..2]"
  | 7 => need (4 ≤ n) "H8 Crc32cHash: assert!(b.len() >= 4)"
  | _ => .ok ()

/-- LibdeflateHash3Secondary::get_hash -/
def hash3Chk (plain : Array Nat) (i : Nat) : R Unit :=
  need (3 ≤ plain.size - i) "H6 LibdeflateHash3Secondary: b[0..2]"

-- ---------------------------------------------------------------------------------------------
-- hash_chain.rs: iterate

/-- `InternalPosition::from_absolute(pos, total_shift)` -/
def fromAbsChk (pos : Nat) (shift : Int) : R Unit := do
  need (inI32 ((pos : Int) - shift)) "C1 from_absolute: pos as i32 - total_shift (i32)"
  need (0 ≤ (pos : Int) - shift ∧ (pos : Int) - shift ≤ 65535) "C2 from_absolute: u16::try_from(..).unwrap()"

/-- `walk` with, for every element, whether `ref_pos.dist(cur_pos)` (u16 subtraction) is in range.
    The iterator is lazy: the consumer checks the flag when it pulls the element. -/
def walkRaw (t : Table) (refPos : Nat) : Nat → Nat → List (Nat × Bool)
  | 0, _ => []
  | fuel + 1, cur =>
      if cur = 0 then [] else (refPos - cur, decide (cur ≤ refPos)) :: walkRaw t refPos fuel (t.prev[cur]!)

/-- `iterate` with the C4 flags; the synthetic first elements (distance 1 of a lazy match, the
    libdeflate 3-byte candidate, whose subtraction happens eagerly and is checked in `iterateChk`)
    carry `true`. `(iterateRaw ..).map Prod.fst = iterate ..` (`Proofs.iterateRaw_fst`). -/
def iterateRaw (p : Params) (plain : Array Nat) (c : Chain) (pos offset : Nat) : List (Nat × Bool) :=
  let refPos := ((pos + offset : Nat) - c.totalShift).toNat
  if p.hashAlg = 3 then
    if offset = 0 then
      let s3 := c.t3.head[hash3At plain pos]!
      let first := if s3 ≠ 0 then [(refPos - s3, true)] else []
      first ++ walkRaw c.t refPos 65536 (c.t.head[hashAt p plain pos]!)
    else
      let cur := hashAt p plain (pos + 1)
      let first := if hashAt p plain pos = cur then [(1, true)] else []
      first ++ walkRaw c.t refPos 65536 (c.t.head[cur]!)
  else
    let h1 := hashAt p plain pos
    if offset = 0 then walkRaw c.t refPos 65536 (c.t.head[h1]!)
    else
      let cur := hashAt p plain (pos + 1)
      let first := if h1 = cur then [(1, true)] else []
      first ++ walkRaw c.t refPos 65536 (c.t.head[cur]!)

/-- the eager part of `HashChain::iterate(input, offset)` (both chain types) -/
def iterateChk (p : Params) (plain : Array Nat) (c : Chain) (pos offset : Nat) : R Unit := do
  need (pos + offset < 4294967296) "C10 iterate: input.pos() + offset (u32)"
  fromAbsChk (pos + offset) c.totalShift
  if p.hashAlg = 3 then
    if offset = 0 then do
      curCharsChk plain pos 0
      hash3Chk plain pos
      need (c.t3.head[hash3At plain pos]! = 0 ∨
            (c.t3.head[hash3At plain pos]! : Int) ≤ (pos + offset : Nat) - c.totalShift)
        "C4 dist: ref_pos - start_pos (u16), libdeflate 3-byte candidate"
      curCharsChk plain pos 0
      hashChk p plain pos
    else do
      need (offset = 1) "C11 iterate: assert_eq!(offset, 1)"
      curCharsChk plain pos 1
      hashChk p plain (pos + 1)
      curCharsChk plain pos 0
      hashChk p plain pos
  else do
    curCharsChk plain pos 0
    hashChk p plain pos
    if offset = 0 then .ok ()
    else do
      need (offset = 1) "C11 iterate: assert_eq!(offset, 1)"
      curCharsChk plain pos 1
      hashChk p plain (pos + 1)

-- ---------------------------------------------------------------------------------------------
-- hash_chain_holder.rs: prefix_compare(s1 = plain[a..], s2 = plain[b..], best_len, max_len)
-- (both slices exist: `a ≤ plain.size`, `b ≤ plain.size`)

/-- the loop `for i in 3..max_len` -/
def prefixLoopChk (plain : Array Nat) (a b maxLen : Nat) : Nat → Nat → R Unit
  | 0, _ => .ok ()
  | fuel + 1, i =>
      if maxLen ≤ i then .ok ()
      else do
        need (a + i < plain.size) "P4 prefix_compare: s1[i]"
        need (b + i < plain.size) "P4 prefix_compare: s2[i]"
        if byteAt plain (a + i) ≠ byteAt plain (b + i) then .ok ()
        else prefixLoopChk plain a b maxLen fuel (i + 1)

def prefixCompareChk (plain : Array Nat) (a b bestLen maxLen : Nat) : R Unit := do
  need (3 ≤ maxLen ∧ maxLen ≤ plain.size - a ∧ maxLen ≤ plain.size - b ∧ bestLen < maxLen)
    "P1 prefix_compare: assert!(max_len >= 3 && s1.len() >= max_len && s2.len() >= max_len && best_len < max_len)"
  need (a + bestLen < plain.size) "P2 prefix_compare: s1[best_len]"
  need (b + bestLen < plain.size) "P2 prefix_compare: s2[best_len]"
  if byteAt plain (a + bestLen) ≠ byteAt plain (b + bestLen) then .ok ()
  else do
    need (a < plain.size) "P3 prefix_compare: s1[0]"
    need (b < plain.size) "P3 prefix_compare: s2[0]"
    if byteAt plain a ≠ byteAt plain b then .ok ()
    else do
      need (a + 1 < plain.size) "P3 prefix_compare: s1[1]"
      need (b + 1 < plain.size) "P3 prefix_compare: s2[1]"
      if byteAt plain (a + 1) ≠ byteAt plain (b + 1) then .ok ()
      else do
        need (a + 2 < plain.size) "P3 prefix_compare: s1[2]"
        need (b + 2 < plain.size) "P3 prefix_compare: s2[2]"
        if byteAt plain (a + 2) ≠ byteAt plain (b + 2) then .ok ()
        else prefixLoopChk plain a b maxLen (maxLen - 3) 3

-- ---------------------------------------------------------------------------------------------
-- hash_chain_holder.rs: match_token_offset

/-- the loop `for dist in self.hash.iterate(input, OFFSET)` of match_token_offset, over the flagged
    candidate list; state: `first`, `best_len`, `max_chain`, `best_match`. `breakFix = false` is the
    loop as it was before the `if best_len >= max_len { break }` repair (history (i)). -/
def matchLoopC (breakFix : Bool) (p : Params) (plain : Array Nat) (startPos maxLen niceLength hop0 hop1 : Nat) :
    List (Nat × Bool) → Bool → Nat → Nat → MatchResult → R MatchResult
  | [], _, _, _, best => .ok best
  | (dist, okd) :: rest, first, bestLen, maxChain, best => do
      need (okd = true) "C4 dist: ref_pos - cur_pos (u16)"
      if first = true ∧ dist > hop0 then .ok .none
      else if first = false ∧ dist > hop1 then .ok best
      else do
        -- input.cur_chars(OFFSET as i32 - dist as i32), relative to pos: index startPos - dist
        need (inI32 ((startPos : Int) - dist)) "M10/I1 cur_chars(OFFSET - dist): i32"
        need (dist ≤ startPos) "M10/I2 cur_chars(OFFSET - dist): slice start out of range"
        prefixCompareChk plain (startPos - dist) startPos bestLen maxLen
        let ml := prefixCompare plain (startPos - dist) startPos bestLen maxLen
        if ml > bestLen then do
          need (3 ≤ ml) "M12 PreflateTokenReference::new: len - 3 (u32)"
          if ml ≥ niceLength ∧ (ml > 3 ∨ dist ≤ p.maxDist3) then .ok (.success ml dist)
          else if breakFix = true ∧ ml ≥ maxLen then .ok (.success ml dist)
          else do
            need (1 ≤ maxChain) "M13 match_token_offset: max_chain -= 1 (u32)"
            if maxChain - 1 = 0 then .ok (.success ml dist)
            else matchLoopC breakFix p plain startPos maxLen niceLength hop0 hop1 rest false ml (maxChain - 1)
                   (.success ml dist)
        else do
          need (1 ≤ maxChain) "M13 match_token_offset: max_chain -= 1 (u32)"
          if maxChain - 1 = 0 then .ok best
          else matchLoopC breakFix p plain startPos maxLen niceLength hop0 hop1 rest false bestLen (maxChain - 1) best

/-- `HashChainHolderImpl::new`: `window_bytes: 1 << params.window_bits` (the `()` holder computes nothing) -/
def holderNewChk (p : Params) : R Unit :=
  if p.hashAlg = 0 then .ok () else need (p.windowBits < 32) "M2 new: 1 << window_bits (u32)"

/-- match_token_offset::<OFFSET> with every site checked; whenever it answers, it answers what
    `matchToken` answers (`Proofs.matchTokenC_eq`) -/
def matchTokenC (breakFix : Bool) (p : Params) (plain : Array Nat) (c : Chain) (pos offset prevLen maxDepth : Nat) :
    R MatchResult :=
  if p.hashAlg = 0 then .ok .none else do
  need (pos + offset < 4294967296) "M3 match_token_offset: input.pos() + OFFSET (u32)"
  let startPos := pos + offset
  need (startPos ≤ plain.size) "M4 match_token_offset: input.size() - start_pos (u32)"
  let maxLen := min (plain.size - startPos) 258
  need (prevLen + 1 < 4294967296) "M5 match_token_offset: prev_len + 1 (u32)"
  if maxLen < max (prevLen + 1) (max (numHashBytes p) 3) then .ok .none else do
  need (p.matchesToStart = true ∨ 1 ≤ startPos) "M6 match_token_offset: start_pos - 1 (u32)"
  let maxDistToStart := startPos - (if p.matchesToStart then 0 else 1)
  let windowBytes := 1 <<< p.windowBits
  let limits : R (Option (Nat × Nat)) :=
    if p.veryFar then .ok (some (min maxDistToStart windowBytes, min maxDistToStart windowBytes))
    else if p.strategy = 2 ∨ p.strategy = 3 then .ok Option.none
    else if p.strategy = 1 then .ok (some (1, 1))
    else do
      need (262 ≤ windowBytes) "M7 match_token_offset: window_bytes - MIN_LOOKAHEAD (u32)"
      need (windowBytes - 262 + 1 < 4294967296) "M7 match_token_offset: .. + 1 (u32)"
      let maxDist := windowBytes - 262 + 1
      need (1 ≤ maxDist) "M8 match_token_offset: max_dist - 1 (u32)"
      .ok (some (min maxDistToStart maxDist, min maxDistToStart (maxDist - 1)))
  match ← limits with
  | Option.none => .ok .none
  | some (hop0, hop1) => do
      let niceLength := min p.niceLength maxLen
      curCharsChk plain pos offset
      iterateChk p plain c pos offset
      matchLoopC breakFix p plain startPos maxLen niceLength hop0 hop1
        (iterateRaw p plain c pos offset) true prevLen maxDepth .none

def matchTokenChk (p : Params) (plain : Array Nat) (c : Chain) (pos offset prevLen maxDepth : Nat) : R Unit :=
  match matchTokenC true p plain c pos offset prevLen maxDepth with
  | .ok _ => .ok ()
  | .error e => .error e

-- ---------------------------------------------------------------------------------------------
-- hash_chain_holder.rs: calculate_hops / hop_match (the `candidates` walk)

/-- the loop of calculate_hops (mirror of `hopsWalk`) -/
def hopsLoopChk (plain : Array Nat) (pos maxDist len target : Nat) : List (Nat × Bool) → Nat → R Unit
  | [], _ => .ok ()
  | (d, okd) :: rest, maxChain => do
      need (okd = true) "C4 dist: ref_pos - cur_pos (u16)"
      if d > maxDist then .ok ()
      else do
        curCharsChk plain pos (-(d : Int))
        need (1 ≤ len) "K4 calculate_hops: best_len - 1 (u32)"
        curCharsChk plain pos 0
        prefixCompareChk plain (pos - d) pos (len - 1) len
        if d ≥ target then .ok ()
        else if maxChain ≤ 1 then .ok ()
        else hopsLoopChk plain pos maxDist len target rest (maxChain - 1)

/-- HashChainHolder::calculate_hops(target = (len, dist)) at the state `s` -/
def calcHopsChk (p : Params) (plain : Array Nat) (s : PState Chain) (len dist : Nat) : R Unit :=
  if p.hashAlg = 0 then .error (.panic "K1 calculate_hops: unimplemented!() for HashAlgorithm::None")
  else do
    remainingChk plain s.pos
    if min (plain.size - s.pos) 258 < len then .ok ()
    else do
      iterateChk p plain s.h s.pos 0
      hopsLoopChk plain s.pos (min s.pos (1 <<< p.windowBits)) len dist (iterateRaw p plain s.h s.pos 0) 65535

/-- the loop of hop_match (mirror of `hopMatchWalk`) -/
def hopMatchLoopChk (plain : Array Nat) (pos maxDist len hops : Nat) : List (Nat × Bool) → Nat → R Unit
  | [], _ => .ok ()
  | (d, okd) :: rest, cur => do
      need (okd = true) "C4 dist: ref_pos - cur_pos (u16)"
      if d > maxDist then .ok ()
      else do
        curCharsChk plain pos (-(d : Int))
        curCharsChk plain pos 0
        need (1 ≤ len) "J4 hop_match: len - 1 (u32)"
        prefixCompareChk plain (pos - d) pos (len - 1) len
        if matchAt plain pos len d then
          if cur + 1 = hops then .ok () else hopMatchLoopChk plain pos maxDist len hops rest (cur + 1)
        else hopMatchLoopChk plain pos maxDist len hops rest cur

/-- HashChainHolder::hop_match(len, hops) at the state `s` (reconstruction side) -/
def hopMatchChk (p : Params) (plain : Array Nat) (s : PState Chain) (len hops : Nat) : R Unit :=
  if p.hashAlg = 0 then .error (.panic "J1 hop_match: unimplemented!() for HashAlgorithm::None")
  else do
    remainingChk plain s.pos
    if min (plain.size - s.pos) 258 < len then .ok ()
    else do
      iterateChk p plain s.h s.pos 0
      hopMatchLoopChk plain s.pos (min s.pos (1 <<< p.windowBits)) len hops (iterateRaw p plain s.h s.pos 0) 0

-- ---------------------------------------------------------------------------------------------
-- hash_chain.rs: update_hash / update_chain

/-- the loop `for i in 0..length` of update_chain: `hashChkAt i` is the check of
    `hash.get_hash(&chars[i..])`; `n` iterations remain -/
def updLoopChk (hashChkAt : Nat → R Unit) (avail ipos : Nat) : Nat → Nat → R Unit
  | 0, _ => .ok ()
  | n + 1, i => do
      need (i ≤ avail) "C6 update_chain: &chars[i..]"
      hashChkAt i
      need (ipos + i + 1 ≤ 65535) "C3 inc: pos + 1 (u16)"
      updLoopChk hashChkAt avail ipos n (i + 1)

/-- HashTable::update_chain(hash, chars, pos, length) with `chars.len() = avail` -/
def updateChainChk (hashChkAt : Nat → R Unit) (nbytes avail ipos length : Nat) : R Unit := do
  need (length ≤ avail) "C5 update_chain: debug_assert!(length as usize <= chars.len())"
  if length + nbytes - 1 ≥ avail then .ok ()
  else updLoopChk hashChkAt avail ipos length 0

/-- HashChain::update_hash(input = plain[pos0..], pos0, length) (both chain types) -/
def updateChk (p : Params) (plain : Array Nat) (c : Chain) (pos0 length : Nat) : R Unit := do
  need (length ≤ 0x180) "C7 update_hash: assert!(length <= MAX_UPDATE_HASH_BATCH)"
  need (inI32 ((pos0 : Int) - c.totalShift)) "C8 update_hash: pos as i32 - total_shift (i32)"
  (if (pos0 : Int) - c.totalShift ≥ 0xfe08 then
    need (inI32 (c.totalShift + 0x7e00)) "C9 reshift: total_shift += DELTA (i32)"
   else .ok ())
  let shift := shiftStep c.totalShift pos0
  fromAbsChk pos0 shift
  let ipos := ((pos0 : Int) - shift).toNat
  let avail := plain.size - pos0
  updateChainChk (fun i => hashChk p plain (pos0 + i)) (numHashBytes p) avail ipos length
  if p.hashAlg = 3 then updateChainChk (fun i => hash3Chk plain (pos0 + i)) 3 avail ipos length
  else .ok ()

/-- HashChainHolder::update_hash(length, input): the add policy driving HashChain::update_hash
    (mirror of `policyUpdate`) -/
def policyUpdateChk (p : Params) (plain : Array Nat) (c : Chain) (pos length : Nat) : R Unit :=
  if p.hashAlg = 0 then .ok ()
  else do
    need (length ≤ 0x180) "M1 update_hash: debug_assert!(length <= MAX_UPDATE_HASH_BATCH)"
    curCharsChk plain pos 0
    if length = 1 then updateChk p plain c pos 1
    else match p.addPolicy with
      | 0 => updateChk p plain c pos length
      | 1 => if length ≤ p.addLimit then updateChk p plain c pos length else updateChk p plain c pos 1
      | 2 =>
          if length ≤ p.addLimit then updateChk p plain c pos length
          else do
            updateChk p plain c pos 1
            need (length - 1 ≤ plain.size - pos) "A1 update_hash: &input[length - 1..]"
            need (pos + length < 4294967296 + 1) "A2 update_hash: pos + length - 1 (u32)"
            updateChk p plain (c.update p plain pos 1) (pos + length - 1) 1
      | 3 => if (pos &&& 4095) < 4093 then updateChk p plain c pos 1 else .ok ()
      | _ => do
          updateChk p plain c pos 1
          need (pos + length < 4294967296) "A3 is_at_32k_boundary: pos + length (u32)"
          if is32kBoundary length pos then do
            need (length - 1 ≤ plain.size - pos) "A1 update_hash: &input[length - 1..]"
            need (pos + length < 4294967296 + 1) "A2 update_hash: pos + length - 1 (u32)"
            updateChk p plain (c.update p plain pos 1) (pos + length - 1) 1
          else .ok ()

-- ---------------------------------------------------------------------------------------------
-- token_predictor.rs

/-- TokenPredictor::predict_token -/
def predictTokChk (p : Params) (plain : Array Nat) (s : PState Chain) : R Unit :=
  if s.pos = 0 then curCharChk plain s.pos
  else do
    remainingChk plain s.pos
    if plain.size - s.pos < 3 then curCharChk plain s.pos
    else do
      (match s.pending with
        | some _ => .ok ()
        | none => matchTokenChk p plain s.h s.pos 0 0 p.maxChain)
      let m := match s.pending with
        | some (l, d) => MatchResult.success l d
        | none => matchToken p plain s.h s.pos 0 0 p.maxChain
      match m with
      | .none => curCharChk plain s.pos
      | .success len dist =>
          if len < 3 then curCharChk plain s.pos
          else if len = 3 ∧ dist > p.maxDist3 then curCharChk plain s.pos
          else if p.isLazy ∧ len < p.maxLazy ∧ plain.size - s.pos ≥ len + 2 then do
            let depth := if p.zlibCompatible ∧ len ≥ p.goodLength then p.maxChain >>> 2 else p.maxChain
            matchTokenChk p plain s.h s.pos 1 len depth
            match matchToken p plain s.h s.pos 1 len depth with
            | .success l2 _ => if l2 > len then curCharChk plain s.pos else .ok ()
            | .none => .ok ()
          else .ok ()

/-- TokenPredictor::repredict_reference -/
def repredictTokChk (p : Params) (plain : Array Nat) (s : PState Chain) : R Unit :=
  if s.pos = 0 then .ok ()
  else do
    remainingChk plain s.pos
    if plain.size - s.pos < 3 then .ok ()
    else matchTokenChk p plain s.h s.pos 0 0 p.maxChain

/-- TokenPredictor::commit_token: update_hash(len), advance(len) -/
def commitChk (p : Params) (plain : Array Nat) (s : PState Chain) (len : Nat) : R Unit := do
  policyUpdateChk p plain s.h s.pos len
  advanceChk plain s.pos len

/-- one iteration of the token loop of predict_block (mirror of `encTok (pred p)`): an `Err` return of
    the Rust (`?`) ends the checks, as it ends the function -/
def encTokChk (p : Params) (plain : Array Nat) (s : PState Chain) (t : Token) : R Unit := do
  predictTokChk p plain s
  let (pt, pend) := predictTok p plain s
  let s1 : PState Chain := { s with pending := pend }
  match t with
  | .lit _ => commitChk p plain s1 1
  | .ref len dist _ =>
      match pt with
      | .lit => do
          repredictTokChk p plain s1
          match repredictTok p plain s1 with
          | .error _ => .ok ()
          | .ok (plen, pdist) =>
              let s2 : PState Chain := { s1 with pending := none }
              if plen ≠ len ∨ dist ≠ pdist then do
                calcHopsChk p plain s2 len dist
                match calcHops (pred p) plain s2 len dist with
                | .error _ => .ok ()
                | .ok _ => commitChk p plain s2 len
              else commitChk p plain s2 len
      | .ref plen pdist =>
          if plen ≠ len ∨ dist ≠ pdist then do
            calcHopsChk p plain s1 len dist
            match calcHops (pred p) plain s1 len dist with
            | .error _ => .ok ()
            | .ok _ => commitChk p plain s1 len
          else commitChk p plain s1 len

/-- the token loop of predict_block; the state advances as `encTok (pred p)` advances it -/
def encToksChk (p : Params) (plain : Array Nat) : PState Chain → List Token → R Unit
  | _, [] => .ok ()
  | s, t :: ts => do
      encTokChk p plain s t
      match encTok (pred p) plain s t with
      | .error _ => .ok ()
      | .ok (_, s') => encToksChk p plain s' ts

/-- stored blocks: `update_hash(1); advance(1)` per byte (mirror of `commitStored`) -/
def commitStoredChk (p : Params) (plain : Array Nat) : Nat → PState Chain → R Unit
  | 0, _ => .ok ()
  | n + 1, s => do
      commitChk p plain s 1
      commitStoredChk p plain n { s with h := policyUpdate p plain s.h s.pos 1, pos := s.pos + 1 }

/-- predict_block (the predictor part) -/
def encBlockChk (p : Params) (plain : Array Nat) (s : PState Chain) (b : Block) : R Unit :=
  let s : PState Chain := { s with count := 0, pending := none }
  match b with
  | .stored _ data => commitStoredChk p plain data.length s
  | _ => encToksChk p plain s (blockTokens b)

/-- predict_blocks -/
def encBlocksChk (p : Params) (plain : Array Nat) : PState Chain → List Block → R Unit
  | _, [] => .ok ()
  | s, b :: rest => do
      encBlockChk p plain s b
      match encBlock (pred p) plain s b rest.isEmpty with
      | .error _ => .ok ()
      | .ok (_, s') => encBlocksChk p plain s' rest

/-- TokenPredictor::new followed by predict_blocks over the whole stream -/
def encStreamChk (p : Params) (plain : Array Nat) (blocks : List Block) : R Unit := do
  holderNewChk p
  encBlocksChk p plain ⟨Chain.init, none, 0, 0⟩ blocks

end Preflate.Chains
