import Preflate.Model.Basic
import Preflate.Model.Bits
import Preflate.Model.Huffman
import Preflate.Gen.Consts
import Preflate.Gen.Effects
import Preflate.Model.Deflate
