-- Root of the `Preflate` library: every property module (statements + proofs) and the driver.
import Preflate.Props.C01
import Preflate.Props.C02
import Preflate.Props.C03
import Preflate.Props.C04
import Preflate.Props.C05
import Preflate.Props.C06
import Preflate.Props.C07
import Preflate.Props.C08
import Preflate.Props.C10
import Preflate.Props.C11
import Preflate.Props.C12
import Preflate.Props.C13
import Preflate.Props.C14
import Preflate.Driver.Wire
import Preflate.Driver.CodecWire
import Preflate.Driver.ContainerWire
import Preflate.Driver.AnalyzeWire
